"""C10  Mutable reads return only published versions."""
import os
import struct

from core import term as T

ID = "C10"
GEN = ["mutpins"]
RULE = ("targeted cases: SDMF files with k = N (every share is needed), one field of one share altered (verification key, each signed-prefix field, "
        "share hash chain, block data, encrypted private key); the symbolic model predicts accept/reject.  oracle cases: SDMF and MDMF files with "
        "1-3 published versions, random byte flips / truncation / another file's share / an older version's share on random subsets of shares; "
        "non-trivial = at least one share altered; distinct = distinct (seed, scenario)")
META = {
    "title": "Mutable reads return only published versions",
    "level_text": ("Theorems in Coq over a model of the reader's validation chain (key fingerprint, signature over the version prefix, block hash tree, "
                   "share hash tree), for ARBITRARY adversarial shares: an accepted version was signed by the key whose hash is in the cap; an accepted "
                   "block under a published root hash is the published block (Merkle binding); parties without the signing key cannot make readers "
                   "accept an unpublished (seqnum, root hash).  The executable symbolic instance is compared with real reads of shares with one altered "
                   "field; random corruption, truncation and share substitution across files and versions are run on a real grid with the property as oracle."),
    "level_note": ("core (partial): hypotheses stated in each theorem — SHA-256d collision-freeness on the values hashed, idealised RSA-PSS unforgeability, "
                   "injective packing of the signed prefix.  The updater's cache of already validated version ids (a share repeating a validated prefix is "
                   "not signature-checked again) is outside the model and harmless: the prefix itself is authentic.  AES decryption of accepted blocks and "
                   "zfec decoding are not modelled (C09/C36).  Share parsing/offset handling is exercised by the oracle stream only."),
    "technique": "Coq proof (Merkle binding + unforgeability hypothesis) over a validation-chain model; symbolic instance vs real reads; grid corruption runs with oracle",
    "design_ref": "8/C10",
    "trusted_base": ["mapping of SDMF share fields to model fields done by the driver"],
    "assumptions": ["hash injectivity and signature unforgeability as stated in the theorems"],
}
IMPORTS = ["Model.MutVerify"]
COQ_EXTRA = ["Model.MutRetry"]

SDMF_HEADER = ">BQ32s16sBBQQLLLLQQ"
HLEN = struct.calcsize(SDMF_HEADER)


def sdmf_fields(payload):
    (ver, seq, root, iv, k, n, segsize, datalen, o_sig, o_shc, o_bht, o_sd, o_epk, o_eof) = struct.unpack(SDMF_HEADER, payload[:HLEN])
    return {
        "seqnum": (1, 9), "root_hash": (9, 41), "iv": (41, 57), "k": (57, 58), "segsize": (59, 67), "datalen": (67, 75),
        "pubkey": (HLEN, o_sig), "signature": (o_sig, o_shc), "share_hash_chain": (o_shc + 2, o_bht),   # skip the 2-byte index of the first entry
        "block": (o_sd, o_epk), "enc_privkey": (o_epk, o_eof),
    }


def rehash_ownleaf(payload, shnum, nshares):
    """An SDMF share (one segment) whose block is altered, whose block hash tree is recomputed to match the altered
    block, and whose share hash chain carries -- in place of the top-most uncle, which a reader learns from any other
    share -- an entry for the share's OWN leaf holding the genuine block-hash-tree root.  Every length stays as it was.
    A reader must notice that the leaf it computed and the leaf the chain alleges differ."""
    from allmydata.util import hashutil, mathutil
    (ver, seq, root, iv, k, n, segsize, datalen, o_sig, o_shc, o_bht, o_sd, o_epk, o_eof) = struct.unpack(SDMF_HEADER, payload[:HLEN])
    if ver != 0 or (o_sd - o_bht) != 32 or (o_bht - o_shc) % 34 or o_epk <= o_sd:
        return None
    chain = [(struct.unpack(">H", payload[p:p + 2])[0], payload[p + 2:p + 34]) for p in range(o_shc, o_bht, 34)]
    top = [ix for ix, (hn, _h) in enumerate(chain) if hn in (1, 2)]
    if not top:
        return None
    genuine_root = payload[o_bht:o_bht + 32]
    block = bytearray(payload[o_sd:o_epk])
    block[len(block) // 2] ^= 0x40
    new_root = hashutil.block_hash(bytes(block))          # SDMF hashes the block alone (MDMF: salt + block)
    first_leaf = mathutil.next_power_of_k(nshares, 2) - 1
    chain[top[0]] = (first_leaf + shnum, genuine_root)
    new_chain = b"".join(struct.pack(">H", hn) + h for hn, h in chain)
    return payload[:o_shc] + new_chain + new_root + bytes(block) + payload[o_epk:]


def pubkey_span(payload):
    """(start, end) of the verification key inside a share payload, SDMF or MDMF."""
    if payload[0] == 0:
        f = sdmf_fields(payload)
        return f["pubkey"]
    hdr = struct.calcsize(">BQ32sBBQQ")
    offs = struct.unpack(">QQQQQQQQ", payload[hdr:hdr + 64])
    return offs[3], offs[4]


PRE = """
Definition g_blk (seg : N) := Atom (100 + seg).
Definition g_salt (seg : N) := Atom (200 + seg).
Definition g_bpath (seg : N) : list sym := [].
Definition g_spath : list sym := [Atom 400; Atom 401].
Definition g_root : sym := root_from sym SPair (root_from sym SPair (SBlk (g_salt 0) (g_blk 0)) 0 (g_bpath 0)) 1 g_spath.
Definition mk (pk : sym) (sig : sym) (seqn : N) (root : sym) (spath : list sym) (blk : N -> sym) : share sym :=
  {| s_pubkey := pk; s_signature := sig; s_seqnum := seqn; s_root_hash := root; s_share_path := spath;
     s_block_path := g_bpath; s_block := blk; s_salt := g_salt |}.
Definition gsig := SSig 7 (SPrefix 5 g_root).
"""

# field -> model share with that field altered.  Fields of the signed prefix other than seqnum and
# root hash (IV, k, segsize, datalen) are part of the signed message: altering them is altering the prefix.
MODEL = {
    None: "mk (Atom 7) gsig 5 g_root g_spath g_blk",
    "pubkey": "mk (Atom 8) gsig 5 g_root g_spath g_blk",
    "seqnum": "mk (Atom 7) gsig 6 g_root g_spath g_blk",
    "root_hash": "mk (Atom 7) gsig 5 (Atom 999) g_spath g_blk",
    "iv": "mk (Atom 7) (SSig 7 (SPrefix 5 (Atom 998))) 5 g_root g_spath g_blk",
    "k": "mk (Atom 7) (SSig 7 (SPrefix 5 (Atom 998))) 5 g_root g_spath g_blk",
    "segsize": "mk (Atom 7) (SSig 7 (SPrefix 5 (Atom 998))) 5 g_root g_spath g_blk",
    "datalen": "mk (Atom 7) (SSig 7 (SPrefix 5 (Atom 998))) 5 g_root g_spath g_blk",
    "share_hash_chain": "mk (Atom 7) gsig 5 g_root [Atom 997; Atom 401] g_blk",
    "block": "mk (Atom 7) gsig 5 g_root g_spath (fun _ => Atom 996)",
    "enc_privkey": "mk (Atom 7) gsig 5 g_root g_spath g_blk",      # not part of what a reader checks
}


def run(ctx):
    ctx.correspondence("targeted-field-corruption-vs-symbolic-model")
    ctx.correspondence("grid-corruption-oracle")
    from core import grid as G
    from allmydata.storage.mutable import MutableShareFile
    OFF = MutableShareFile.DATA_OFFSET
    terms, info = [], []
    fields = [f for f in MODEL if f is not None]
    n = ctx.n(11, 66)
    for i in range(n):
        r = ctx.rng("field", i)
        field = fields[i % len(fields)]
        seed = r.getrandbits(30)
        k = N = r.choice([2, 3])
        data = b"published contents " + bytes([65 + i % 26]) * r.randrange(1, 60)
        with G.Grid(num_clients=2, num_servers=N, k=k, n=N, happy=1, seed=seed, timeout=180) as g:
            node = g.run(g.create_mutable(data, version="sdmf"))
            shs = g.find_shares(node.get_uri())
            sh = shs[r.randrange(len(shs))]
            raw = g.read_share(sh)
            lo, hi = sdmf_fields(raw[OFF:])[field]
            if hi <= lo:
                continue
            pos = OFF + lo + r.randrange(hi - lo)
            if field == "share_hash_chain":
                # entries are (2-byte node index, 32-byte hash): alter a hash VALUE.  An altered index
                # merely files a genuine hash under another node, which the shared share-hash tree may
                # never need (harmless, and order dependent).
                nent = (hi - (lo - 2)) // 34
                pos = OFF + (lo - 2) + 34 * r.randrange(nent) + 2 + r.randrange(32)
            bit = 1 << r.randrange(8)
            # The verification key is taken from the first share that provides one matching the
            # fingerprint and is not re-read from later shares (the node caches it), so an altered
            # key field in ONE share is never looked at; alter it in every share.
            # Likewise the share hash tree is shared by all shares of a version: a reader that already
            # holds the nodes a share needs does not even fetch that share's chain.  Both fields are
            # therefore altered in every share (at the same position: the layouts coincide).
            targets = shs if field in ("pubkey", "share_hash_chain") else [sh]
            for t in targets:
                traw = g.read_share(t)
                g.write_share(t, traw[:pos] + bytes([traw[pos] ^ bit]) + traw[pos + 1:])
            # read through ANOTHER client: it knows only the cap (no cached verification key)
            g2 = g.run(g.mutable_read(node.get_uri(), client=1), outcome=True)
        ok = g2.status == "ok"
        case = {"seed": seed, "k": k, "N": N, "field": field, "share": sh.shnum, "byte": pos - OFF}
        ctx.case((seed, field), kind="field:" + field)
        if ok and g2.value != data:
            ctx.oracle_fail("read-returned-unpublished-bytes", "read of a file with an altered %s returned bytes that were never published" % field, case=case,
                            expected=data, observed=g2.value)
        terms.append("Bool.eqb (sym_accepts (SFp (Atom 7)) (%s) 1 0) %s" % (MODEL[field], T.boolean(ok)))
        info.append(case)
        ctx.sample(case, limit=4)
    bad = ctx.coq_check(IMPORTS, terms, preamble=PRE, tag="c10")
    for ix in bad:
        ctx.mismatch("validation-chain-model-differs", "altering %s: real read %s, model says the opposite" % (
            info[ix]["field"], "succeeded"), case=info[ix], correspondence="targeted-field-corruption-vs-symbolic-model")
    ctx.trace(len(terms) - len(bad))
    oracle_stream(ctx, G, OFF)
    vanishing_share_cases(ctx, G)


def vanishing_share_cases(ctx, G, only=None):
    """Shares that disappear (or get damaged) on their server DURING a read: after the server has answered the read's
    survey, before the block is fetched.  The share is larger than the prefix the survey caches, so the fetch really
    asks again.  At least k other intact shares of the newest version stay reachable: the read must succeed."""
    ctx.correspondence("grid-corruption-oracle")
    n = ctx.n(8, 40)
    vterms, vinfo = [], []
    for i in (range(n) if only is None else [only]):
        r = ctx.rng("vanish", i)
        seed = r.getrandbits(30)
        fmt = ["sdmf", "mdmf"][i % 2]
        k, N = [(3, 10), (2, 5), (3, 6), (1, 4)][(i // 2) % 4]
        size = r.choice([12000, 20000, 60000]) + r.randrange(100)
        how = ["unlink", "unlink", "truncate", "unlink"][(i // 2) % 4] if i >= 4 else "unlink"
        data = bytes((j * 7 + i) % 251 for j in range(size))
        case = {"seed": seed, "k": k, "N": N, "format": fmt, "size": size, "how": how, "vanish_index": i, "run_seed": ctx.seed}
        with G.Grid(num_clients=2, num_servers=N, k=k, n=N, happy=1, seed=seed, timeout=240) as g:
            node = g.run(g.create_mutable(data, version=fmt))
            si = g._si(node.get_uri())
            shs = sorted(g.find_shares(node.get_uri()), key=lambda x: x.shnum)
            # the lowest-numbered shares are the ones a reader asks first; always at least k stay
            nv = r.randrange(1, max(2, min(k + 1, len(shs) - k + 1)))
            victims = shs[:nv] if i % 3 != 2 else r.sample(shs, nv)
            case["victims"] = [x.shnum for x in victims]
            saved = []
            for sh in victims:
                ss = g.server(sh.server)
                orig = ss.slot_readv

                def slot_readv(storage_index, shnums, readv, orig=orig, path=sh.path, si=si, how=how):
                    res = orig(storage_index, shnums, readv)
                    if storage_index == si and os.path.exists(path):
                        if how == "unlink":
                            os.unlink(path)             # the server loses the share right after answering
                        else:
                            with open(path, "r+b") as f:
                                f.truncate(os.path.getsize(path) // 2)
                    return res
                ss.slot_readv = slot_readv
                saved.append(ss)
            cap = node.get_uri() if i % 4 < 2 else node.get_readonly_uri()
            out = g.run(g.mutable_read(cap, client=1), outcome=True)
            for ss in saved:
                del ss.slot_readv
        ctx.case((seed, "vanish", i), kind="oracle:%s:share-vanishes-during-read" % fmt)
        if out.status in ("ok", "error"):
            # the same state in Model/MutRetry.v: one version, the shares that vanish are not good, the others are
            vset = set((x.server, x.shnum) for x in victims)
            gl = ["{| gs_share := {| srv := %s; shnum := %s; ver := {| seq := 1; vtag := 5; vk := %s |} |}; gs_good := %s |}" % (
                T.N(x.server), T.N(x.shnum), T.N(k), T.boolean((x.server, x.shnum) not in vset)) for x in shs]
            real_ok = out.status == "ok" and out.value == data
            vterms.append("Bool.eqb (res_eqb (download_best_version (fun _ _ _ => true) %s) (Some {| seq := 1; vtag := 5; vk := %s |})) %s" % (
                T.lst(gl), T.N(k), T.boolean(real_ok)))
            vinfo.append(dict(case, real_read_succeeded=real_ok))
        if out.status in ("hung", "timeout"):
            ctx.oracle_fail("mutable-read-never-finished", "read during which %d share(s) vanish: %s" % (nv, out.status), case=case)
        elif out.status == "ok" and out.value != data:
            ctx.oracle_fail("read-returned-unpublished-bytes", "read during which shares vanish returned bytes that were never published", case=case,
                            expected=data[:40], observed=out.value[:40])
        elif out.status != "ok":
            ctx.oracle_fail("read-failed-with-k-intact-newest-shares", "read failed (%s) although %d intact shares of the newest version stay reachable (k=%d): "
                            "share(s) %s %s on their server after it answered the read's survey" % (
                                out.error, N - nv, k, case["victims"], "vanish" if how == "unlink" else "are cut short"), case=case)
        else:
            ctx.trace(1)
            ctx.sample(case, limit=3)
    if vterms:
        ctx.correspondence("download-retry-vs-model")
        bad = ctx.coq_check(["Model.ServerMap", "Model.MutRetry"], vterms, preamble=RES_EQB, tag="c10vanish")
        for ix in bad:
            ctx.mismatch("download-retry-model-differs", "a read during which shares vanish %s; Model/MutRetry.download_best_version on the same shares says the opposite" % (
                "succeeded" if vinfo[ix]["real_read_succeeded"] else "failed"), case=vinfo[ix], correspondence="download-retry-vs-model")
        ctx.trace(len(vterms) - len(bad))


RES_EQB = """
Definition res_eqb (a b : option version) : bool :=
  match a, b with Some x, Some y => version_eqb x y | None, None => true | _, _ => false end.
"""


def oracle_stream(ctx, G, OFF, only=None):
    ctx.correspondence("download-retry-vs-model")
    rterms, rinfo = [], []
    try:
        _oracle_stream(ctx, G, OFF, only, rterms, rinfo)
    finally:
        if rterms:
            pre = """
Definition res_eqb (a b : option version) : bool :=
  match a, b with Some x, Some y => version_eqb x y | None, None => true | _, _ => false end.
"""
            bad = ctx.coq_check(["Model.ServerMap", "Model.MutRetry"], rterms, preamble=pre, tag="c10retry")
            for ix in bad:
                ctx.mismatch("download-retry-model-differs", "real download_best_version %s; Model/MutRetry.download_best_version on the same shares says the opposite" % (
                    "returned the newest version" if rinfo[ix]["real_newest"] else "did not return the newest version"), case=rinfo[ix],
                    correspondence="download-retry-vs-model")
            ctx.trace(len(rterms) - len(bad))


def _oracle_stream(ctx, G, OFF, only, rterms, rinfo):
    n = ctx.n(40, 240)
    for i in (range(n) if only is None else [only]):
        r = ctx.rng("oracle", i)
        seed = r.getrandbits(30)
        k, N = r.choice([(1, 3), (2, 4), (3, 5), (2, 3), (3, 3)])
        S = r.choice([N, N + 1])
        fmt = r.choice(["sdmf", "mdmf"])
        nver = r.choice([1, 2, 3])
        scenario = r.choice(["flip", "flip", "truncate", "other-file", "forged-with-our-key", "forged-with-our-key", "older-version", "mix",
                             "header-forgery", "header-forgery", "rehash-ownleaf", "rehash-ownleaf", "offset-forgery", "offset-forgery"])
        # every kind of scenario is exercised in every run (the first cases), the rest is drawn at random
        FORCED = ["multi-share-header-flip", "multi-share-header-flip", "header-forgery", "header-forgery", "header-forgery", "header-forgery",
                  "offset-forgery", "offset-forgery", "rehash-ownleaf", "rehash-ownleaf", "forged-with-our-key", "older-version", "other-file",
                  "truncate", "flip", "mix"]
        if i < len(FORCED):
            scenario = FORCED[i]
        if i in (6, 7):
            fmt = "sdmf" if i == 6 else "mdmf"
        if scenario == "offset-forgery":
            # needs at least k shares to forge AND at least k left intact
            k, N = r.choice([(1, 3), (2, 4), (2, 5), (3, 6), (1, 2)])
            S = r.choice([N, N + 1])
        if scenario == "multi-share-header-flip" or (i >= len(FORCED) and r.random() < 0.12):
            # servers holding SEVERAL shares each: what the survey concludes about one share must not spill over to its neighbour
            scenario = "multi-share-header-flip"
            k, N, S = r.choice([(3, 10, 5), (3, 8, 4), (3, 6, 3), (4, 9, 3)])
        if scenario == "rehash-ownleaf":
            fmt = "sdmf"
            k, N = r.choice([(2, 3), (2, 4), (3, 5), (3, 3)])
            S = r.choice([N, N + 1])
        if scenario == "older-version" and nver == 1:
            nver = 2
        if scenario == "multi-share-header-flip":
            S = {(3, 10): 5, (3, 8): 4, (3, 6): 3, (4, 9): 3}[(k, N)]
        case = {"seed": seed, "k": k, "N": N, "servers": S, "format": fmt, "versions": nver, "scenario": scenario, "index": i, "run_seed": ctx.seed}
        with G.Grid(num_clients=2, num_servers=S, k=k, n=N, happy=1, seed=seed, timeout=240) as g:
            contents = [b"v%d-" % v + bytes([97 + v]) * r.randrange(1, 80) for v in range(1, nver + 1)]
            node = g.run(g.create_mutable(contents[0], version=fmt, keypair=g.keypair(0)))
            snaps = [{(sh.server, sh.shnum): g.read_share(sh) for sh in g.find_shares(node.get_uri())}]
            for c in contents[1:]:
                g.run(g.mutable_overwrite(node, c))
                snaps.append({(sh.server, sh.shnum): g.read_share(sh) for sh in g.find_shares(node.get_uri())})
            # a complete, self-consistent file made by somebody else (another key, other contents,
            # correctly signed with THAT key): its shares must never be accepted for our cap, also not
            # when its verification-key field is replaced by ours ("forged-with-our-key")
            forged_data = b"FORGED-" + bytes([48 + i % 10]) * len(contents[-1])
            other = g.run(g.create_mutable(forged_data, version=fmt, keypair=g.keypair(1)))
            other_shares = {sh.shnum: g.read_share(sh) for sh in g.find_shares(other.get_uri())}
            shs = g.find_shares(node.get_uri())
            r.shuffle(shs)
            victims = shs[:r.randrange(1, len(shs) + 1)]
            altered = set()
            if scenario == "header-forgery":
                # the SAME signed-prefix field (k, N, segment size or data length) is forged identically in
                # at least k shares while at least one share stays intact: once an intact share has been
                # verified, a reader must still refuse prefixes the signature does not cover
                nvict = max(min(k, len(shs) - 1), min(len(shs) - 1, r.randrange(k, len(shs) + 1)))
                victims = shs[:nvict]
                fld = r.choice(["k", "N", "segsize", "datalen", "datalen"])
                sdmf_off = {"k": (57, 58), "N": (58, 59), "segsize": (59, 67), "datalen": (67, 75)}
                mdmf_off = {"k": (41, 42), "N": (42, 43), "segsize": (43, 51), "datalen": (51, 59)}
                delta = r.choice([1, 1, 2, 255, -1, -1, -2])
                if i in (2, 3) and k >= 2:
                    # a data length that leaves the (tail) block size alone -- any other value in (segsize - k, segsize] -- keeps
                    # every block hash valid: if the forged prefix is ever accepted the read returns truncated or padded,
                    # i.e. unpublished, bytes
                    raw0 = g.read_share(shs[0])
                    lo_s, hi_s = (sdmf_off if raw0[OFF] == 0 else mdmf_off)["segsize"]
                    lo_d, hi_d = (sdmf_off if raw0[OFF] == 0 else mdmf_off)["datalen"]
                    segsize0 = int.from_bytes(raw0[OFF + lo_s:OFF + hi_s], "big")
                    datalen0 = int.from_bytes(raw0[OFF + lo_d:OFF + hi_d], "big")
                    if datalen0 <= segsize0:
                        cands = [segsize0 - j for j in range(k) if segsize0 - j != datalen0 and segsize0 - j > 0]
                        if cands:
                            fld, delta = "datalen", r.choice(cands) - datalen0
                            victims = shs[:len(shs) - 1]
                            case["forged_field"] = fld
                            case["extra_reads"] = 4
                case["forged_field"] = fld
            if scenario == "multi-share-header-flip":
                # shares get a flipped byte in their signed header (root hash): directed -- on every server but one, every share
                # except the one the server lists last; or a random one per server; at least k untouched shares always remain
                byserver = {}
                for sh in shs:
                    byserver.setdefault(sh.server, []).append(sh)
                spare = r.choice(sorted(byserver))
                directed = r.random() < 0.7
                si = g._si(node.get_uri())
                victims = []
                for srv in sorted(byserver):
                    if srv == spare and len(byserver) > 1:
                        continue
                    lst = sorted(byserver[srv], key=lambda x: x.shnum)
                    if directed:
                        # every share of this server except the one it lists LAST in its answers
                        order = list(g.server(srv).slot_readv(si, [], [(0, 1)]).keys())
                        victims.extend(x for x in lst if x.shnum != order[-1])
                    else:
                        victims.append(r.choice(lst))
                r.shuffle(victims)
                while len(shs) - len(victims) < k:
                    victims.pop()
                for sh in victims:
                    raw = g.read_share(sh)
                    pos = OFF + 9 + r.randrange(32)
                    g.write_share(sh, raw[:pos] + bytes([raw[pos] ^ 0x10]) + raw[pos + 1:])
                    altered.add((sh.server, sh.shnum))
                victims = []
            if scenario == "rehash-ownleaf":
                # whether the forged share is accepted depends on WHICH share it is and on the order in which the k
                # shares in use are validated: forge each share in turn (all others intact), one read each
                pristine = {(sh.server, sh.shnum): g.read_share(sh) for sh in shs}
                for sh in shs[1:]:
                    raw = pristine[(sh.server, sh.shnum)]
                    forged = rehash_ownleaf(raw[OFF:], sh.shnum, N)
                    if forged is None:
                        continue
                    g.write_share(sh, raw[:OFF] + forged)
                    one = g.run(g.mutable_read(node.get_uri(), client=r.choice([0, 1])), outcome=True)
                    ctx.case((seed, scenario, sh.shnum), kind="oracle:sdmf:rehash-ownleaf-single")
                    if one.status == "ok" and one.value not in contents:
                        ctx.oracle_fail("read-returned-unpublished-bytes", "read returned bytes that no write-cap holder published: share %d carries an "
                                        "altered block, a block hash tree recomputed to match, and a share-hash-chain entry for its own leaf "
                                        "holding the genuine root (all other shares intact)" % sh.shnum,
                                        case=dict(case, victim=sh.shnum), expected=[c.decode() for c in contents], observed=one.value)
                    elif N - 1 >= k and (one.status != "ok" or one.value != contents[-1]):
                        ctx.oracle_fail("read-failed-with-k-intact-newest-shares", "read %s although every share but one is intact" % (one.error or one.value), case=dict(case, victim=sh.shnum))
                    g.write_share(sh, raw)
                victims = shs[:r.randrange(1, len(shs))]        # then several at once; at least one share stays intact
            if scenario == "offset-forgery":
                # the offset table is NOT covered by the signature: the same entry is moved identically in k..N-k shares,
                # which the survey then files as a version of their own with the newest sequence number
                nvict = r.randrange(k, len(shs) - k + 1) if len(shs) >= 2 * k else 0
                victims = shs[:nvict]
                oix = r.randrange(6)
                odelta = r.choice([1, 1, -1, 7, 32, -32])
                if i in (6, 7):
                    # in every run: the offset that delimits the share hash chain without touching the signature (SDMF: its end,
                    # slot 2 = block_hash_tree; MDMF: its start, slot 1 = share_hash_chain), moved by one byte so that the chain
                    # is no longer a whole number of (index, hash) entries
                    oix, odelta = (2 if fmt == "sdmf" else 1), 1
                case["forged_offset"] = ["signature", "share_hash_chain", "block_hash_tree", "share_data", "enc_privkey", "EOF"][oix]
                case["delta"] = odelta
            for sh in victims:
                raw = g.read_share(sh)
                sc = scenario if scenario != "mix" else r.choice(["flip", "truncate", "other-file", "forged-with-our-key", "older-version"])
                if sc == "header-forgery":
                    lo, hi = (sdmf_off if raw[OFF] == 0 else mdmf_off)[fld]
                    val = (int.from_bytes(raw[OFF + lo:OFF + hi], "big") + delta) % (1 << (8 * (hi - lo)))
                    g.write_share(sh, raw[:OFF + lo] + val.to_bytes(hi - lo, "big") + raw[OFF + hi:])
                elif sc == "offset-forgery":
                    if raw[OFF] == 0:       # SDMF: >LLLLQQ after the 75-byte signed prefix
                        fmt_o, base = ">LLLLQQ", OFF + 75
                    else:                   # MDMF: >QQQQQQQQ after the 59-byte signed prefix; move one of the first six
                        fmt_o, base = ">QQQQQQQQ", OFF + 59
                    offs = list(struct.unpack(fmt_o, raw[base:base + struct.calcsize(fmt_o)]))
                    offs[oix] = max(0, offs[oix] + odelta)
                    g.write_share(sh, raw[:base] + struct.pack(fmt_o, *offs) + raw[base + struct.calcsize(fmt_o):])
                elif sc == "rehash-ownleaf":
                    forged = rehash_ownleaf(raw[OFF:], sh.shnum, N)
                    if forged is None:
                        continue
                    g.write_share(sh, raw[:OFF] + forged)
                elif sc == "flip":
                    for _ in range(r.choice([1, 1, 2, 5])):
                        pos = OFF + r.randrange(len(raw) - OFF)
                        raw = raw[:pos] + bytes([raw[pos] ^ (1 << r.randrange(8))]) + raw[pos + 1:]
                    g.write_share(sh, raw)
                elif sc == "truncate":
                    g.write_share(sh, raw[:OFF + r.randrange(0, len(raw) - OFF)])
                elif sc == "other-file":
                    src = other_shares.get(sh.shnum) or list(other_shares.values())[0]
                    # keep this slot's container header (write enabler, leases), replace the payload
                    g.write_share(sh, raw[:OFF] + src[OFF:])
                elif sc == "forged-with-our-key":
                    src = other_shares.get(sh.shnum) or list(other_shares.values())[0]
                    a, b = pubkey_span(raw[OFF:])
                    c, d = pubkey_span(src[OFF:])
                    if (b - a) == (d - c):
                        forged = src[OFF:OFF + c] + raw[OFF + a:OFF + b] + src[OFF + d:]
                        g.write_share(sh, raw[:OFF] + forged)
                    else:
                        g.write_share(sh, raw[:OFF] + src[OFF:])
                elif sc == "older-version" and len(snaps) >= 2:
                    g.write_share(sh, snaps[r.randrange(0, len(snaps) - 1)][(sh.server, sh.shnum)])
                altered.add((sh.server, sh.shnum))
            intact_newest = set(shn for (srv, shn) in snaps[-1] if (srv, shn) not in altered)
            out = g.run(g.mutable_read(node.get_uri(), client=r.choice([0, 1])), outcome=True)
            if case.get("extra_reads"):
                # whether a forged prefix slips through depends on the order in which the survey's answers are processed
                more = [g.run(g.mutable_read(node.get_uri(), client=j_ % 2), outcome=True) for j_ in range(case["extra_reads"])]
                case["extra_reads_results"] = [m_.value for m_ in more if m_.status == "ok"]
        ctx.case((seed, scenario), kind="oracle:%s:%s" % (fmt, scenario))
        if case.get("extra_reads_results"):
            wrong = [v for v in case.pop("extra_reads_results") if v not in contents]
            if wrong:
                ctx.oracle_fail("read-returned-unpublished-bytes", "a repeated read returned bytes that no write-cap holder published (%d shares carry the same "
                                "forged %s, one share is intact)" % (len(altered), case.get("forged_field")), case=case,
                                expected=[c.decode() for c in contents], observed=wrong[0])
                continue
        if scenario == "offset-forgery" and out.status in ("ok", "error"):
            ctx.count("retry-model-cases")
            # the same state in Model/MutRetry.v: intact shares are good shares of the genuine version (tag 5); the forged ones
            # are bad shares of a version of their own with the same sequence number, sorting above (tag 9) or below (tag 1)
            # the genuine one according to the direction in which the offset was moved
            gtag, ftag = 5, (9 if odelta > 0 else 1)
            allsh = sorted(snaps[-1])
            gl = ["{| gs_share := {| srv := %s; shnum := %s; ver := {| seq := %s; vtag := %s; vk := %s |} |}; gs_good := %s |}" % (
                T.N(srv_), T.N(shn_), T.N(nver), T.N(ftag if (srv_, shn_) in altered else gtag), T.N(k), T.boolean((srv_, shn_) not in altered)) for (srv_, shn_) in allsh]
            real_newest = out.status == "ok" and out.value == contents[-1]
            want = "(Some {| seq := %s; vtag := %s; vk := %s |})" % (T.N(nver), T.N(gtag), T.N(k))
            rterms.append("Bool.eqb (res_eqb (download_best_version (fun _ _ _ => true) %s) %s) %s" % (T.lst(gl), want, T.boolean(real_newest)))
            rinfo.append(dict(case, real_newest=real_newest, altered=sorted(altered)))
        if out.status in ("hung", "timeout"):
            ctx.oracle_fail("mutable-read-never-finished", "read of a corrupted mutable file: %s" % out.status, case=case)
            continue
        if out.status == "ok":
            if out.value not in contents:
                ctx.oracle_fail("read-returned-unpublished-bytes", "read returned bytes that no write-cap holder published (%d altered shares, scenario %s)" % (
                    len(altered), scenario), case=case, expected=[c.decode() for c in contents], observed=out.value)
                continue
            if len(intact_newest) >= k and out.value != contents[-1] and scenario not in ("older-version", "mix"):
                ctx.oracle_fail("read-returned-older-version-with-k-intact-newest", "k intact shares of the newest version are reachable but the read returned an older one", case=case)
                continue
        else:
            if len(intact_newest) >= k and scenario not in ("older-version", "mix"):
                ctx.oracle_fail("read-failed-with-k-intact-newest-shares", "read failed (%s) although %d intact shares of the newest version are reachable (k=%d)" % (
                    out.error, len(intact_newest), k), case=case)
                continue
        ctx.trace(1)
        ctx.sample(case, limit=8)


def replay(ctx, rec):
    """Re-run one case of the oracle stream: `index` and `run_seed` in the record's case."""
    from core import grid as G
    from allmydata.storage.mutable import MutableShareFile
    case = rec.get("case") or {}
    if "vanish_index" in case:
        ctx.seed = case.get("run_seed", ctx.seed)
        vanishing_share_cases(ctx, G, only=case["vanish_index"])
        return {"failures": [f["what"] for f in ctx.failures]}
    if "index" not in case:
        return "no single-case replay for this record"
    ctx.seed = case.get("run_seed", ctx.seed)
    oracle_stream(ctx, G, MutableShareFile.DATA_OFFSET, only=case["index"])
    return {"failures": [f["what"] for f in ctx.failures]}
