"""C44  Helper-assisted uploads are equivalent to direct uploads."""
import base64
import hashlib
import os

from core import term as T

ID = "C44"
GEN = []
RULE = ("cases: one upload session of a random file (56 .. 3000 bytes: above the LIT threshold, several segments with max_segment_size "
        "32..1024) with random k-of-N through a real offloaded.Helper / CHKUploadHelper / CHKCiphertextFetcher wired in-process to the "
        "uploader of a real grid client: direct, helper-assisted, interrupted at every read_encrypted call of the transfer and resumed "
        "(same or new Helper object on the same directory, same or different CHUNK_SIZE, a second interruption), two readers with "
        "fail-over, already-present, one share missing, grid states with lost share numbers and duplicated ones (copies >= N, distinct < N, above and below k) uploaded directly and through the helper; non-trivial = the session transfers ciphertext or short-circuits; distinct = "
        "distinct (size, chunk size, interruption point, parameters, kind)")
META = {
    "title": "Helper-assisted uploads are equivalent to direct uploads",
    "level_text": ("Theorems in Coq over a model of the ciphertext transfer (CHKCiphertextFetcher resume offset = bytes on disk, "
                   "RemoteEncryptedUploadable offsets) for ALL ciphertexts, chunkings and interruption points: an interrupted transfer "
                   "leaves a prefix, a resumed one ends with exactly the ciphertext, the assisted session then yields the shares and the "
                   "cap of the direct upload (encoder abstract and shared), and all-N-shares-found short-circuits without a single read. "
                   "The real Helper is run in-process against a real grid: caps equal the direct upload's, share payloads equal share by "
                   "share after every interruption point, incoming/encoding files cleaned, wire requests equal the model's."),
    "level_note": ("core (partial): the encoder is an abstract deterministic function shared by both paths (its determinism is C01); peer "
                   "selection, foolscap serialisation and the helper's status/statistics are outside the model; the transport is an "
                   "in-process stand-in for the foolscap connection (callRemote through the eventual queue)."),
    "technique": "Coq proof (induction over the chunk schedule) + differential run of the real Helper against a real in-process grid with an independent AES-CTR ciphertext oracle",
    "design_ref": "8/C44",
    "trusted_base": ["in-process Wire standing in for a foolscap RemoteReference", "no_network storage broker given get_stub_server by the driver"],
    "assumptions": ["the encoder is a deterministic function of (ciphertext, k, N, segment size) (C01)"],
}
IMPORTS = ["Lib.Hex", "Model.Helper"]

PREAMBLE = """
(* sizes arrive as N (binary literals) and are converted inside the VM: unary literals of a few thousand are slow to parse *)
Definition pair_eqb (a : nat * nat) (b : N * N) : bool := N.eqb (N.of_nat (fst a)) (fst b) && N.eqb (N.of_nat (snd a)) (snd b).
Fixpoint reqs_eqb (a : list (nat * nat)) (b : list (N * N)) : bool :=
  match a, b with
  | [], [] => true
  | x :: a', y :: b' => pair_eqb x y && reqs_eqb a' b'
  | _, _ => false
  end.
Definition requests_are (size have chunk : N) (obs : list (N * N)) : bool :=
  reqs_eqb (fetch_requests (S (N.to_nat size)) (N.to_nat size) (N.to_nat have) (N.to_nat chunk)) obs.
Definition present (found : list N) (k n seg size : N) : bool :=
  match upload_chk false (map N.to_nat found) (Some (mk_ueb [] (N.to_nat k) (N.to_nat n) (N.to_nat seg) (N.to_nat size))) with
  | AlreadyPresent _ => true | NeedUpload => false end.
Definition cut_is (chunk rounds : N) (ct f : list N) : bool :=
  match fetch_loop (repeat (N.to_nat chunk) (N.to_nat rounds)) ct fresh_reader [] with
  | (Interrupted f', r) => list_N_eqb f f' && N.eqb (N.of_nat (rd_calls r)) rounds
  | _ => false
  end.
Definition resume_is (chunk rounds : N) (ct f : list N) : bool :=
  match fetch_loop (repeat (N.to_nat chunk) (N.to_nat rounds)) ct fresh_reader f with
  | (Complete f', r) => list_N_eqb ct f' && N.eqb (N.of_nat (rd_calls r)) rounds
  | _ => false
  end.
"""


class Interrupted(Exception):
    pass


class Gate(object):
    """Holds calls back until opened (used to keep the first reader's reads waiting until a second client has joined)."""

    def __init__(self):
        self.is_open = False
        self.waiters = []

    def wait(self):
        from twisted.internet import defer
        if self.is_open:
            return None
        d = defer.Deferred()
        self.waiters.append(d)
        return d

    def open(self):
        self.is_open = True
        ws, self.waiters = self.waiters, []
        for d in ws:
            d.callback(None)


class Wire(object):
    """Stand-in for a foolscap RemoteReference: callRemote through the eventual queue, Referenceable
    arguments and the upload helper in the answer of upload_chk are wrapped in turn; a fault plan can cut
    the connection at the n-th read_encrypted call."""

    def __init__(self, target, tape, plan):
        self.target, self.tape, self.plan = target, tape, plan
        self.version = {}

    def callRemote(self, methname, *args, **kw):
        from foolscap.api import Referenceable, fireEventually
        d = fireEventually()
        gate = self.plan.get("gate")
        if gate is not None and methname == "read_encrypted":
            d.addCallback(lambda _: gate.wait())

        def _call(_):
            self.tape.append((type(self.target).__name__, methname, tuple(a for a in args if isinstance(a, int))))
            if self.plan.get("hook"):
                self.plan["hook"](methname)
            if self.plan.get("fail_method") == methname and type(self.target).__name__ == "RemoteEncryptedUploadable":
                raise Interrupted("connection lost before %s" % methname)
            if methname == "read_encrypted" and self.plan.get("fail_at"):
                self.plan["reads"] = self.plan.get("reads", 0) + 1
                if self.plan["reads"] == self.plan["fail_at"] and not self.plan.get("after"):
                    raise Interrupted("connection lost before read %d" % self.plan["reads"])
            a2 = tuple(Wire(a, self.tape, self.plan) if isinstance(a, Referenceable) else a for a in args)
            r = getattr(self.target, "remote_" + methname)(*a2, **kw)
            if methname == "read_encrypted" and self.plan.get("fail_at") == self.plan.get("reads") and self.plan.get("after"):
                def lost(_res):
                    raise Interrupted("answer to read %d lost" % self.plan["reads"])
                from twisted.internet import defer
                r = defer.maybeDeferred(lambda: r).addCallback(lost)
            return r
        d.addCallback(_call)

        def _res(res):
            if methname == "upload_chk":
                hur, uh = res
                return (hur, Wire(uh, self.tape, self.plan) if uh is not None else None)
            return res
        d.addCallback(_res)
        return d

    def notifyOnDisconnect(self, *a, **k):
        return None

    def dontNotifyOnDisconnect(self, *a):
        pass


def reads(tape):
    return [t[2] for t in tape if t[1] == "read_encrypted"]


def ciphertext_of(cap, data):
    """AES-128-CTR (zero IV) under the key field of the CHK cap: independent of allmydata.crypto."""
    from cryptography.hazmat.primitives.ciphers import Cipher, algorithms, modes
    keyb32 = cap.split(b":")[2].decode().upper()
    key = base64.b32decode(keyb32 + "=" * (-len(keyb32) % 8))
    enc = Cipher(algorithms.AES(key), modes.CTR(b"\0" * 16)).encryptor()
    return enc.update(data) + enc.finalize()


class Rig(object):
    def __init__(self, g, tag="helper"):
        from allmydata.immutable import offloaded
        self.g = g
        self.c = g.client(0)
        self.dir = os.path.join(g.basedir, tag)
        os.makedirs(self.dir, exist_ok=True)
        sb = self.c.get_storage_broker()
        if not hasattr(sb, "get_stub_server"):
            # the no_network broker lacks what AssistedUploader asks of a StorageFarmBroker
            sb.get_stub_server = lambda sid: [s for s in sb.get_connected_servers() if s.get_serverid() == sid][0]
        self.up = self.c.getServiceNamed("uploader")
        self.new_helper()

    def new_helper(self):
        from allmydata.immutable import offloaded
        self.helper = offloaded.Helper(self.dir, self.c.get_storage_broker(), self.c._secret_holder, None, None)

    def leftovers(self):
        out = {}
        for sub in ("CHK_incoming", "CHK_encoding"):
            d = os.path.join(self.dir, sub)
            for f in os.listdir(d):
                out[sub + "/" + f] = open(os.path.join(d, f), "rb").read()
        return out

    def upload(self, data, conv, plan=None, direct=False):
        from allmydata.immutable import upload
        tape = []
        self.up._helper = None if direct else Wire(self.helper, tape, plan if plan is not None else {})
        out = self.g.run(self.up.upload(upload.Data(data, convergence=conv)), outcome=True)
        self.up._helper = None
        return out, tape

    def shares(self, cap):
        """share number -> set of share payloads found on the grid (container and leases stripped)"""
        from allmydata.storage.immutable import ShareFile
        out = {}
        for sh in self.g.find_shares(cap):
            out.setdefault(sh.shnum, set()).add(hashlib.sha256(ShareFile(sh.path).read_share_data(0, 2 ** 30)).hexdigest())
        return out

    def share_files(self, cap):
        return {(sh.server, sh.shnum): hashlib.sha256(open(sh.path, "rb").read()).hexdigest() for sh in self.g.find_shares(cap)}


def run(ctx):
    from core import grid as G
    from allmydata.immutable import offloaded
    ctx.correspondence("wire-requests-vs-model")
    ctx.correspondence("interrupted-file-vs-model")
    ctx.correspondence("already-present-decision-vs-model")
    terms, info = [], []
    nfiles = ctx.n(16, 160)
    old_chunk = offloaded.CHKCiphertextFetcher.CHUNK_SIZE
    try:
        with G.Grid(num_clients=1, num_servers=5, k=2, n=4, happy=1, max_segment_size=128, seed=ctx.seed) as g, \
                G.Grid(num_clients=1, num_servers=5, k=2, n=4, happy=1, max_segment_size=128, seed=ctx.seed + 1) as g2:
            rig, twin = Rig(g), Rig(g2)
            big_files(ctx, rig, old_chunk)
            for fi in range(nfiles):
                if ctx.tier == "quick" and not ctx.search and ctx.elapsed() > 35:
                    break
                one_file(ctx, rig, twin, fi, terms, info)
            for e in g.logged_errors + g2.logged_errors:
                ctx.count("logged:" + str(e)[:50])
    finally:
        offloaded.CHKCiphertextFetcher.CHUNK_SIZE = old_chunk
    bad = ctx.coq_check(IMPORTS, terms, preamble=PREAMBLE, tag="c44")
    for ix in bad:
        corr, case = info[ix]
        ctx.mismatch("model-vs-helper:" + corr, "Coq model and the real helper disagree: %r" % (case,), case=case,
                     observed=terms[ix][:1200], correspondence=corr)
    ctx.trace(len(terms) - len(bad))


def replay(ctx, rec):
    """Re-run every session of the recorded file (same seed, same file index)."""
    from core import grid as G
    from allmydata.immutable import offloaded
    fi = (rec.get("case") or {}).get("file", 0)
    terms, info = [], []
    old_chunk = offloaded.CHKCiphertextFetcher.CHUNK_SIZE
    try:
        with G.Grid(num_clients=1, num_servers=5, k=2, n=4, happy=1, max_segment_size=128, seed=ctx.seed) as g, \
                G.Grid(num_clients=1, num_servers=5, k=2, n=4, happy=1, max_segment_size=128, seed=ctx.seed + 1) as g2:
            if fi == "big":
                big_files(ctx, Rig(g), old_chunk)
            else:
                one_file(ctx, Rig(g), Rig(g2), fi, terms, info)
    finally:
        offloaded.CHKCiphertextFetcher.CHUNK_SIZE = old_chunk
    bad = ctx.coq_check(IMPORTS, terms, preamble=PREAMBLE, tag="c44replay")
    for ix in bad:
        ctx.mismatch("model-vs-helper:" + info[ix][0], "Coq model and the real helper disagree", case=info[ix][1], correspondence=info[ix][0])
    return {"file": fi, "sessions": ctx.evaluations, "failures": [f["kind"] for f in ctx.failures]}


def big_files(ctx, rig, real_chunk):
    """Encoding parameters away from the defaults: a file a bit larger than 1 MiB with max_segment_size above the
    1 MiB default (one segment on the client's terms) and with a small one (many segments), the fetcher's real
    CHUNK_SIZE: direct vs helper, caps and every share equal, the file reads back through the direct cap."""
    from allmydata.immutable import offloaded
    r = ctx.rng("big")
    variants = [(2 * 1024 * 1024, "2MiB"), (64 * 1024, "64KiB")]
    if ctx.tier == "thorough" or ctx.search:
        variants.append((4 * 1024 * 1024, "4MiB"))
    size = 1024 * 1024 + r.randrange(100000, 250000)
    data = r.randbytes(size)
    for seg, label in variants:
        k = r.choice([1, 2, 3])
        n = r.choice([x for x in (2, 3, 4, 5) if x >= k])
        conv = r.randbytes(16)
        rig.g.set_encoding(k=k, n=n, happy=1, max_segment_size=seg)
        offloaded.CHKCiphertextFetcher.CHUNK_SIZE = real_chunk
        case = {"file": "big", "size": size, "k": k, "n": n, "max_segment_size": seg, "convergence": conv.hex()}
        out, _ = rig.upload(data, conv, direct=True)
        ctx.case(("big-direct", label, k, n), kind="large-file-direct:" + label)
        if out.status != "ok":
            raise RuntimeError("direct upload of the large file failed: %s %s" % (out.status, out.error))
        cap_d = out.value.get_uri()
        shares_d = rig.shares(cap_d)
        rig.g.delete_shares(cap_d)
        out, tape = rig.upload(data, conv)
        ctx.case(("big-helper", label, k, n), kind="large-file-helper:" + label)
        if out.status != "ok" or out.value.get_uri() != cap_d:
            ctx.oracle_fail("helper-upload-differs-from-direct:non-default-segment-size",
                            "%d byte file, max_segment_size %s, %d-of-%d: the upload through the helper ended with %s %s" % (
                                size, label, k, n, out.status, out.error if out.status != "ok" else out.value.get_uri()),
                            case=case, expected=cap_d.decode(), observed=str(out.error) if out.status != "ok" else out.value.get_uri().decode())
        sh = rig.shares(cap_d)
        if sh != shares_d:
            diff = sorted(x for x in set(sh) | set(shares_d) if sh.get(x) != shares_d.get(x))
            ctx.oracle_fail("helper-shares-differ-from-direct-shares:non-default-segment-size",
                            "%d byte file, max_segment_size %s: the shares the helper pushed differ from the direct upload's for share numbers %s" % (size, label, diff),
                            case=case, expected="identical payload for every share number", observed={"differing": diff, "present": sorted(sh)})
        dl = rig.g.run(rig.g.download(cap_d), outcome=True)
        if dl.status != "ok" or dl.value != data:
            ctx.oracle_fail("helper-upload-not-readable-through-direct-cap:non-default-segment-size",
                            "%d byte file, max_segment_size %s: after the helper upload the file does not read back through the direct upload's cap: %s %s" % (
                                size, label, dl.status, dl.error), case=case, observed=str(dl.error))
        want = [(o_, min(real_chunk, size - o_)) for o_ in range(0, size, real_chunk)]
        if out.status == "ok" and reads(tape) != want:
            ctx.oracle_fail("helper-transfer-requests:large-file", "the transfer of the large file was not %d contiguous chunks of %d" % (len(want), real_chunk),
                            case=case, expected=want[:3], observed=reads(tape)[:5])
        left = rig.leftovers()
        if left:
            ctx.oracle_fail("helper-leaves-ciphertext-behind:large-file", "after the large upload the helper still holds %s" % {p_: len(v) for p_, v in left.items()}, case=case)
            for p_ in left:
                os.unlink(os.path.join(rig.dir, p_))
        rig.helper._active_uploads.clear()
        rig.g.delete_shares(cap_d)


def n_list(xs):
    return T.lst([T.N(x) for x in xs])


def req_term(reqs):
    return T.lst(["(%s, %s)" % (T.N(a), T.N(b)) for a, b in reqs])


def one_file(ctx, rig, twin, fi, terms, info):
    from allmydata.immutable import offloaded
    r = ctx.rng("file", fi)
    chunk = r.choice([16, 50, 64, 100, 128, 256, 500, 1000])
    nch = r.choice([1, 2, 3, 3, 4, 5, 6]) if not (ctx.tier == "thorough" or ctx.search) else r.choice([1, 2, 3, 5, 8, 12])
    size = max(56, chunk * (nch - 1) + r.choice([1, chunk // 2 or 1, chunk - 1 or 1, chunk]))
    size = min(size, 4000)
    if fi == 0:
        size, chunk = 56, 50
    k = r.choice([1, 1, 2, 3, 4])
    n = r.choice([x for x in (1, 2, 3, 4, 5, 6, 10) if x >= k])
    seg = r.choice([32, 64, 128, 256, 1024])
    conv = bytes(r.getrandbits(8) for _ in range(r.choice([0, 8, 32])))
    data = bytes(r.getrandbits(8) for _ in range(size))
    for rg in (rig, twin):
        rg.g.set_encoding(k=k, n=n, happy=1, max_segment_size=seg)
    base = {"file": fi, "size": size, "chunk": chunk, "k": k, "n": n, "max_segment_size": seg, "convergence": conv.hex(),
            "data_sha256": hashlib.sha256(data).hexdigest()}
    nchunks = -(-size // chunk)

    def fail(kind, what, **kw):
        c = dict(base)
        c.update(kw.pop("case", {}))
        ctx.oracle_fail(kind, what, case=c, **kw)

    def clean(where, rg=rig):
        left = rg.leftovers()
        if left:
            fail("helper-leaves-ciphertext-behind:" + where,
                 "after %s the helper still holds %s" % (where, {k_: len(v) for k_, v in left.items()}),
                 expected="CHK_incoming and CHK_encoding empty", observed=sorted(left))
            for p in left:
                os.unlink(os.path.join(rg.dir, p))

    # ---- direct upload
    offloaded.CHKCiphertextFetcher.CHUNK_SIZE = chunk
    out, _ = rig.upload(data, conv, direct=True)
    ctx.case(("direct", size, k, n, seg), kind="direct")
    if out.status != "ok":
        raise RuntimeError("direct upload failed: %s %s" % (out.status, out.error))
    cap_d = out.value.get_uri()
    shares_d = rig.shares(cap_d)
    ct = ciphertext_of(cap_d, data)
    if sorted(shares_d) != list(range(n)) or any(len(v) != 1 for v in shares_d.values()):
        raise RuntimeError("direct upload placed shares %r" % sorted(shares_d))
    rig.g.delete_shares(cap_d)

    def check_result(kind, out, tape, have, ch, expect_reads=True, rg=rig, delete=True):
        """Common oracle for a session that must go through."""
        if out.status != "ok":
            fail("helper-upload-failed:" + kind, "%s: upload through the helper ended with %s %s" % (kind, out.status, out.error),
                 expected="success", observed=str(out.error))
            return False
        res = out.value
        cap = res.get_uri()
        if cap != cap_d:
            fail("helper-cap-differs-from-direct-cap:" + kind, "%s: cap through the helper differs from the direct upload's" % kind,
                 expected=cap_d.decode(), observed=cap.decode())
        sh = rg.shares(cap_d)
        if sh != shares_d:
            diff = sorted(s for s in set(sh) | set(shares_d) if sh.get(s) != shares_d.get(s))
            fail("helper-shares-differ-from-direct-shares:" + kind,
                 "%s: share payloads differ from the direct upload's for share numbers %s" % (kind, diff),
                 expected="identical payload for every share number", observed={"differing": diff, "present": sorted(sh)})
        clean(kind, rg)
        rq = reads(tape)
        if expect_reads:
            want = []
            h = have
            while h < size:
                want.append((h, min(size - h, ch)))
                h += min(size - h, ch)
            if rq != want:
                fail("helper-transfer-requests:" + kind, "%s: read_encrypted requests are not the contiguous chunks from the resume offset" % kind,
                     expected=want, observed=rq)
            if res.get_ciphertext_fetched() != size - have:
                fail("helper-ciphertext-fetched-count:" + kind, "%s: ciphertext_fetched = %s, %d bytes were missing" % (kind, res.get_ciphertext_fetched(), size - have),
                     expected=size - have, observed=res.get_ciphertext_fetched())
            terms.append("requests_are %s %s %s %s" % (T.N(size), T.N(have), T.N(ch), req_term(rq)))
            info.append(("wire-requests-vs-model", dict(base, kind=kind, have=have, chunk=ch, requests=rq)))
        if delete:
            rg.g.delete_shares(cap_d)
        return True

    # ---- helper, uninterrupted (and on the twin grid)
    out, tape = rig.upload(data, conv)
    ctx.case(("helper", size, chunk, k, n, seg), kind="helper-uninterrupted")
    check_result("uninterrupted", out, tape, 0, chunk)
    out, tape = twin.upload(data, conv)
    ctx.case(("twin", size, chunk, k, n, seg), kind="helper-uninterrupted-twin-grid")
    check_result("uninterrupted-twin-grid", out, tape, 0, chunk, rg=twin, delete=False)

    # ---- interrupted at every read of the transfer, then resumed
    points = list(range(1, nchunks + 1))
    if not (ctx.tier == "thorough" or ctx.search) and len(points) > 4:
        points = sorted(r.sample(points, 4))
    for j in points:
        rj = ctx.rng("cut", fi, j)
        after = rj.random() < 0.3
        plan = {"fail_at": j, "after": after}
        out, tape = rig.upload(data, conv, plan=plan)
        have = (j - 1) * chunk
        ctx.case(("cut", size, chunk, j, after), kind="interrupted")
        if out.status == "ok":
            fail("interrupted-upload-reported-success", "the transfer was cut at read %d but the upload reported success" % j, case={"cut": j})
            rig.g.delete_shares(cap_d)
            continue
        left = rig.leftovers()
        inc = [v for p, v in left.items() if p.startswith("CHK_incoming/")]
        if len(left) != 1 or len(inc) != 1 or inc[0] != ct[:have]:
            fail("interrupted-transfer-leaves-wrong-file",
                 "cut at read %d: the helper holds %s, expected one incoming file with the first %d ciphertext bytes" % (j, {p: len(v) for p, v in left.items()}, have),
                 case={"cut": j}, expected=ct[:have].hex()[:80], observed={p: v.hex()[:80] for p, v in left.items()})
        if size <= 300 and inc:
            terms.append("cut_is %s %s %s %s" % (T.N(chunk), T.N(j - 1), T.bytes_(ct), T.bytes_(inc[0])))
            info.append(("interrupted-file-vs-model", dict(base, cut=j)))
        if rig.g.find_shares(cap_d):
            fail("interrupted-transfer-placed-shares", "cut at read %d: shares were placed before the ciphertext was complete" % j, case={"cut": j})
        # optionally a second interruption during the resume
        ch2 = rj.choice([chunk, chunk, max(1, chunk // 2), chunk * 2, 7])
        offloaded.CHKCiphertextFetcher.CHUNK_SIZE = ch2
        if rj.random() < 0.5:
            rig.new_helper()            # a restarted helper process: only the files on disk survive
        left_n = -(-(size - have) // ch2)
        if left_n >= 2 and rj.random() < 0.4:
            j2 = rj.randrange(1, left_n + 1)
            out, tape = rig.upload(data, conv, plan={"fail_at": j2, "after": False})
            ctx.case(("cut2", size, chunk, j, ch2, j2), kind="interrupted-again")
            have2 = have + (j2 - 1) * ch2
            left = rig.leftovers()
            inc = [v for p, v in left.items() if p.startswith("CHK_incoming/")]
            if out.status == "ok" or len(inc) != 1 or inc[0] != ct[:have2]:
                fail("second-interruption-leaves-wrong-file", "second cut at read %d of the resume (offset %d): incoming file is not the first %d bytes" % (j2, have, have2),
                     case={"cut": j, "cut2": j2, "chunk2": ch2}, observed={p: len(v) for p, v in left.items()})
            if reads(tape) and reads(tape)[0][0] != have:
                fail("resume-offset", "the resumed transfer started at offset %d, %d bytes were on disk" % (reads(tape)[0][0], have),
                     case={"cut": j}, expected=have, observed=reads(tape)[0][0])
            have = have2
        before = rig.helper._counters["chk_upload_helper.resumes"]
        out, tape = rig.upload(data, conv)
        ctx.case(("resume", size, chunk, j, ch2, have), kind="resumed")
        if check_result("resumed-after-cut", out, tape, have, ch2):
            if size <= 300:
                terms.append("resume_is %s %s %s %s" % (T.N(ch2), T.N(len(reads(tape))), T.bytes_(ct), T.bytes_(ct[:have])))
                info.append(("interrupted-file-vs-model", dict(base, cut=j, resume_chunk=ch2)))
        if rig.helper._counters["chk_upload_helper.resumes"] != before + 1:
            fail("resume-not-counted", "a transfer resumed from a partial incoming file was not counted as a resume", case={"cut": j})
        offloaded.CHKCiphertextFetcher.CHUNK_SIZE = chunk

    # ---- two clients at once, the first reader dies: the fetcher goes on with the second
    if nchunks >= 2 and r.random() < 0.6:
        from twisted.internet import defer
        from allmydata.immutable import upload
        jf = r.randrange(1, nchunks + 1)
        tape1, tape2 = [], []
        plan1 = {"fail_at": jf, "after": False}

        def both():
            rig.up._helper = Wire(rig.helper, tape1, plan1)
            d1 = rig.up.upload(upload.Data(data, convergence=conv))
            rig.up._helper = Wire(rig.helper, tape2, {})
            d2 = rig.up.upload(upload.Data(data, convergence=conv))
            return defer.DeferredList([d1, d2], consumeErrors=True)
        res = rig.g.run(both)
        rig.up._helper = None
        ctx.case(("failover", size, chunk, jf), kind="two-readers-failover")
        caps = [x.get_uri() for ok, x in res if ok]
        if not caps or any(c != cap_d for c in caps):
            fail("failover-upload-wrong", "two concurrent assisted uploads, first reader cut at read %d: results %s" % (jf, [(ok, str(x)[:80]) for ok, x in res]),
                 case={"cut": jf}, expected=cap_d.decode(), observed=[c.decode() for c in caps])
        sh = rig.shares(cap_d)
        if sh != shares_d:
            fail("helper-shares-differ-from-direct-shares:failover", "fail-over to a second reader at read %d produced different shares" % jf, case={"cut": jf})
        clean("failover")
        allreads = sorted(reads(tape1) + reads(tape2))
        got = sorted(set(allreads))
        # every byte was asked for, contiguously from 0
        pos = 0
        for off, ln in got:
            if off == pos:
                pos += ln
        if pos != size:
            fail("failover-transfer-gap", "fail-over at read %d: the requests %s do not cover the file" % (jf, got), case={"cut": jf})
        rig.g.delete_shares(cap_d)

    # ---- the connection is lost right AFTER the last chunk: the ciphertext is complete (moved to CHK_encoding/),
    # nothing is pushed yet (the encoder's first question to the client, get_all_encoding_parameters, is not answered)
    out, tape = rig.upload(data, conv, plan={"fail_method": "get_all_encoding_parameters"})
    ctx.case(("cut-after-last", size, chunk, nchunks), kind="interrupted-after-last-chunk")
    left = rig.leftovers()
    if out.status == "ok":
        fail("interrupted-upload-reported-success", "the connection was cut after the last chunk but the upload reported success", case={"cut": "after-last-chunk"})
        rig.g.delete_shares(cap_d)
    else:
        enc = [v for p_, v in left.items() if p_.startswith("CHK_encoding/")]
        if len(left) != 1 or len(enc) != 1 or enc[0] != ct:
            fail("interrupted-transfer-leaves-wrong-file",
                 "cut after the last chunk: the helper holds %s, expected the complete ciphertext in CHK_encoding" % {p_: len(v) for p_, v in left.items()},
                 case={"cut": "after-last-chunk"}, observed={p_: len(v) for p_, v in left.items()})
        if reads(tape) != [(o_, min(chunk, size - o_)) for o_ in range(0, size, chunk)]:
            fail("helper-transfer-requests:cut-after-last-chunk", "the transfer before the cut did not fetch the whole file", observed=reads(tape))
        if rig.g.find_shares(cap_d):
            fail("interrupted-transfer-placed-shares", "cut after the last chunk: shares were placed although the encoder got no parameters", case={"cut": "after-last-chunk"})
        if r.random() < 0.5:
            rig.new_helper()
        for attempt in (1, 2):
            out, tape = rig.upload(data, conv)
            ctx.case(("resume-after-last", size, chunk, attempt), kind="resumed-with-complete-ciphertext")
            if enc and enc[0] == ct and len(left) == 1 and attempt == 1:
                ok = check_result("resumed-with-complete-ciphertext", out, tape, size, chunk, delete=False)
            else:
                ok = check_result("retry-after-failed-restart", out, tape, 0, chunk, expect_reads=False, delete=False)
            if ok:
                break
            for p_ in rig.leftovers():            # a failed retry must not poison the cases that follow
                os.unlink(os.path.join(rig.dir, p_))
        if rig.helper._active_uploads:
            fail("upload-left-active-after-restart", "the helper still lists an active upload after the restart from CHK_encoding")
            rig.helper._active_uploads.clear()
        rig.g.delete_shares(cap_d)

    # ---- two or three clients upload the same file through the one helper: in the same reactor turn, or the
    # later ones while the first is contacting the helper / handing over its reader / in the middle of the transfer
    from twisted.internet import defer
    from allmydata.immutable import upload as _upload
    rc = ctx.rng("concurrent", fi)
    variants = ["same-turn", rc.choice(["at-upload_chk", "at-upload", "at-read"])]
    if ctx.tier == "thorough" or ctx.search:
        variants = ["same-turn", "at-upload_chk", "at-upload", "at-read"]
    for variant in variants:
        nclients = rc.choice([2, 2, 3])
        tapes = [[] for _ in range(nclients)]
        fetched_before = rig.helper._counters["chk_upload_helper.fetched_bytes"]
        at_read = rc.randrange(1, nchunks + 1)

        def concurrent():
            ds = []

            def start(i, plan):
                rig.up._helper = Wire(rig.helper, tapes[i], plan)
                ds.append(rig.up.upload(_upload.Data(data, convergence=conv)))
            started = []
            done = defer.Deferred()

            def gather():
                if not started:
                    started.append(True)
                    defer.DeferredList(list(ds), consumeErrors=True).chainDeferred(done)

            def hook(methname):
                trigger = {"at-upload_chk": methname == "upload_chk", "at-upload": methname == "upload",
                           "at-read": methname == "read_encrypted" and len(reads(tapes[0])) == at_read}.get(variant, False)
                if trigger and not started:
                    for i in range(1, nclients):
                        start(i, {})
                    gather()
            if variant == "same-turn":
                for i in range(nclients):
                    start(i, {})
                gather()
            else:
                start(0, {"hook": hook})

                def first_over(r):          # the trigger never came (the first upload ended before): report what there is
                    gather()
                    return r
                ds[0].addBoth(first_over)
            return done
        res = rig.g.run(concurrent)
        rig.up._helper = None
        ctx.case(("concurrent", variant, nclients, size, chunk, at_read), kind="concurrent-" + variant)
        ccase = {"variant": variant, "clients": nclients, "at_read": at_read}
        caps = [x.get_uri() for ok, x in res if ok]
        errs = [str(x.value)[:120] if hasattr(x, "value") else str(x)[:120] for ok, x in res if not ok]
        if len(caps) != len(res) or any(c != cap_d for c in caps):
            fail("concurrent-uploads-through-one-helper:wrong-result",
                 "%d clients uploading the same file through one helper (%s): caps %s, errors %s" % (len(res), variant, len(caps), errs),
                 case=ccase, expected="every client gets the direct upload's cap", observed={"caps": [c.decode() for c in caps], "errors": errs})
        fetched = rig.helper._counters["chk_upload_helper.fetched_bytes"] - fetched_before
        if fetched > size:
            # not a failure: a client whose "already in the grid?" query was answered before the first upload placed its
            # shares, but evaluated after that upload had finished, gets a second upload helper and the ciphertext
            # travels again (a stale check, wasteful but correct: same shares, same cap).  What must hold is below.
            ctx.count("concurrent:ciphertext-fetched-again-after-a-stale-not-present-check")
        if fetched > size * len(res) or fetched % size:
            fail("concurrent-uploads-through-one-helper:ciphertext-fetched-in-pieces",
                 "%d clients, one helper (%s): the helper fetched %d bytes of a %d byte file" % (len(res), variant, fetched, size),
                 case=ccase, expected="a whole number (at most %d) of transfers of %d bytes" % (len(res), size), observed=fetched)
        sh = rig.shares(cap_d)
        if sh != shares_d:
            fail("helper-shares-differ-from-direct-shares:concurrent",
                 "%d clients, one helper (%s): share payloads on the grid differ from the direct upload's" % (len(res), variant),
                 case=ccase, observed={"present": sorted(sh)})
        dl = rig.g.run(rig.g.download(cap_d), outcome=True)
        if dl.status != "ok" or dl.value != data:
            fail("concurrent-uploads-through-one-helper:file-not-downloadable",
                 "%d clients, one helper (%s): downloading through the direct upload's cap afterwards: %s %s" % (len(res), variant, dl.status, dl.error),
                 case=ccase, expected="the file", observed=str(dl.error))
        clean("concurrent-" + variant)
        if rig.helper._active_uploads:
            fail("concurrent-uploads-through-one-helper:upload-left-active", "the helper still lists an active upload", case=ccase)
            rig.helper._active_uploads.clear()
        rig.g.delete_shares(cap_d)

    # ---- forced, in every run: a second client JOINS the active upload (early return of remote_upload_chk), then the
    # first client's reader dies after the 1st, a middle, the last chunk: AskUntilSuccessMixin.call must fall over to the
    # second reader, which skips ahead.  And the same with the second reader dying too: every reader gone, the upload
    # ends in an error, the helper forgets it (_active_uploads), a later upload resumes from what is on disk.
    from foolscap.api import fireEventually as _fe
    full = ctx.tier == "thorough" or ctx.search
    after = {1, (nchunks + 1) // 2} | ({0, nchunks - 1} if full else set())       # chunks fetched before the cut
    cuts = [("read", c_ + 1) for c_ in sorted(after) if 0 <= c_ < nchunks] + [("after-last-chunk", nchunks + 1)]
    if not full and fi >= 8:
        cuts = []          # quick: the first eight files of every run carry the forced cases

    def joined(first_fault, second_fault):
        tape1, tape2 = [], []
        gate = Gate()

        def hook2(m):
            if m == "upload":
                _fe().addCallback(lambda _: gate.open())      # the turn after remote_upload added the second reader
        plan1 = dict(first_fault, gate=gate)
        plan2 = dict(second_fault, hook=hook2)

        def go():
            ds = []
            done = defer.Deferred()
            gathered = []

            def gather():
                if not gathered:
                    gathered.append(True)
                    defer.DeferredList(list(ds), consumeErrors=True).chainDeferred(done)

            def hook1(m):
                if m == "upload" and len(ds) == 1:
                    rig.up._helper = Wire(rig.helper, tape2, plan2)
                    ds.append(rig.up.upload(_upload.Data(data, convergence=conv)))
                    gather()
            plan1["hook"] = hook1
            rig.up._helper = Wire(rig.helper, tape1, plan1)
            ds.append(rig.up.upload(_upload.Data(data, convergence=conv)))

            def first_over(res_):
                gate.open()
                gather()
                return res_
            ds[0].addBoth(first_over)
            return done
        c0 = dict(rig.helper._counters)
        out = rig.g.run(go, outcome=True)
        rig.up._helper = None
        gate.open()
        early = (rig.helper._counters["chk_upload_helper.upload_requests"] - c0["chk_upload_helper.upload_requests"] == 2
                 and rig.helper._counters["chk_upload_helper.upload_need_upload"] - c0["chk_upload_helper.upload_need_upload"] == 1)
        return out, tape1, tape2, early

    def idle(where, case_):
        if rig.helper._active_uploads:
            fail("helper-keeps-dead-active-upload:" + where, "after %s the helper still lists an active upload for the storage index" % where, case=case_)
            rig.helper._active_uploads.clear()

    for what, j in cuts:
        fault = {"fail_at": j, "after": False} if what == "read" else {"fail_method": "get_all_encoding_parameters"}
        fcase = {"cut": what, "read": j}
        # (1) fail-over
        out, tape1, tape2, early = joined(fault, {})
        ctx.case(("join-failover", what, j, nchunks, early), kind="joined-active-upload-failover" + ("" if early else "-late-join"))
        if out.status != "ok":
            fail("failover-upload-wrong:joined", "second client joined, first reader cut (%s %d): the session ended with %s %s" % (what, j, out.status, out.error), case=fcase)
        else:
            res = out.value
            caps = [x.get_uri() for ok_, x in res if ok_]
            second_ok = len(res) == 2 and res[1][0]
            if not second_ok or any(c != cap_d for c in caps):
                fail("failover-upload-wrong:joined",
                     "second client joined the active upload, first reader cut (%s %d of %d): results %s" % (what, j, nchunks, [(ok_, str(x)[:100]) for ok_, x in res]),
                     case=fcase, expected="the surviving client gets " + cap_d.decode(), observed=[c.decode() for c in caps])
            else:
                if rig.shares(cap_d) != shares_d:
                    fail("helper-shares-differ-from-direct-shares:joined-failover", "fail-over to the joined reader (%s %d) produced other shares than the direct upload" % (what, j), case=fcase)
                dl = rig.g.run(rig.g.download(cap_d), outcome=True)
                if dl.status != "ok" or dl.value != data:
                    fail("failover-upload-not-readable", "after the fail-over (%s %d) the file does not read back: %s %s" % (what, j, dl.status, dl.error), case=fcase)
                if what == "read" and early:
                    r1, r2 = reads(tape1), reads(tape2)
                    have_ = (j - 1) * chunk
                    want2 = [(o_, min(chunk, size - o_)) for o_ in range(have_, size, chunk)]
                    if len(r1) != j or r2 != want2:
                        fail("failover-transfer-requests", "first reader cut at read %d: it was asked %s, the joined reader %s" % (j, r1[-2:], r2[:3]),
                             case=fcase, expected={"first": j, "second": want2[:3]}, observed={"first": r1[-2:], "second": r2[:3]})
        clean("joined-failover")
        idle("a fail-over upload", fcase)
        rig.g.delete_shares(cap_d)
        # (2) every reader dies; later the file is uploaded again
        second = {"fail_at": 1, "after": False} if what == "read" else {"fail_method": "get_all_encoding_parameters"}
        out, tape1, tape2, early = joined(fault, second)
        ctx.case(("join-all-die", what, j, nchunks, early), kind="joined-active-upload-every-reader-dies")
        if out.status == "ok" and any(ok_ for ok_, _x in out.value):
            fail("upload-succeeded-without-readers", "both readers were cut (%s %d) but a client was told the upload succeeded" % (what, j), case=fcase)
        idle("an upload whose readers all died", fcase)
        left = rig.leftovers()
        have_ = (j - 1) * chunk if what == "read" else size
        good = [v for v in left.values()]
        if len(left) != 1 or good[0] != ct[:have_]:
            fail("interrupted-transfer-leaves-wrong-file", "both readers cut (%s %d): the helper holds %s, expected the first %d ciphertext bytes" % (
                what, j, {p_: len(v) for p_, v in left.items()}, have_), case=fcase)
            for p_ in left:
                os.unlink(os.path.join(rig.dir, p_))
            have_ = 0
        if rig.g.find_shares(cap_d):
            fail("interrupted-transfer-placed-shares", "both readers cut (%s %d): shares were placed" % (what, j), case=fcase)
            rig.g.delete_shares(cap_d)
        out, tape = rig.upload(data, conv)
        ctx.case(("afresh", what, j, nchunks), kind="upload-afresh-after-every-reader-died")
        if check_result("afresh-after-every-reader-died", out, tape, have_, chunk, delete=False):
            dl = rig.g.run(rig.g.download(cap_d), outcome=True)
            if dl.status != "ok" or dl.value != data:
                fail("resumed-upload-not-readable", "the upload started afresh after every reader had died (%s %d) does not read back: %s %s" % (what, j, dl.status, dl.error), case=fcase)
        else:
            for p_ in rig.leftovers():
                os.unlink(os.path.join(rig.dir, p_))
        idle("the upload that followed", fcase)
        rig.g.delete_shares(cap_d)

    # ---- already present: no ciphertext moves
    out, tape = rig.upload(data, conv)
    check_result("before-already-present", out, tape, 0, chunk, delete=False)
    files_before = rig.share_files(cap_d)
    present_before = rig.helper._counters["chk_upload_helper.upload_already_present"]
    out, tape = rig.upload(data, conv)
    ctx.case(("present", size, k, n), kind="already-present")
    if out.status != "ok" or out.value.get_uri() != cap_d:
        fail("already-present-upload-wrong", "second upload of a file with all %d shares on the grid: %s %s" % (n, out.status, out.error),
             expected=cap_d.decode(), observed=out.value.get_uri().decode() if out.status == "ok" else str(out.error))
    else:
        res = out.value
        if reads(tape) or [t for t in tape if t[1] == "upload"]:
            fail("already-present-file-transferred-again", "all %d shares are on the grid but the helper fetched ciphertext: %s" % (n, reads(tape)[:4]),
                 expected="no read_encrypted call", observed=reads(tape)[:6])
        if res.get_pushed_shares() != 0 or res.get_preexisting_shares() != n or \
                rig.helper._counters["chk_upload_helper.upload_already_present"] != present_before + 1:
            fail("already-present-not-reported", "results of the second upload: pushed=%s preexisting=%s" % (res.get_pushed_shares(), res.get_preexisting_shares()),
                 expected={"pushed": 0, "preexisting": n}, observed={"pushed": res.get_pushed_shares(), "preexisting": res.get_preexisting_shares()})
        if rig.share_files(cap_d) != files_before:
            fail("already-present-upload-touched-shares", "the short-circuited upload changed share files")
    terms.append("Bool.eqb (present %s %s %s %s %s) %s" % (
        n_list(list(range(n))), T.N(k), T.N(n), T.N(seg), T.N(size), T.boolean(not reads(tape))))
    info.append(("already-present-decision-vs-model", dict(base, found=n)))
    clean("already-present")

    # ---- one share missing: not "already present"
    shs = rig.g.find_shares(cap_d)
    if n >= 2:
        victim = r.choice(shs)
        rig.g.delete_share(victim)
        out, tape = rig.upload(data, conv)
        ctx.case(("missing-share", size, k, n, victim.shnum), kind="one-share-missing")
        check_result("one-share-missing", out, tape, 0, chunk, delete=False)
        terms.append("Bool.eqb (present %s %s %s %s %s) %s" % (
            n_list([s.shnum for s in shs if s.shnum != victim.shnum]), T.N(k), T.N(n), T.N(seg), T.N(size),
            T.boolean(not reads(tape))))
        info.append(("already-present-decision-vs-model", dict(base, found=n - 1)))
    # ---- a grid state left by earlier loss and repair: some share numbers gone, others held by several servers,
    # so that the number of share COPIES reaches N while the number of DISTINCT shares does not.  The helper must
    # not take that for "already present": from the same state it has to end where a direct upload ends.
    if n >= 2:
        import shutil
        rs = ctx.rng("state", fi)
        servers = sorted(rig.g.g.servers_by_number)
        dmin = max(1, -(-n // len(servers)))
        choices = [d_ for d_ in range(dmin, n) if d_ * len(servers) >= n]
        below = [d_ for d_ in choices if d_ < k]
        above = [d_ for d_ in choices if d_ >= k]
        picks = []
        if below:
            picks.append(rs.choice(below))
        if above:
            picks.append(rs.choice(above))
        if not (ctx.tier == "thorough" or ctx.search) and len(picks) > 1:
            picks = [picks[fi % 2]]
        for d_ in picks:
            keep = sorted(rs.sample(range(n), d_))
            target = n + rs.choice([0, 0, 1, 2])

            def build_state():
                """all N shares are on the grid -> keep `keep`, copy them around until `target` copies exist"""
                shs_ = rig.g.find_shares(cap_d)
                for sh in shs_:
                    if sh.shnum not in keep:
                        rig.g.delete_share(sh)
                holders = {}
                for sh in rig.g.find_shares(cap_d):
                    holders.setdefault(sh.shnum, {})[sh.server] = sh
                copies = sum(len(v) for v in holders.values())
                progress = True
                while copies < target and progress:
                    progress = False
                    for shnum in keep:
                        if copies >= target:
                            break
                        src = next(iter(holders[shnum].values()))
                        rel = os.path.relpath(src.path, rig.g.server(src.server).sharedir)
                        for j in servers:
                            if j not in holders[shnum]:
                                dst = os.path.join(rig.g.server(j).sharedir, rel)
                                os.makedirs(os.path.dirname(dst), exist_ok=True)
                                shutil.copyfile(src.path, dst)
                                holders[shnum][j] = src
                                copies += 1
                                progress = True
                                break
                found = [sh.shnum for sh in rig.g.find_shares(cap_d)]
                return found
            scase = {"state": {"distinct": keep, "copies_target": target}}
            # (a) direct upload from that state
            found = build_state()
            out, _ = rig.upload(data, conv, direct=True)
            ctx.case(("state-direct", size, k, n, tuple(keep), target), kind="lost-and-duplicated-shares:direct")
            if out.status != "ok" or out.value.get_uri() != cap_d:
                raise RuntimeError("direct upload from a state with lost and duplicated shares failed: %s %s" % (out.status, out.error))
            after_direct = rig.shares(cap_d)
            # (b) the same state again, now through the helper
            rig.g.delete_shares(cap_d)
            out, _ = rig.upload(data, conv, direct=True)
            if out.status != "ok" or sorted(rig.shares(cap_d)) != list(range(n)):
                raise RuntimeError("could not re-create the full share set")
            found = build_state()
            out, tape = rig.upload(data, conv)
            ctx.case(("state-helper", size, k, n, tuple(keep), target, len(found)), kind="lost-and-duplicated-shares:helper")
            scase["state"]["copies"] = len(found)
            if out.status != "ok" or out.value.get_uri() != cap_d:
                fail("helper-upload-failed:lost-and-duplicated-shares",
                     "shares %s of %d on the grid in %d copies: the upload through the helper ended with %s %s" % (keep, n, len(found), out.status, out.error),
                     case=scase, expected=cap_d.decode(), observed=str(out.error) if out.status != "ok" else out.value.get_uri().decode())
            else:
                after_helper = rig.shares(cap_d)
                if after_helper != after_direct:
                    fail("helper-leaves-fewer-shares-than-direct-upload",
                         "shares %s of %d were on the grid in %d copies: after the upload through the helper the grid holds share numbers %s, "
                         "after a direct upload from the same state %s" % (keep, n, len(found), sorted(after_helper), sorted(after_direct)),
                         case=scase, expected=sorted(after_direct), observed=sorted(after_helper))
                dl = rig.g.run(rig.g.download(cap_d), outcome=True)
                if dl.status != "ok" or dl.value != data:
                    fail("helper-reports-success-but-file-not-downloadable",
                         "shares %s of %d (k=%d) in %d copies: the helper reported success, downloading through the returned cap: %s %s" % (keep, n, k, len(found), dl.status, dl.error),
                         case=scase, expected="the file", observed=str(dl.error))
                clean("lost-and-duplicated-shares")
            terms.append("Bool.eqb (present %s %s %s %s %s) %s" % (n_list(found), T.N(k), T.N(n), T.N(seg), T.N(size), T.boolean(not reads(tape))))
            info.append(("already-present-decision-vs-model", dict(base, found_copies=found)))
            # back to the full set for the next state
            rig.g.delete_shares(cap_d)
            out, _ = rig.upload(data, conv, direct=True)
    rig.g.delete_shares(cap_d)
    twin.g.delete_shares(cap_d)
    if fi < 2:
        ctx.sample(dict(base, cap=cap_d.decode(), chunks=nchunks))
