"""C39  SFTP writes are never lost to the background download.

Part A drives the real OverwriteableFileConsumer (src/allmydata/frontends/sftpd.py)
with seeded histories of client writes / size changes / reads interleaved with
download chunks, compares every observable with the Coq model
(coq/Model/Overwrite.v, `check_case`) and evaluates the property directly against
a reference bytearray.  Part B drives GeneralSFTPFile (readChunk / writeChunk /
setAttrs / close) on top of a scripted download and checks the same oracle on
what the SFTP client sees and on the bytes finally uploaded.
"""
import glob
import json
import os
import tempfile

from core import env
from core import term as T

ID = "C39"
GEN = []
RULE = ("cases: one seeded history each = original contents O (0..120 bytes), up to 20 client operations "
        "(overwrite / set_current_size / read, offsets and sizes on and around downloaded, download_size, "
        "current_size and existing overwrite boundaries) interleaved with download chunks of random sizes, "
        "eventual-queue turns, download completion and close; half with a plain temporary file (whole file "
        "compared with the model), half with sftpd's EncryptedTemporaryFile (holes are garbage). Part B: "
        "histories of readChunk/writeChunk/setAttrs/close on GeneralSFTPFile over a scripted download. Part C: "
        "'scattered writes' histories, 8..22 short disjoint client writes issued in random order while the download "
        "frontier is still near 0 (10 or more entries pending on the overwrite heap), then download pieces of 1..40 bytes. "
        "Part D (every run): forced histories in which the download fails before close is called / after close was "
        "requested, after writes and size changes behind, across and ahead of the download frontier: nothing may be uploaded. "
        "distinct = distinct (O, history); non-trivial = at least one client write or size change happened "
        "while the download was still incomplete")
META = {
    "title": "SFTP writes are never lost to the background download",
    "level_text": ("Theorems in Coq over a statement-by-statement model of OverwriteableFileConsumer (write with the overwrite "
                   "heap, overwrite, set_current_size, read milestones, download_done, close), for EVERY history in which the "
                   "download delivers the original bytes in order with arbitrary chunking and for every content of file holes: "
                   "the temporary file refines the reference (invariant I1-I3), completed reads return the reference slice, "
                   "client writes survive any later download data, and the file equals the reference once the download is done. "
                   "The model is run against the real class on seeded histories (all read results, per-operation sizes, heap, "
                   "final file) and the property is evaluated directly against a reference bytearray, also through "
                   "GeneralSFTPFile up to the uploaded bytes."),
    "level_note": ("Trusted: Model/Overwrite.v as a reading of sftpd.py (tied by the differential run, not generated), heapq as a "
                   "sorted list, Python file semantics (seek/write/truncate) as fwrite/ftrunc, foolscap's eventual queue as a FIFO "
                   "list. The read theorem assumes the contract stated in OverwriteableFileConsumer.read's docstring (no client "
                   "write or size change while a read is outstanding); GeneralSFTPFile's adherence to it is only checked by "
                   "Part B of the driver. Download failure is not modelled."),
    "technique": "Coq proof (invariant over all interleavings) + differential run vs implementation + direct oracle",
    "design_ref": "8/C39, A.4",
    "trusted_base": ["Model/Overwrite.v hand-written from sftpd.py (tied by correspondence on every run)"],
    "assumptions": ["the downloader delivers the original contents in order and reports success only after delivering all of them",
                    "Python file objects: seek+write past the end leaves a hole of unspecified bytes, write of b'' never extends"],
}

IMPORTS = ["Lib.Hex", "Model.Overwrite"]
MAXLEN = 120
CORR_A = "consumer-vs-model"
CORR_B = "sftp-handle-vs-model"


# --------------------------------------------------------------------------
# eventual-send queue (foolscap): run it by hand, no reactor
# --------------------------------------------------------------------------
def _queue():
    from foolscap import eventual
    return eventual._theSimpleQueue


def turn():
    """One turn of foolscap's eventual-send queue."""
    q = _queue()
    t = q._timer
    if t is not None:
        try:
            t.cancel()
        except Exception:
            pass
    q._turn()


def queue_len():
    return len(_queue()._events)


def run_one_event():
    """Run only the oldest event of the queue (exactly what _turn does for each
    event, in the same FIFO order); returns the callable that ran."""
    q = _queue()
    if not q._events:
        return None
    cb, args, kwargs = q._events.pop(0)
    try:
        cb(*args, **kwargs)
    except Exception:
        pass        # foolscap logs and continues
    return cb


def drain(limit=50):
    n = 0
    while queue_len() and n < limit:
        turn()
        n += 1
    q = _queue()
    if q._timer is not None:
        try:
            q._timer.cancel()
        except Exception:
            pass
        q._timer = None


# --------------------------------------------------------------------------
# reference byte array (the direct oracle)
# --------------------------------------------------------------------------
class Reference(object):
    """Original contents with the client's writes and size changes applied in
    order, plus the set of offsets whose current value was put there by the
    client (written, or zero-filled by an extension / a write past EOF)."""

    def __init__(self, O, d0):
        self.b = bytearray(O[:d0])
        self.owned = set()

    def write(self, off, data):
        n = len(self.b)
        if off > n:
            self.b.extend(b"\x00" * (off - n))
            self.owned.update(range(n, off))
        self.b[off:off + len(data)] = data
        self.owned.update(range(off, off + len(data)))

    def resize(self, size):
        n = len(self.b)
        if size <= n:
            del self.b[size:]
            self.owned = set(i for i in self.owned if i < size)
        else:
            self.b.extend(b"\x00" * (size - n))
            self.owned.update(range(n, size))

    def read(self, off, length):
        if off >= len(self.b):
            return ("eof",)
        return ("data", bytes(self.b[off:off + length]))


# --------------------------------------------------------------------------
# running one history on the real consumer
# --------------------------------------------------------------------------
def _classify(res):
    from twisted.python.failure import Failure
    if isinstance(res, Failure):
        if res.check(EOFError):
            return ("eof",)
        return ("fail", res.type.__name__)
    if isinstance(res, bytes):
        return ("data", res)
    return ("fail", "non-bytes:" + type(res).__name__)


class ConsumerRun(object):
    """Applies ops to a real OverwriteableFileConsumer, evaluating the oracle as it goes."""

    def __init__(self, O, d0, kind, tmpdir):
        from allmydata.frontends import sftpd
        self.sftpd = sftpd
        self.O, self.d0, self.kind = O, d0, kind
        if kind == "plain":
            maker = lambda: tempfile.TemporaryFile(dir=tmpdir)  # noqa: E731
        else:
            maker = sftpd.EncryptedTemporaryFile       # tempfile.tempdir is pointed at the scratch dir
        self.c = sftpd.OverwriteableFileConsumer(d0, maker)
        self.ref = Reference(O, d0)
        self.pos = 0
        self.nid = 0
        self.ops = []
        self.trace = []
        self.outs = []            # (id, result) in completion order
        self.expect = {}          # id -> reference answer at issue
        self.overtaken = set()    # ids of reads outstanding when a client mutation was performed
        self.done_ids = set()
        self.problems = []        # (kind, what, expected, observed)
        self.finished = False
        self.mutated_during_download = False
        self.aborted = False
        self.waited = 0           # reads that had to wait for a milestone
        self.max_pending = 0      # largest number of entries seen on the overwrite heap
        self.file_bad = False     # a file-level oracle failure was already reported for this history
        self.read_ds = set()      # id() of the Deferreds returned by consumer.read
        self._keep = []           # keeps them alive so the ids stay unique

    # ---- helpers
    def outstanding(self):
        return [i for i in range(self.nid) if i not in self.done_ids]

    def closed(self):
        return bool(self.c.is_closed)

    def file_bytes(self):
        fobj = self.c.get_file()
        fobj.seek(0)
        return fobj.read()

    def _complete(self, rid, res):
        r = _classify(res)
        self.outs.append((rid, r))
        self.done_ids.add(rid)
        exp = self.expect[rid]
        if rid in self.overtaken:
            return      # the consumer's contract was not respected for this read: nothing is promised
        if r[0] == "fail":
            if not self.closed():
                self.problems.append(("read-fails-on-open-file", "read #%d failed with %s although the file is open and the download did not fail" % (rid, r[1]), exp, r))
        elif r != exp:
            self.problems.append(("read-differs-from-reference", "read #%d returned bytes different from the reference at the time it was issued" % rid, exp, r))

    def _snap(self):
        c = self.c
        self.trace.append((c.current_size, c.download_size, c.downloaded, c.done_status is not None, len(c.milestones)))
        self.max_pending = max(self.max_pending, len(c.overwrites))

    def _check_file(self, after):
        """I1 on the implementation: every client-owned offset holds the reference byte;
        once the download is done the file IS the reference."""
        if self.closed() or self.file_bad:
            return
        content = self.file_bytes()
        ref = self.ref.b
        n_before = len(self.problems)
        bad = [i for i in self.ref.owned if i >= len(content) or content[i] != ref[i]]
        if bad:
            i = min(bad)
            kind = "client-write-lost-to-download" if after[0] == "chunk" else "client-write-not-in-file"
            self.problems.append((kind, "after %r offset %d written by the client holds %r, the reference has %r" % (
                after, i, content[i] if i < len(content) else None, ref[i]), bytes(ref).hex(), content.hex()))
        if self.c.done_status is not None and content != bytes(ref):
            self.problems.append(("file-differs-from-reference-when-download-done",
                                  "download is done (%r) after %r but the temporary file differs from the reference" % (self.c.done_status, after),
                                  bytes(ref).hex(), content.hex()))
        if len(content) > len(ref):
            self.problems.append(("temporary-file-longer-than-current-size", "after %r" % (after,), len(ref), len(content)))
        if self.c.current_size != len(ref):
            self.problems.append(("current-size-differs-from-reference", "after %r" % (after,), len(ref), self.c.current_size))
        if len(self.problems) > n_before:
            self.file_bad = True

    # ---- the operations
    def apply(self, op):
        self.ops.append(op)
        try:
            self._apply(op)
        except TypeError as e:
            # heapq compares the Deferreds of two milestones with the same offset
            self.problems.append(("equal-milestones-raise-typeerror",
                                  "%r raised TypeError (%s): two reads wait for the same milestone" % (op[:2], e), None, "TypeError"))
            self.aborted = True
            return
        self._snap()
        self._check_file(op)

    def _apply(self, op):
        sftpd = self.sftpd
        c = self.c
        k = op[0]
        was_closed = self.closed()
        if k == "chunk":
            data = self.O[self.pos:self.pos + op[1]]
            self.pos += len(data)
            c.write(data)
        elif k == "ow":
            if self.outstanding():
                self.overtaken.update(self.outstanding())
            try:
                c.overwrite(op[1], op[2])
                self.ref.write(op[1], op[2])
                if c.done_status is None:
                    self.mutated_during_download = True
            except sftpd.SFTPError:
                if not was_closed:
                    self.problems.append(("overwrite-rejected-on-open-file", "overwrite(%d, %d bytes) raised SFTPError" % (op[1], len(op[2])), None, None))
        elif k == "size":
            if self.outstanding():
                self.overtaken.update(self.outstanding())
            try:
                c.set_current_size(op[1])
                if not was_closed:
                    self.ref.resize(op[1])
                    if c.done_status is None:
                        self.mutated_during_download = True
            except (sftpd.SFTPError, ValueError):
                if not was_closed:
                    raise
        elif k == "read":
            rid = self.nid
            self.nid += 1
            self.expect[rid] = self.ref.read(op[1], op[2])
            try:
                d = c.read(op[1], op[2])
            except sftpd.SFTPError:
                self.outs.append((rid, ("fail", "SFTPError")))
                self.done_ids.add(rid)
                if not was_closed:
                    self.problems.append(("read-rejected-on-open-file", "read raised SFTPError", None, None))
            else:
                self.read_ds.add(id(d))
                self._keep.append(d)
                d.addBoth(lambda res, rid=rid: self._complete(rid, res))
                if rid not in self.done_ids:
                    self.waited += 1
        elif k == "turn":
            turn()
        elif k == "turn1":
            # events run one at a time in FIFO order, up to and including the first read callback
            while queue_len():
                cb = run_one_event()
                if id(getattr(cb, "__self__", None)) in self.read_ds:
                    break
        elif k == "finish":
            c.download_done(b"download finished")
            self.finished = True
        elif k == "close":
            c.close()
        else:
            raise ValueError(op)

    def wrap_up(self):
        """After the download finished and the queue ran, no read may still be waiting."""
        n = 0
        while queue_len() and not self.aborted and n < 10:
            self.apply(("turn",))
            n += 1
        if self.finished and not self.aborted:
            left = self.outstanding()
            if left:
                self.problems.append(("read-never-completes", "reads %r still pending after the download finished" % (left,), None, None))

    def case_record(self):
        return {"level": "consumer", "tempfile": self.kind, "O": self.O.hex(), "d0": self.d0,
                "ops": [list(o[:2]) + [o[2].hex()] if o[0] == "ow" else list(o) for o in self.ops]}


def ops_from_record(ops):
    out = []
    for o in ops:
        if o[0] == "ow":
            out.append(("ow", o[1], bytes.fromhex(o[2])))
        else:
            out.append(tuple(o))
    return out


# --------------------------------------------------------------------------
# Coq side
# --------------------------------------------------------------------------
def coq_op(o):
    k = o[0]
    if k == "chunk":
        return "Chunk %s" % T.N(o[1])
    if k == "ow":
        return "Overwrite %s %s" % (T.N(o[1]), T.bytes_(o[2]))
    if k == "size":
        return "SetSize %s" % T.N(o[1])
    if k == "read":
        return "Read %s %s" % (T.N(o[1]), T.N(o[2]))
    return {"turn": "Turn", "turn1": "TurnOne", "finish": "Finish", "close": "Close"}[k]


def coq_rres(r):
    if r[0] == "data":
        return "RData %s" % T.bytes_(r[1])
    if r[0] == "eof":
        return "REof"
    return "RFail"


def coq_case(O, d0, ops, outs, trace, filebytes, ows, closed, ref):
    return "check_case %s %s %s %s %s %s %s %s %s" % (
        T.bytes_(O), T.N(d0), T.lst([coq_op(o) for o in ops]),
        T.lst(["(%s, %s)" % (T.N(i), coq_rres(r)) for i, r in outs]),
        T.lst(["(%s, %s, %s, %s, %s)" % (T.N(a), T.N(b), T.N(c), T.boolean(d), T.N(e)) for a, b, c, d, e in trace]),
        T.opt(None if filebytes is None else T.bytes_(filebytes)),
        T.lst(["(%s, %s)" % (T.N(a), T.N(b)) for a, b in ows]),
        T.boolean(closed), T.opt(None if ref is None else T.bytes_(ref)))


def consumer_term(run):
    c = run.c
    fb = None
    if run.kind == "plain" and not run.closed():
        fb = run.file_bytes()
    return coq_case(run.O, run.d0, run.ops, run.outs, run.trace, fb, sorted(c.overwrites), run.closed(), bytes(run.ref.b))


# --------------------------------------------------------------------------
# generator (adaptive: looks at the running consumer to aim at its boundaries)
# --------------------------------------------------------------------------
def rbytes(r, n, lo=1):
    return bytes(r.randrange(lo, 256) for _ in range(n))


def near(r, x, hi=MAXLEN + 12):
    return max(0, min(hi, x + r.choice([-2, -1, 0, 0, 0, 1, 2])))


def pick_offset(r, run):
    c = run.c
    cands = [0, c.downloaded, c.download_size, c.current_size, c.current_size + r.randrange(1, 9)]
    for (a, b) in c.overwrites[:4]:
        cands += [a, b]
    x = r.choice(cands + [r.randrange(0, c.current_size + 4)] * 4)
    return near(r, x)


def gen_history(r, run, respect, max_client=20):
    """Drives `run` while generating; returns nothing (run.ops is the history)."""
    O = run.O
    n_client = 0
    budget = r.choice([4, 8, 12, 20, 20, 20])
    want_close = r.random() < 0.15
    complete = r.random() < 0.85
    steps = 0
    while steps < 70 and not run.aborted:
        steps += 1
        c = run.c
        outstanding = bool(run.outstanding())
        choices = []
        if run.pos < len(O):
            choices += ["chunk"] * 5
        elif not run.finished:
            choices += ["finish"] * 3
        if n_client < budget and not run.closed():
            choices += ["read"] * 3
            if not (respect and outstanding):
                choices += ["ow"] * 5 + ["size"] * 2
        if outstanding or queue_len():
            choices += ["turn"] * 3 + ["turn1"]
        else:
            choices += ["turn"]
        if not choices or (n_client >= budget and r.random() < 0.3):
            break
        k = r.choice(choices)
        if k == "chunk":
            rem = len(O) - run.pos
            n = r.choice([0, 1, 1, 2, 3, 5, 8, 13, r.randrange(1, max(2, rem // 2)), r.randrange(1, max(2, rem // 2)),
                          r.randrange(1, rem + 1), rem if r.random() < 0.5 else rem + 3])
            run.apply(("chunk", n))
        elif k == "ow":
            off = pick_offset(r, run)
            ln = r.choice([0, 1, 1, 2, 3, 5, 8, 13, 21, r.randrange(0, 30)])
            if off + ln > MAXLEN + 20:
                ln = max(0, MAXLEN + 20 - off)
            data = rbytes(r, ln, lo=0 if r.random() < 0.1 else 1)
            run.apply(("ow", off, data))
            n_client += 1
        elif k == "size":
            x = r.choice([0, c.downloaded, c.download_size, c.current_size, c.current_size + r.randrange(1, 12), r.randrange(0, c.current_size + 1)])
            run.apply(("size", near(r, x)))
            n_client += 1
        elif k == "read":
            off = pick_offset(r, run)
            ln = r.choice([0, 1, 2, 5, 10, 20, 40, 200, max(0, c.current_size - off), r.randrange(0, 60)])
            run.apply(("read", off, ln))
            n_client += 1
        else:
            run.apply((k,))
    if complete and not run.aborted:
        while run.pos < len(O):
            rem = len(O) - run.pos
            run.apply(("chunk", r.choice([rem, max(1, rem // 2), r.randrange(1, rem + 1)])))
            if r.random() < 0.3:
                run.apply(("turn",))
        if not run.finished:
            run.apply(("finish",))
        run.apply(("turn",))
        if r.random() < 0.5 and not run.closed():
            # a last read and write after completion
            run.apply(("read", pick_offset(r, run), r.choice([1, 10, 200])))
            run.apply(("turn",))
    if want_close and not run.aborted:
        run.apply(("close",))
        run.apply(("turn",))
        if r.random() < 0.5:
            run.apply(("read", 0, 5))
            run.apply(("ow", 0, b"zz"))
            run.apply(("chunk", 3))


# --------------------------------------------------------------------------
# Part A
# --------------------------------------------------------------------------
def _report(ctx, run, seen_kinds):
    for kind, what, exp, obs in run.problems:
        ctx.oracle_fail(kind, what, case=run.case_record(), expected=exp, observed=obs)
        seen_kinds.add(kind)


def replay_consumer(rec, tmpdir):
    run = ConsumerRun(bytes.fromhex(rec["O"]), rec["d0"], rec.get("tempfile", "plain"), tmpdir)
    for o in ops_from_record(rec["ops"]):
        run.apply(o)
        if run.aborted:
            break
    run.wrap_up()
    drain()
    return run


def part_a(ctx, tmpdir):
    ctx.correspondence(CORR_A)
    terms, runs = [], []
    seen = set()

    # corpus first
    for path in sorted(glob.glob(os.path.join(env.CORPUS, "C39", "*.json"))):
        rec = json.load(open(path))
        if rec.get("level") != "consumer":
            continue
        run = replay_consumer(rec, tmpdir)
        ctx.case(("corpus", os.path.basename(path)), kind="corpus")
        _report(ctx, run, seen)
        if not run.aborted:
            terms.append(consumer_term(run))
            runs.append(run)

    n = ctx.n(220, 6000)
    for i in range(n):
        r = ctx.rng("A", i)
        d0 = r.choice([0, 1, 2, 3, 5, 8, 13, 20, 33, 50, 80, MAXLEN, r.randrange(0, MAXLEN + 1), r.randrange(0, 40)])
        extra = r.choice([0, 0, 0, 0, 1, 4])
        O = rbytes(r, d0 + extra)
        kind = "plain" if i % 2 == 0 else "encrypted"
        respect = r.random() < 0.8
        drain()
        run = ConsumerRun(O, d0, kind, tmpdir)
        gen_history(r, run, respect)
        run.wrap_up()
        drain()
        key = (O, d0, tuple(run.ops)) if run.mutated_during_download else None
        ctx.case(key, kind="consumer-%s-%s" % (kind, "contract" if respect else "overtaking"))
        for o in run.ops:
            ctx.count("op:" + o[0])
        ctx.count("reads-completed", len(run.outs))
        ctx.count("reads-completed-after-waiting", run.waited)
        _report(ctx, run, seen)
        if i < 2:
            ctx.sample(run.case_record())
        if not run.aborted:
            terms.append(consumer_term(run))
            runs.append(run)
        try:
            run.c.close()
        except Exception:
            pass
        drain()

    bad = ctx.coq_check(IMPORTS, terms, tag="c39a", shard=max(60, (len(terms) + 3) // 4))
    for ix in bad[:10]:
        run = runs[ix]
        ctx.mismatch("consumer-model-vs-impl", "Coq model of OverwriteableFileConsumer and the implementation disagree on a history",
                     case=run.case_record(),
                     observed={"outs": [(i, r[0], r[1].hex() if r[0] == "data" else "") for i, r in run.outs], "trace": run.trace,
                               "overwrites": sorted(run.c.overwrites)},
                     correspondence=CORR_A)
    ctx.trace(len(terms) - len(bad))


# --------------------------------------------------------------------------
# Part C: many disjoint client writes pending ahead of the download
# --------------------------------------------------------------------------
def gen_scattered(r, run):
    """A client patches 8..22 small records scattered over the file right after opening it
    (download frontier at or near 0), in random order; then the old contents arrive in small
    pieces.  This is the shape that exercises the overwrite heap as a heap: many disjoint
    entries pending at once, pieces that end inside / between / across them."""
    N = run.d0
    if r.random() < 0.3 and N > 20:
        run.apply(("chunk", r.randrange(1, 12)))          # the download has barely started
    k = r.randrange(8, 23)
    cuts = sorted(r.sample(range(run.pos + 1, N + 6), min(2 * k, N + 5 - run.pos - 1)))
    ivs = []
    for j in range(0, len(cuts) - 1, 2):
        a, b = cuts[j], cuts[j + 1]
        b = min(b, a + r.choice([1, 2, 3, 5, 8, 13]))     # short records, gaps in between
        ivs.append((a, b))
    r.shuffle(ivs)
    for (a, b) in ivs:
        run.apply(("ow", a, rbytes(r, b - a)))
        if r.random() < 0.05:
            run.apply(("ow", a, rbytes(r, 1)))               # a duplicate start on the heap
    n_reads = 0
    while run.pos < len(run.O) and not run.aborted:
        rem = len(run.O) - run.pos
        run.apply(("chunk", min(rem, r.choice([1, 2, 3, 5, 8, 13, 21, 34, r.randrange(1, 40)]))))
        x = r.random()
        if x < 0.12 and n_reads < 6 and not run.outstanding():
            run.apply(("read", r.randrange(0, max(1, run.c.current_size)), r.choice([5, 30, 200])))
            n_reads += 1
        elif x < 0.17 and not run.outstanding():
            a = r.randrange(0, N + 4)
            run.apply(("ow", a, rbytes(r, r.choice([1, 2, 5]))))
        elif x < 0.35:
            run.apply(("turn",))
    if not run.aborted:
        run.apply(("finish",))
        run.apply(("turn",))
        run.apply(("read", 0, len(run.ref.b) + 3))
        run.apply(("turn",))


def part_c(ctx, tmpdir):
    ctx.correspondence(CORR_A)
    terms, runs = [], []
    seen = set()
    n = ctx.n(260, 4000)
    n_model = ctx.n(40, 400)            # these also go through the Coq model (bigger literals)
    for i in range(n):
        r = ctx.rng("C", i)
        d0 = r.choice([90, 120, 160, 200, 260, r.randrange(80, 300)]) if i >= n_model else r.choice([80, 100, MAXLEN])
        O = rbytes(r, d0)
        kind = "plain" if i % 2 == 0 else "encrypted"
        drain()
        run = ConsumerRun(O, d0, kind, tmpdir)
        gen_scattered(r, run)
        run.wrap_up()
        drain()
        ctx.case((O, tuple(run.ops)), kind="consumer-%s-scattered" % kind)
        ctx.count("scattered-pending>=10", 1 if run.max_pending >= 10 else 0)
        _report(ctx, run, seen)
        if i < 1:
            ctx.sample(run.case_record())
        if i < n_model and not run.aborted:
            terms.append(consumer_term(run))
            runs.append(run)
        try:
            run.c.close()
        except Exception:
            pass
        drain()
    bad = ctx.coq_check(IMPORTS, terms, tag="c39c", shard=max(20, (len(terms) + 3) // 4))
    for ix in bad[:10]:
        run = runs[ix]
        ctx.mismatch("consumer-model-vs-impl", "Coq model of OverwriteableFileConsumer and the implementation disagree on a scattered-writes history",
                     case=run.case_record(),
                     observed={"outs": [(i, r[0], r[1].hex() if r[0] == "data" else "") for i, r in run.outs], "trace": run.trace,
                               "overwrites": sorted(run.c.overwrites)},
                     correspondence=CORR_A)
    ctx.trace(len(terms) - len(bad))


# --------------------------------------------------------------------------
# Part B: GeneralSFTPFile on top of a scripted download
# --------------------------------------------------------------------------
def _fakes():
    """Stand-ins for the file node / parent directory GeneralSFTPFile talks to."""
    from twisted.internet import defer
    from zope.interface import implementer
    from allmydata.interfaces import IFileNode

    @implementer(IFileNode)
    class FakeNode(object):
        def __init__(self, run, mutable):
            self.run, self.mutable = run, mutable

        # the version object is the node itself
        def get_best_readable_version(self):
            return defer.succeed(self)

        def get_size(self):
            return len(self.run.O)

        def read(self, consumer, offset=0, size=None):
            self.run.attach(consumer)
            self.run.download_d = defer.Deferred()
            return self.run.download_d

        def is_mutable(self):
            return self.mutable

        def is_readonly(self):
            return False

        def get_write_uri(self):
            return b"URI:FAKE:file"

        def overwrite(self, uploadable):
            size = uploadable.get_size()
            self.run.uploaded = b"".join(uploadable.read(size))
            return defer.succeed(None)

    class FakeParent(object):
        def __init__(self, run):
            self.run = run

        def get_write_uri(self):
            return b"URI:FAKE:dir"

        def add_file(self, childname, uploadable, metadata=None):
            out = []
            uploadable.get_size().addCallback(lambda size: uploadable.read(size)).addCallback(out.append)
            self.run.uploaded = b"".join(out[0])
            return defer.succeed(None)

    return FakeNode, FakeParent


class HandleRun(object):
    """One GeneralSFTPFile (READ|WRITE[|APPEND]) over a download we script.  Records the
    client-level history (for the oracle) and, by wrapping the consumer's methods, the
    consumer-level history in execution order (for the model)."""

    def __init__(self, O, append, mutable):
        from allmydata.frontends import sftpd
        self.sftpd = sftpd
        self.O, self.append, self.mutable = O, append, mutable
        self.d0 = len(O)
        self.ref = Reference(O, len(O))
        self.consumer = None
        self.download_d = None
        self.dl_failed = False
        self.fail_determined = False
        self.uploaded = None
        self.pos = 0
        self.hops = []                 # client-level history
        self.problems = []
        self.finished = False
        self.close_issued = False
        self.changed_before_close = False
        self.wrote_before_close = False
        self.close_result = None
        self.ref_at_close = None
        # client-level reads
        self.h_expect, self.h_result, self.h_pending_fifo = {}, {}, []
        self.nh = 0
        # consumer-level record
        self.cops, self.ctrace, self.couts = [], [], []
        self.c_nid = 0
        self.c_outstanding = {}        # consumer read id -> client read id
        self.c_read_ds = {}            # id(Deferred) -> consumer read id
        self._keep = []
        self.overtaken = set()         # client read ids
        self._nested = 0
        self.mutated_during_download = False
        self.aborted = False
        flags = sftpd.FXF_READ | sftpd.FXF_WRITE | (sftpd.FXF_APPEND if append else 0)
        FakeNode, FakeParent = _fakes()
        self.h = sftpd.GeneralSFTPFile(b"/f", flags, None, b"c" * 16)
        self.h.open(parent=FakeParent(self), childname=u"f", filenode=FakeNode(self, mutable), metadata={})
        n = 0
        while self.consumer is None and n < 10:
            self.run_events(log=False)
            n += 1
        if self.consumer is None:
            raise RuntimeError("GeneralSFTPFile.open never started the download")

    # ---- consumer instrumentation
    def _csnap(self):
        c = self.consumer
        self.ctrace.append((c.current_size, c.download_size, c.downloaded, c.done_status is not None, len(c.milestones)))

    def _clog(self, op):
        self.cops.append(op)

    def attach(self, consumer):
        self.consumer = c = consumer
        o_overwrite, o_setsize, o_read, o_close, o_done = c.overwrite, c.set_current_size, c.read, c.close, c.download_done

        def mutation():
            if self.c_outstanding:
                self.overtaken.update(self.c_outstanding.values())
            if c.done_status is None:
                self.mutated_during_download = True

        def overwrite(offset, data):
            if self._nested:
                return o_overwrite(offset, data)
            mutation()
            self._clog(("ow", offset, bytes(data)))
            try:
                return o_overwrite(offset, data)
            finally:
                self._csnap()

        def set_current_size(size):
            mutation()
            self._clog(("size", size))
            self._nested += 1
            try:
                return o_setsize(size)
            finally:
                self._nested -= 1
                self._csnap()

        def read(offset, length):
            crid = self.c_nid
            self.c_nid += 1
            self._clog(("read", offset, length))
            hid = self.h_pending_fifo.pop(0) if self.h_pending_fifo else None
            try:
                d = o_read(offset, length)
            except self.sftpd.SFTPError:
                self.couts.append((crid, ("fail", "SFTPError")))
                self._csnap()
                raise
            self.c_outstanding[crid] = hid
            self.c_read_ds[id(d)] = crid
            self._keep.append(d)

            def rec(res):
                self.couts.append((crid, _classify(res)))
                self.c_outstanding.pop(crid, None)
                return res
            d.addBoth(rec)
            self._csnap()
            return d

        def close():
            if self._nested:
                return o_close()
            if self.c_outstanding:
                self.overtaken.update(self.c_outstanding.values())
            self._clog(("close",))
            self._nested += 1
            try:
                return o_close()
            finally:
                self._nested -= 1
                self._csnap()

        def download_done(res):
            if self._nested or res != b"download finished":
                return o_done(res)
            self._clog(("finish",))
            try:
                return o_done(res)
            finally:
                self._csnap()

        c.overwrite, c.set_current_size, c.read, c.close, c.download_done = overwrite, set_current_size, read, close, download_done

    def run_events(self, log=True):
        """One turn: the events now in the queue run in order; every event that is the
        callback of a consumer read is a TurnOne of the model."""
        n = queue_len()
        for _ in range(n):
            q = _queue()
            if not q._events:
                break
            cb = q._events[0][0]
            crid = self.c_read_ds.get(id(getattr(cb, "__self__", None)))
            if crid is not None and self.consumer is not None and log:
                self._clog(("turn1",))
                run_one_event()
                self._csnap()
            else:
                run_one_event()

    # ---- client-level operations
    def _h_done(self, hid, res):
        from twisted.python.failure import Failure
        sftpd = self.sftpd
        if isinstance(res, Failure):
            if res.check(sftpd.SFTPError) and res.value.code == sftpd.FX_EOF:
                r = ("eof",)
            else:
                r = ("fail", "%s:%s" % (res.type.__name__, getattr(res.value, "code", "")))
        elif isinstance(res, bytes):
            r = ("data", res)
        else:
            r = ("fail", "non-bytes")
        self.h_result[hid] = r
        exp = self.h_expect[hid]
        if r == exp:
            return
        if hid in self.overtaken:
            self.problems.append(("sftp-read-overtaken-by-later-request",
                                  "readChunk #%d was still waiting for the download when a later write/setAttrs/close on the same handle "
                                  "was executed; its answer reflects the later request" % hid, exp, r))
        elif r[0] == "fail" and self.dl_failed:
            pass        # reads may fail once the download has failed; nothing is promised about them
        elif r[0] == "fail":
            self.problems.append(("sftp-read-fails", "readChunk #%d failed (%s) on an open handle whose download succeeded" % (hid, r[1]), exp, r))
        else:
            self.problems.append(("sftp-read-differs-from-reference", "readChunk #%d differs from the reference at the time it was issued" % hid, exp, r))

    def apply(self, op):
        self.hops.append(op)
        k = op[0]
        h = self.h
        if k == "chunk":
            data = self.O[self.pos:self.pos + op[1]]
            self.pos += len(data)
            self._clog(("chunk", op[1]))
            self.consumer.write(data)
            self._csnap()
        elif k == "dlfinish":
            self.finished = True
            self.download_d.callback(None)
        elif k == "dlfail":
            # the background download breaks off: version.read()'s Deferred errbacks
            from twisted.python.failure import Failure
            self.finished = True
            self.dl_failed = True
            # does the reference still depend on original bytes that were never delivered?
            self.fail_determined = all(i < self.pos or i in self.ref.owned for i in range(len(self.ref.b)))
            self.download_d.errback(Failure(IOError("download broke off")))
        elif k == "hturn":
            self.run_events()
        elif k == "hread":
            hid = self.nh
            self.nh += 1
            self.h_expect[hid] = ("fail", "closed") if self.close_issued else self.ref.read(op[1], op[2])
            if not self.close_issued:
                self.h_pending_fifo.append(hid)
            d = h.readChunk(op[1], op[2])
            d.addBoth(lambda res, hid=hid: self._h_done(hid, res))
            if self.close_issued and hid in self.h_result and self.h_result[hid][0] == "fail":
                self.h_result[hid] = self.h_expect[hid]
                self.problems = [p for p in self.problems if "#%d " % hid not in p[1]]
        elif k == "hwrite":
            out = []
            h.writeChunk(op[1], op[2]).addBoth(out.append)
            if not self.close_issued:
                self.changed_before_close = True
                self.wrote_before_close = True
                if self.append:
                    self.ref.write(len(self.ref.b), op[2])
                else:
                    self.ref.write(op[1], op[2])
        elif k == "hsize":
            h.setAttrs({"size": op[1]}).addBoth(lambda res: None)
            if not self.close_issued:
                self.changed_before_close = True
                self.ref.resize(op[1])
        elif k == "hclose":
            if not self.close_issued:
                self.close_issued = True
                self.ref_at_close = bytes(self.ref.b)
                h.close().addBoth(lambda res: setattr(self, "close_result", ("done", res)))
            else:
                h.close()
        else:
            raise ValueError(op)

    def finish_checks(self):
        from twisted.python.failure import Failure
        n = 0
        while queue_len() and n < 30:
            self.apply(("hturn",))
            n += 1
        if not self.finished:
            return
        left = [i for i in range(self.nh) if i not in self.h_result]
        if left:
            self.problems.append(("sftp-read-never-completes", "readChunk requests %r got no answer although the download finished" % (left,), None, None))
        if self.dl_failed:
            # The old contents never arrived completely, so "original contents with the client's
            # writes applied" does not exist: nothing may be written over the original.
            # (If every byte of the reference had already been delivered or written by the client when the
            # download broke off, uploading exactly the reference is as acceptable as refusing.)
            if self.uploaded is not None and not (self.fail_determined and self.uploaded == self.ref_at_close):
                self.problems.append(("sftp-upload-after-failed-download",
                                      "the background download failed while the file still depended on bytes that had not arrived, "
                                      "yet close() uploaded %d bytes over the original %d-byte file" % (len(self.uploaded), len(self.O)),
                                      None, self.uploaded.hex()))
            if self.close_issued and self.close_result is None:
                self.problems.append(("sftp-close-never-completes", "close() did not complete although the download ended (failed)", None, None))
            return
        if self.close_issued:
            if self.close_result is None:
                self.problems.append(("sftp-close-never-completes", "close() did not complete although the download finished", None, None))
            elif isinstance(self.close_result[1], Failure):
                self.problems.append(("sftp-close-fails", "close() failed: %s" % (self.close_result[1].value,), None, None))
            elif not self.changed_before_close:
                if self.uploaded is not None:
                    self.problems.append(("sftp-upload-without-change", "close() uploaded although no write/setAttrs was issued", None, self.uploaded.hex()))
            elif self.uploaded is None and not self.wrote_before_close:
                self.problems.append(("sftp-size-change-alone-not-uploaded",
                                      "the handle's size was changed with setAttrs (no writeChunk) and close() uploaded nothing: the truncation/extension is lost",
                                      self.ref_at_close.hex(), None))
            elif self.uploaded != self.ref_at_close:
                self.problems.append(("sftp-upload-differs-from-reference",
                                      "the bytes uploaded at close differ from the original contents with the client's writes and size changes applied in order",
                                      self.ref_at_close.hex(), None if self.uploaded is None else self.uploaded.hex()))

    def case_record(self):
        return {"level": "handle", "O": self.O.hex(), "append": self.append, "mutable": self.mutable,
                "ops": [list(o[:2]) + [o[2].hex()] if o[0] == "hwrite" else list(o) for o in self.hops]}


def handle_ops_from_record(ops):
    return [("hwrite", o[1], bytes.fromhex(o[2])) if o[0] == "hwrite" else tuple(o) for o in ops]


def gen_handle_history(r, run):
    O = run.O
    n_client = 0
    budget = r.choice([4, 8, 12, 20, 20])
    steps = 0
    patient = r.random() < 0.5        # waits for its reads before sending the next mutation
    while steps < 60:
        steps += 1
        c = run.consumer
        waiting = [i for i in range(run.nh) if i not in run.h_result]
        choices = []
        if run.pos < len(O):
            choices += ["chunk"] * 5
        elif not run.finished:
            choices += ["dlfinish"] * 3
        if n_client < budget and not run.close_issued:
            choices += ["hread"] * 3
            if not (patient and waiting):
                choices += ["hwrite"] * 5 + ["hsize"] * 2
        choices += ["hturn"] * (4 if (waiting or queue_len()) else 1)
        if n_client >= budget and r.random() < 0.4:
            break
        k = r.choice(choices)
        if k == "chunk":
            rem = len(O) - run.pos
            run.apply(("chunk", r.choice([1, 1, 2, 3, 5, 8, 13, max(1, rem // 3), max(1, rem // 2), rem, r.randrange(1, rem + 1)])))
        elif k == "hwrite":
            off = max(0, min(MAXLEN + 12, r.choice([0, c.downloaded, c.download_size, c.current_size, c.current_size + r.randrange(1, 9), r.randrange(0, c.current_size + 4)]) + r.choice([-1, 0, 0, 1])))
            ln = r.choice([0, 1, 2, 3, 5, 8, 13, 21])
            run.apply(("hwrite", off, rbytes(r, ln)))
            n_client += 1
        elif k == "hsize":
            x = r.choice([0, c.downloaded, c.download_size, c.current_size, c.current_size + r.randrange(1, 12), r.randrange(0, c.current_size + 1)])
            run.apply(("hsize", near(r, x)))
            n_client += 1
        elif k == "hread":
            off = max(0, r.choice([0, c.downloaded, c.current_size, r.randrange(0, c.current_size + 3)]) + r.choice([-1, 0, 0, 1]))
            run.apply(("hread", off, r.choice([0, 1, 5, 10, 20, 40, 200, r.randrange(0, 60)])))
            n_client += 1
        else:
            run.apply((k,))
    if r.random() < 0.9:
        early_close = r.random() < 0.4
        if early_close:
            run.apply(("hclose",))
        while run.pos < len(O):
            rem = len(O) - run.pos
            run.apply(("chunk", r.choice([rem, max(1, rem // 2), r.randrange(1, rem + 1)])))
            if r.random() < 0.3:
                run.apply(("hturn",))
        if not run.finished:
            run.apply(("dlfinish",))
        run.apply(("hturn",))
        if not early_close:
            run.apply(("hclose",))
        if r.random() < 0.3:
            run.apply(("hread", 0, 5))
            run.apply(("hwrite", 0, b"zz"))


def handle_term(run):
    c = run.consumer
    closed = bool(c.is_closed)
    fb = None
    return coq_case(run.O, run.d0, run.cops, run.couts, run.ctrace, fb, sorted(c.overwrites), closed, None)


def replay_handle(rec):
    run = HandleRun(bytes.fromhex(rec["O"]), rec["append"], rec["mutable"])
    for o in handle_ops_from_record(rec["ops"]):
        run.apply(o)
    run.finish_checks()
    drain()
    return run


def part_b(ctx):
    ctx.correspondence(CORR_B)
    terms, runs = [], []
    for path in sorted(glob.glob(os.path.join(env.CORPUS, "C39", "*.json"))):
        rec = json.load(open(path))
        if rec.get("level") != "handle":
            continue
        drain()
        run = replay_handle(rec)
        ctx.case(("corpus", os.path.basename(path)), kind="corpus")
        for kind, what, exp, obs in run.problems:
            ctx.oracle_fail(kind, what, case=run.case_record(), expected=exp, observed=obs)
        terms.append(handle_term(run))
        runs.append(run)
    n = ctx.n(100, 2500)
    for i in range(n):
        r = ctx.rng("B", i)
        d0 = r.choice([1, 5, 13, 20, 33, 50, 80, MAXLEN, r.randrange(1, MAXLEN + 1)])
        O = rbytes(r, d0)
        drain()
        run = HandleRun(O, append=(r.random() < 0.25), mutable=(r.random() < 0.5))
        gen_handle_history(r, run)
        run.finish_checks()
        drain()
        key = (O, run.append, tuple(run.hops)) if run.mutated_during_download else None
        ctx.case(key, kind="handle-%s-%s" % ("append" if run.append else "plain", "mutable" if run.mutable else "immutable"))
        for o in run.hops:
            ctx.count("hop:" + o[0])
        ctx.count("handle-reads-overtaken", len(run.overtaken))
        ctx.count("handle-uploads-checked", 1 if run.uploaded is not None else 0)
        for kind, what, exp, obs in run.problems:
            ctx.oracle_fail(kind, what, case=run.case_record(), expected=exp, observed=obs)
        if i < 2:
            ctx.sample(run.case_record())
        terms.append(handle_term(run))
        runs.append(run)
    bad = ctx.coq_check(IMPORTS, terms, tag="c39b", shard=max(60, (len(terms) + 3) // 4))
    for ix in bad[:10]:
        run = runs[ix]
        ctx.mismatch("handle-consumer-calls-vs-model",
                     "the consumer calls made by GeneralSFTPFile, replayed on the Coq model, give different read results / sizes",
                     case=run.case_record(),
                     observed={"consumer_ops": [list(o[:2]) + [o[2].hex()] if o[0] == "ow" else list(o) for o in run.cops],
                               "outs": [(i, r[0], r[1].hex() if r[0] == "data" else "") for i, r in run.couts], "trace": run.ctrace},
                     correspondence=CORR_B)
    ctx.trace(len(terms) - len(bad))


# --------------------------------------------------------------------------
# Part D: the background download fails (forced endings, run every time)
# --------------------------------------------------------------------------
def failed_download_histories(r):
    """Deterministic grid: (what the client changed, relative to the download frontier) x (how much had
    arrived) x (failure before close is called / after close was requested) x (mutable / immutable)."""
    N = 100
    out = []
    for arrived in (0, 40, 99):
        changes = {
            "write-behind-frontier": [("hwrite", max(0, arrived - 30), b"A" * 10)],
            "write-straddling-frontier": [("hwrite", max(0, arrived - 5), b"B" * 20)],
            "write-ahead-of-frontier": [("hwrite", min(N - 10, arrived + 20), b"C" * 10)],
            "write-past-eof": [("hwrite", N + 5, b"D" * 4)],
            "truncate-below-frontier": [("hsize", max(0, arrived - 10))],
            "truncate-above-frontier": [("hsize", min(N - 1, arrived + 10))],
            "extend": [("hsize", N + 20)],
            "several": [("hwrite", 10, b"E" * 20), ("hsize", 70), ("hwrite", 60, b"F" * 30), ("hwrite", 0, b"G")],
            "none": [],
        }
        for name, ch in sorted(changes.items()):
            for order in ("fail-then-close", "close-then-fail", "close-turn-fail"):
                for mutable in (False, True):
                    ops = []
                    if arrived:
                        ops.append(("chunk", arrived))
                    ops += ch
                    if r.random() < 0.5:
                        ops.append(("hturn",))
                    if order == "fail-then-close":
                        ops += [("dlfail",)] + ([("hturn",)] if r.random() < 0.7 else []) + [("hclose",)]
                    elif order == "close-then-fail":
                        ops += [("hclose",), ("dlfail",)]
                    else:
                        ops += [("hclose",), ("hturn",), ("dlfail",)]
                    ops += [("hturn",), ("hturn",)]
                    out.append(("%s/%s/arrived=%d" % (name, order, arrived), mutable, ops))
    return out


def part_d(ctx):
    grid = failed_download_histories(ctx.rng("D", "grid"))
    O = bytes(((i * 7) % 251) + 1 for i in range(100))
    for label, mutable, ops in grid:
        drain()
        run = HandleRun(O, append=False, mutable=mutable)
        for o in ops:
            run.apply(o)
        run.finish_checks()
        drain()
        ctx.case((label, mutable), kind="handle-download-fails-" + label.split("/")[1])
        for kind, what, exp, obs in run.problems:
            ctx.oracle_fail(kind, what, case=run.case_record(), expected=exp, observed=obs)
    # random ones: a generic history, then the failure at a random point before or after close
    n = ctx.n(40, 400)
    for i in range(n):
        r = ctx.rng("D", i)
        d0 = r.choice([13, 33, 50, 80, MAXLEN])
        drain()
        run = HandleRun(rbytes(r, d0), append=(r.random() < 0.2), mutable=(r.random() < 0.5))
        steps = r.randrange(1, 12)
        for _ in range(steps):
            c = run.consumer
            k = r.choice(["chunk", "chunk", "hwrite", "hwrite", "hsize", "hread", "hturn"])
            if k == "chunk":
                if run.pos < d0 - 1:
                    run.apply(("chunk", r.randrange(1, d0 - run.pos)))     # never the whole file
            elif k == "hwrite":
                run.apply(("hwrite", r.choice([0, c.downloaded, c.current_size, r.randrange(0, c.current_size + 6)]), rbytes(r, r.choice([1, 3, 8, 21]))))
            elif k == "hsize":
                run.apply(("hsize", r.choice([0, c.downloaded, r.randrange(0, c.current_size + 10)])))
            elif k == "hread":
                run.apply(("hread", r.randrange(0, c.current_size + 2), r.choice([1, 10, 200])))
            else:
                run.apply(("hturn",))
        if r.random() < 0.5:
            run.apply(("dlfail",))
            if r.random() < 0.6:
                run.apply(("hturn",))
            run.apply(("hclose",))
        else:
            run.apply(("hclose",))
            if r.random() < 0.5:
                run.apply(("hturn",))
            run.apply(("dlfail",))
        run.finish_checks()
        drain()
        ctx.case((run.O, tuple(run.hops)), kind="handle-download-fails-random")
        for kind, what, exp, obs in run.problems:
            ctx.oracle_fail(kind, what, case=run.case_record(), expected=exp, observed=obs)


def run(ctx):
    tmpdir = env.subdir("c39-tmp")
    old = tempfile.tempdir
    tempfile.tempdir = tmpdir
    try:
        part_a(ctx, tmpdir)
        part_c(ctx, tmpdir)
        part_b(ctx)
        part_d(ctx)
    finally:
        tempfile.tempdir = old
        drain()


def replay(ctx, rec):
    case = rec.get("case") or {}
    tmpdir = env.subdir("c39-tmp")
    old = tempfile.tempdir
    tempfile.tempdir = tmpdir
    try:
        if case.get("level") == "consumer":
            run = replay_consumer(case, tmpdir)
            for kind, what, exp, obs in run.problems:
                ctx.oracle_fail(kind, what, case=case, expected=exp, observed=obs)
            out = {"impl_outs": [(i, r[0], r[1].hex() if r[0] == "data" else (r[1] if len(r) > 1 else "")) for i, r in run.outs],
                   "impl_trace": run.trace, "impl_file": None if run.closed() else run.file_bytes().hex(),
                   "reference": bytes(run.ref.b).hex()}
            ops = ops_from_record(case["ops"])
            out["model"] = ctx.coq_eval(IMPORTS, "match run zero_hole %s %s %s with Some c => Some (outs c, f (st c), ref c, ows (st c)) | None => None end" % (
                T.bytes_(bytes.fromhex(case["O"])), T.N(case["d0"]), T.lst([coq_op(o) for o in ops])))[-1500:]
            return out
        if case.get("level") == "handle":
            run = replay_handle(case)
            for kind, what, exp, obs in run.problems:
                ctx.oracle_fail(kind, what, case=case, expected=exp, observed=obs)
            return {"read_results": {str(k): (v[0], v[1].hex() if v[0] == "data" else "") for k, v in run.h_result.items()},
                    "read_expected": {str(k): (v[0], v[1].hex() if v[0] == "data" else "") for k, v in run.h_expect.items()},
                    "overtaken": sorted(run.overtaken), "uploaded": None if run.uploaded is None else run.uploaded.hex(),
                    "reference_at_close": None if run.ref_at_close is None else run.ref_at_close.hex(),
                    "consumer_calls": [list(o[:2]) + [o[2].hex()] if o[0] == "ow" else list(o) for o in run.cops]}
    finally:
        tempfile.tempdir = old
        drain()
    return {"note": "no replayable case in this record"}
