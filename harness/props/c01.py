"""C01  Immutable upload/download round-trip."""
import itertools
import struct
import types

from core import term as T

ID = "C01"
GEN = ["immconsts"]
RULE = ("cases: (a) size arithmetic: one (file size, k, N, max segment size) tuple run through the real "
        "get_all_encoding_parameters / Encoder / CRS codecs / DownloadNode._calculate_sizes / WriteBucketProxy and the "
        "model; (b) one read(offset,size) through the real DownloadNode.read + Segmentation over a stub segment source; "
        "(c) one DecryptingConsumer run; (d) one grid operation = upload, or one download/read of an uploaded file with "
        "a (schedule seed, surviving share subset, offset, size), or a read from honest servers that answer the share-location query only after the OVERDUE timeout; plus empty and literal-sized files (0,1,2,15,16,17,54,55 bytes, and 56) uploaded and read back whole and by ranges, with and without servers.  Sizes are centred on multiples of k, of the segment "
        "size, of 16, on 56 and on powers of two.  distinct = distinct input tuples; all are non-trivial except reads "
        "clipped to zero bytes.")
META = {
    "title": "Immutable upload/download round-trip",
    "level_text": ("Theorems in Coq over an executable model of the upload/download arithmetic and data path "
                   "(get_all_encoding_parameters, Encoder parameters and sequential segment reads with tail padding, "
                   "WriteBucketProxy v1/v2 offsets, DownloadNode._calculate_sizes/_decode_blocks, DownloadNode.read + "
                   "Segmentation loop with its segment-size guess and retry, DecryptingConsumer CTR positioning): "
                   "downloader and uploader sizes agree for all sizes/k/segment sizes; decoded segments partition the "
                   "ciphertext for every per-segment choice of k distinct shares; every read(offset,size) returns exactly "
                   "data[offset:offset+size]; offsets are adjacent/ordered/fit their fields; the composed round trip "
                   "returns the plaintext.  The erasure code and the keystream are universally quantified with the "
                   "any-k-of-N property as explicit premise.  The model is run against the real functions on boundary "
                   "inputs and against real uploads/downloads on an in-process grid under seeded schedules."),
    "level_note": ("Core level: delivery order of server responses, share finding/fetching, hash-tree validation and "
                   "the storage protocol are exercised (seeded schedules, random surviving share subsets) but not "
                   "proved.  Trusted: the hand model Model/ImmFile.v (pinned to the source by AST fingerprints and by "
                   "the generated layout tables), translator harness/translate/immconsts.py, the grid driver."),
    "technique": "Coq proof over an executable model + differential run vs implementation (pure functions and in-process grid with seeded scheduler)",
    "design_ref": "8/C01",
    "trusted_base": ["translator harness/translate/immconsts.py", "harness/core/grid.py (seeded scheduler over allmydata.test.no_network)",
                     "Python `cryptography` AES-CTR as decryption oracle"],
    "assumptions": ["zfec encodes k equal-length pieces into N blocks of that length and decodes any k distinct blocks (premise of segment_exact/roundtrip_any_k; validated by C36)",
                    "AES-CTR is XOR with a keystream indexed by the 128-bit big-endian block counter (premise of ctr_position; validated by the DecryptingConsumer correspondence)"],
}

IMPORTS = ["Lib.Hex", "Gen.ImmConsts", "Model.ImmFile"]

PREAMBLE = """
Definition w_eqb (a b : seg_write) : bool := (w_segnum a =? w_segnum b) && (w_off a =? w_off b) && (w_len a =? w_len b).
Fixpoint ws_eqb (a b : list seg_write) : bool :=
  match a, b with
  | [], [] => true
  | x :: a', y :: b' => w_eqb x y && ws_eqb a' b'
  | _, _ => false
  end.
Definition plan_eqb (r : seg_result) (e : option (list seg_write)) : bool :=
  match r, e with
  | SegDone ws, Some l => ws_eqb ws l
  | SegError, None => true
  | _, _ => false
  end.
Definition enc_eqb (e : enc_params) (a b c d f g : N) : bool :=
  (e_num_segments e =? a) && (e_share_size e =? b) && (e_tail_size e =? c) && (e_padded_tail e =? d)
  && (e_block_size e =? f) && (e_tail_block_size e =? g).
Definition dl_eqb (x : dl_sizes) (a b c d f : N) : bool :=
  (d_tail_segment_size x =? a) && (d_tail_segment_padded x =? b) && (d_num_segments x =? c)
  && (d_block_size x =? d) && (d_tail_block_size x =? f).
Definition wbp_eqb (r : option (N * offsets)) (e : option (N * list N)) (bs ds ues alloc : N) : bool :=
  match r, e with
  | Some (v, o), Some (v', fields) => (v =? v') && list_N_eqb (header_fields v bs ds o) fields && (allocated_size v o ues =? alloc)
  | None, None => true
  | _, _ => false
  end.
(* systematic stand-in for zfec: the first k blocks are the pieces themselves *)
Definition sys_enc (k n : N) (pieces : list (list N)) : list (list N) := pieces ++ repeat [] (N.to_nat (n - k)).
Definition ks_of (tbl : list N) (p : N) : N := nth (N.to_nat p) tbl 0.
"""


def div_ceil(a, b):
    return -(-a // b)


def res(d):
    """Result of an already-fired Deferred."""
    out = []
    d.addBoth(out.append)
    if not out:
        raise RuntimeError("Deferred has not fired")
    from twisted.python.failure import Failure
    if isinstance(out[0], Failure):
        out[0].raiseException()
    return out[0]


class _SizedFile(object):
    """A file of `size` bytes that is never read (only get_size is exercised)."""

    def __init__(self, size):
        self.size = size
        self.pos = 0

    def seek(self, off, whence=0):
        self.pos = off if whence == 0 else self.size + off

    def tell(self):
        return self.pos


# ---------------------------------------------------------------------------
# generators
# ---------------------------------------------------------------------------
def gen_params(r, big=False, small_k=True):
    k = r.choice([1, 1, 2, 3, 3, 4, 5, 7, 8, 10, 13, 16]) if small_k else r.choice([1, 2, 3, 16, 17, 100, 255, 256])
    n = r.choice([k, k, k + 1, min(16 if small_k else 256, k + r.randrange(0, 8)), 16 if small_k else 256])
    n = max(k, min(n, 16 if small_k else 256))
    max_seg = r.choice([1, 2, 3, k, k + 1, 7, 16, 55, 56, 100, 128, 1000, 1024, 4096, 65536, 131072, 131073, 1048576])
    return k, n, max_seg


def gen_size(r, k, max_seg, limit):
    seg = max(1, -(-min(max_seg, limit) // k) * k)
    base = r.choice([56, 57, 64, 100, 2 * seg, 3 * seg, 5 * seg, seg, 16 * r.randrange(4, 40), k * r.randrange(10, 60),
                     2 ** r.randrange(6, 19), r.randrange(56, limit + 1), limit])
    size = base + r.choice([-2, -1, 0, 0, 0, 1, 2, k - 1, k, k + 1])
    return max(56, min(size, limit))


# ---------------------------------------------------------------------------
# (a) size arithmetic
# ---------------------------------------------------------------------------
def impl_sizes(size, k, happy, n, max_seg):
    from allmydata.immutable import upload, encode
    from allmydata.immutable.downloader.node import DownloadNode
    from allmydata.codec import CRSDecoder
    u = upload.FileHandle(_SizedFile(size), convergence=None)
    u.set_default_encoding_parameters({"k": k, "happy": happy, "n": n, "max_segment_size": max_seg})
    (k2, happy2, n2, segsize) = res(u.get_all_encoding_parameters())
    e = encode.Encoder()
    e.file_size = size
    e._got_all_encoding_parameters((k2, happy2, n2, segsize))
    ued = e.uri_extension_data
    tail_params = tuple(int(x) for x in ued["tail_codec_params"].split(b"-"))
    enc = (e.num_segments, e._get_share_size(), None, tail_params[0], e._codec.get_block_size(), e._tail_codec.get_block_size())
    class _Stub(object):
        _calculate_sizes = DownloadNode._calculate_sizes
    stub = _Stub()
    stub._verifycap = types.SimpleNamespace(size=size, needed_shares=k2, total_shares=n2)
    r = DownloadNode._calculate_sizes(stub, segsize)
    dl = (r["tail_segment_size"], r["tail_segment_padded"], r["num_segments"], r["block_size"], r["tail_block_size"])
    dec = CRSDecoder()
    dec.set_params(segsize, k2, n2)
    dec2 = CRSDecoder()
    dec2.set_params(r["tail_segment_padded"], k2, n2)
    guess = None
    if div_ceil(size, max(1, min(size, max_seg))) <= 4096:
        DownloadNode._build_guessed_tables(stub, max_seg)
        guess = (stub.guessed_segment_size, stub.guessed_num_segments)
    return {"params": (k2, happy2, n2, segsize), "enc": enc, "dl": dl, "dec_share": (dec.share_size, dec2.share_size),
            "guess": guess, "ueb": (ued["size"], ued["segment_size"], ued["num_segments"], ued["needed_shares"], ued["total_shares"])}


def impl_wbp(bs, ds, nseg, nsh, ues):
    from allmydata.immutable import layout
    from allmydata.interfaces import FileTooLargeError
    try:
        w = layout.make_write_bucket_proxy(None, None, ds, bs, nseg, nsh, ues)
    except FileTooLargeError:
        return None
    hdr = w._offset_data
    if isinstance(w, layout.WriteBucketProxy_v2):
        fields = list(struct.unpack(">LQQQQQQQQ", hdr))
        ver = 2
    else:
        fields = list(struct.unpack(">LLLLLLLLL", hdr))
        ver = 1
    o = w._offsets
    if fields[3:] != [o[x] for x in ("data", "plaintext_hash_tree", "crypttext_hash_tree", "block_hashes", "share_hashes", "uri_extension")]:
        raise AssertionError("header does not carry the offsets dict")
    return ver, fields, w.get_allocated_size()


def safe_wbp(ctx, bs, ds, nseg, nsh, ues):
    try:
        return impl_wbp(bs, ds, nseg, nsh, ues)
    except Exception as e:
        ctx.case(None, kind="layout-error")
        ctx.oracle_fail("share-layout-raises-" + type(e).__name__,
                        "make_write_bucket_proxy(block_size=%d, data_size=%d, num_segments=%d, num_share_hashes=%d) raised %s: %s instead of choosing a layout or FileTooLargeError"
                        % (bs, ds, nseg, nsh, type(e).__name__, e),
                        case={"block_size": bs, "data_size": ds, "num_segments": nseg, "num_share_hashes": nsh, "uri_extension_size": ues})
        return "raised"


def arith(ctx):
    ctx.correspondence("size-arithmetic-vs-model")
    ctx.correspondence("share-layout-vs-model")
    terms, info = [], []
    n_cases = ctx.n(700, 7000)
    for i in range(n_cases):
        r = ctx.rng("arith", i)
        small = i % 5 != 0
        k, n, max_seg = gen_params(r, small_k=small)
        size = gen_size(r, k, max_seg, r.choice([2000, 300 * 1024, 300 * 1024, 2 ** 24, 2 ** 33 + 5]))
        happy = r.randrange(1, n + 1)
        case = {"size": size, "k": k, "n": n, "happy": happy, "max_segment_size": max_seg}
        try:
            got = impl_sizes(size, k, happy, n, max_seg)
        except Exception as e:   # the real code refused parameters the property quantifies over
            ctx.case(None, kind="arith-error")
            ctx.oracle_fail("size-derivation-raises", "deriving sizes for %r raised %s: %s" % (case, type(e).__name__, e), case=case)
            continue
        ctx.case(("arith", size, k, n, max_seg), kind="arith")
        (k2, happy2, n2, segsize) = got["params"]
        enc, dl = got["enc"], got["dl"]
        # direct oracle: the two sides must agree or no download can work
        up = (enc[0], enc[4], enc[5], enc[3])
        down = (dl[2], dl[3], dl[4], dl[1])
        share_ok = enc[1] == enc[4] * (enc[0] - 1) + enc[5]
        if up != down or not share_ok or got["dec_share"] != (enc[4], enc[5]) or (k2, n2) != (k, n) or segsize % k or segsize < 1 \
                or got["ueb"] != (size, segsize, enc[0], k, n):
            ctx.oracle_fail("uploader-downloader-size-disagreement",
                            "uploader derives (segments, block, tail block, padded tail)=%r share_size=%r, downloader %r, decoder share sizes %r, UEB %r"
                            % (up, enc[1], down, got["dec_share"], got["ueb"]), case=case, expected=up, observed=down)
        t = ("(upload_segsize %s %s %s =? %s) && enc_eqb (encoder_params %s %s %s) %s %s (e_tail_size (encoder_params %s %s %s)) %s %s %s"
             " && dl_eqb (calculate_sizes %s %s %s) %s %s %s %s %s && (crs_dec_share_size %s %s =? %s)") % (
            T.N(max_seg), T.N(size), T.N(k), T.N(segsize),
            T.N(size), T.N(k), T.N(segsize), T.N(enc[0]), T.N(enc[1]), T.N(size), T.N(k), T.N(segsize), T.N(enc[3]), T.N(enc[4]), T.N(enc[5]),
            T.N(size), T.N(k), T.N(segsize), T.N(dl[0]), T.N(dl[1]), T.N(dl[2]), T.N(dl[3]), T.N(dl[4]),
            T.N(segsize), T.N(k), T.N(got["dec_share"][0]))
        if got["guess"] is not None:
            t += " && (guessed_segment_size %s %s %s =? %s)" % (T.N(size), T.N(k), T.N(max_seg), T.N(got["guess"][0]))
        terms.append(t)
        info.append(("sizes", case, got))
        if i < 2:
            ctx.sample({"case": case, "segment_size": segsize, "num_segments": enc[0], "share_size": enc[1], "block_size": enc[4], "tail_block_size": enc[5]})
        # share layout for these parameters
        nsh = r.choice([1, 2, 3, 4, 5, 9])
        ues = r.choice([0, 1, 300, 419, 2 ** 16])
        w = safe_wbp(ctx, enc[4], enc[1], enc[0], nsh, ues)
        if w == "raised":
            continue
        terms.append(wbp_term(enc[4], enc[1], enc[0], nsh, ues, w))
        info.append(("layout", dict(case, block_size=enc[4], data_size=enc[1], num_segments=enc[0], num_share_hashes=nsh, uri_extension_size=ues), w))
        ctx.case(("layout", enc[4], enc[1], enc[0], nsh, ues), kind="layout")
        check_layout_oracle(ctx, enc[4], enc[1], enc[0], nsh, ues, w)
    # field-limit boundaries of the two layouts
    lims = [2 ** 32, 2 ** 64]
    m = ctx.n(120, 1200)
    for i in range(m):
        r = ctx.rng("wbp", i)
        lim = r.choice(lims)
        nseg = r.choice([1, 2, 3, 4, 5, 1000, 2 ** 20])
        nsh = r.choice([1, 4, 9])
        ues = r.choice([0, 419])
        which = r.randrange(3)
        if which == 0:
            bs = lim + r.choice([-2, -1, 0, 1])
            ds = r.choice([bs, 5])
        elif which == 1:
            ds = lim + r.choice([-2, -1, 0, 1])
            bs = r.choice([1, 100])
        else:
            # the last offset lands on the limit
            shs = (2 * next_pow2(nseg) - 1) * 32
            ds = lim - (0x24 if lim == 2 ** 32 else 0x44) - 3 * shs - nsh * 34 + r.choice([-1, 0, 1])
            bs = 1
        if ds < 0 or bs < 0:
            continue
        w = safe_wbp(ctx, bs, ds, nseg, nsh, ues)
        if w == "raised":
            continue
        terms.append(wbp_term(bs, ds, nseg, nsh, ues, w))
        info.append(("layout", {"block_size": bs, "data_size": ds, "num_segments": nseg, "num_share_hashes": nsh, "uri_extension_size": ues}, w))
        ctx.case(("layout", bs, ds, nseg, nsh, ues), kind="layout-limit")
        check_layout_oracle(ctx, bs, ds, nseg, nsh, ues, w)
    bad = ctx.coq_check(IMPORTS, terms, preamble=PREAMBLE, tag="c01arith")
    for ix in bad:
        kind, case, got = info[ix]
        ctx.mismatch("model-vs-impl:" + kind, "Coq model and implementation derive different %s" % kind, case=case, observed=repr(got),
                     correspondence="size-arithmetic-vs-model" if kind == "sizes" else "share-layout-vs-model")
    ctx.trace(len(terms) - len(bad))


def next_pow2(n):
    p = 1
    while p < n:
        p *= 2
    return p


def wbp_term(bs, ds, nseg, nsh, ues, w):
    if w is None:
        exp = "None"
        alloc = 0
    else:
        exp = "(Some (%s, %s))" % (T.N(w[0]), T.lst([T.N(x) for x in w[1]]))
        alloc = w[2]
    return "wbp_eqb (make_write_bucket_proxy %s %s %s %s) %s %s %s %s %s" % (
        T.N(bs), T.N(ds), T.N(nseg), T.N(nsh), exp, T.N(bs), T.N(ds), T.N(ues), T.N(alloc))


def check_layout_oracle(ctx, bs, ds, nseg, nsh, ues, w):
    """Property-level facts of a share layout, independent of the model: the
    sections follow each other in order without overlap, every field fits, the
    allocated size covers the UEB, v1 is used iff everything fits in 32 bits."""
    case = {"block_size": bs, "data_size": ds, "num_segments": nseg, "num_share_hashes": nsh, "uri_extension_size": ues}
    shs = (2 * next_pow2(nseg) - 1) * 32
    if w is None:
        end = 0x44 + ds + 3 * shs + nsh * 34
        if max(bs, ds, end) < 2 ** 64:
            ctx.oracle_fail("layout-refuses-representable-share", "make_write_bucket_proxy refused a share whose fields all fit 64 bits", case=case)
        return
    ver, f, alloc = w
    hdr = 0x24 if ver == 1 else 0x44
    width = 2 ** 32 if ver == 1 else 2 ** 64
    want = [ver, bs, ds, hdr, hdr + ds, hdr + ds + shs, hdr + ds + 2 * shs, hdr + ds + 3 * shs, hdr + ds + 3 * shs + nsh * 34]
    ok = f == want and alloc == want[-1] + (4 if ver == 1 else 8) + ues and all(x < width for x in f)
    fits_v1 = max(bs, ds, want[-1] - hdr + 0x24) < 2 ** 32
    if not ok or (ver == 1) != fits_v1:
        ctx.oracle_fail("share-layout-sections-wrong", "share header %r (v%d, allocated %d) is not the adjacent ordered layout %r" % (f, ver, alloc, want),
                        case=case, expected=want, observed=f)


# ---------------------------------------------------------------------------
# (b) DownloadNode.read + Segmentation over a stub segment source
# ---------------------------------------------------------------------------
class _Consumer(object):
    def __init__(self):
        self.writes = []
        self.producer = None

    def registerProducer(self, p, streaming):
        self.producer = p

    def unregisterProducer(self):
        self.producer = None

    def write(self, data):
        self.writes.append(data)


def file_bytes(size, salt=0):
    """Position-dependent content: byte i identifies i modulo 251*256."""
    return bytes(((i * 7 + salt + (i // 251)) & 0xFF) for i in range(size))


class _StubNode(object):
    """What Segmentation needs from DownloadNode; get_segment answers later
    (from a queue) with the real segment size, as the real node does once it
    has the UEB."""

    def __init__(self, data, segsize, guess):
        from allmydata.immutable.downloader.status import DownloadStatus
        self.data = data
        self.real = segsize
        self._verifycap = types.SimpleNamespace(size=len(data), storage_index=b"\x00" * 16, needed_shares=1, total_shares=1)
        self.segment_size = None
        self.guessed_segment_size = guess
        self._si_prefix = b"stub"
        self._download_status = DownloadStatus(b"\x00" * 16, len(data))
        self._history = None
        self._lp = None
        self.requests = []
        self.queue = []

    def get_segment(self, segnum, logparent=None):
        from twisted.internet import defer
        from allmydata.immutable.downloader.node import Cancel
        d = defer.Deferred()
        self.requests.append(segnum)
        self.queue.append((segnum, d))
        return d, Cancel(lambda c: None)

    def pump(self, limit=100000):
        from allmydata.immutable.downloader.common import BadSegmentNumberError
        n = 0
        while self.queue and n < limit:
            segnum, d = self.queue.pop(0)
            n += 1
            self.segment_size = self.real
            nseg = div_ceil(len(self.data), self.real)
            if segnum >= nseg:
                d.errback(BadSegmentNumberError("segnum=%d, numsegs=%d" % (segnum, nseg)))
            else:
                start = segnum * self.real
                d.callback((start, self.data[start:start + self.real], 0.0))
        return n


def run_read(data, segsize, guess, offset, size):
    """Real DownloadNode.read (clipping) + real Segmentation over a stub node.
    Returns (status, writes, requests)."""
    from allmydata.immutable.downloader.node import DownloadNode
    from twisted.python.failure import Failure
    node = _StubNode(data, segsize, guess)
    cons = _Consumer()
    try:
        d = DownloadNode.read(node, cons, offset, size)
        out = []
        d.addBoth(out.append)
        node.pump()
    except Exception as e:      # e.g. an assertion inside Segmentation
        return "raises:" + type(e).__name__, cons.writes, node.requests
    if not out:
        return "hung", cons.writes, node.requests
    if isinstance(out[0], Failure):
        return "error:" + out[0].type.__name__, cons.writes, node.requests
    return "ok", cons.writes, node.requests


def segmentation(ctx):
    ctx.correspondence("segmentation-vs-model")
    terms, info = [], []
    n_cases = ctx.n(500, 5000)
    for i in range(n_cases):
        r = ctx.rng("seg", i)
        segsize = r.choice([1, 2, 3, 7, 16, 100, 128, 1000, 4096])
        nseg = r.choice([1, 1, 2, 2, 3, 4, 5, 9, 17, 40])
        fsize = max(1, segsize * (nseg - 1) + r.choice([1, segsize, max(1, segsize - 1), r.randrange(1, segsize + 1)]))
        guess = r.choice([segsize, segsize, fsize, max(1, fsize // 2), 1, 2 * segsize, segsize + 1, max(1, segsize - 1), 1048576, r.randrange(1, 2 * fsize + 2)])
        bpts = [0, 1, segsize - 1, segsize, segsize + 1, fsize - 1, fsize, fsize + 1, fsize + segsize, (nseg - 1) * segsize, r.randrange(0, fsize + 3)]
        offset = max(0, r.choice(bpts))
        size = r.choice([None, None, 0, 1, segsize, segsize + 1, fsize, fsize - offset, fsize - offset + 1, max(0, fsize - offset - 1), 10 * fsize, r.randrange(0, fsize + 3)])
        if size is not None and size < 0:
            size = 0
        data = file_bytes(fsize, i)
        case = {"file_size": fsize, "segment_size": segsize, "guess": guess, "offset": offset, "size": size, "salt": i}
        status, writes, requests = run_read(data, segsize, guess, offset, size)
        want = data[offset:] if size is None else data[offset:offset + size]
        got = b"".join(writes)
        ctx.case(("seg", fsize, segsize, guess, offset, size) if want else None, kind="read-" + ("whole" if size is None else "range"))
        if status != "ok" or got != want:
            ctx.oracle_fail("read-range-wrong-bytes" if status == "ok" else "read-range-" + status.replace(":", "-"),
                            "read(offset=%d,size=%r) of a %d-byte file in %d-byte segments (guess %d): status %s, %d bytes delivered, expected %d"
                            % (offset, size, fsize, segsize, guess, status, len(got), len(want)), case=case,
                            expected=want[:64].hex(), observed=got[:64].hex())
        if len(requests) > div_ceil(fsize, segsize) + 1:
            ctx.oracle_fail("read-range-too-many-segment-requests", "%d segment requests for a file of %d segments" % (len(requests), div_ceil(fsize, segsize)), case=case)
        # implementation's plan: where each write came from
        plan = []
        pos = offset
        for w in writes:
            sn = pos // segsize
            plan.append((sn, pos - sn * segsize, len(w)))
            pos += len(w)
        exp = "None" if status != "ok" else "(Some %s)" % T.lst(["(mk_write %s %s %s)" % (T.N(a), T.N(b), T.N(c)) for a, b, c in plan])
        terms.append("plan_eqb (read_plan %s %s %s %s %s) %s" % (T.N(fsize), T.N(segsize), T.N(guess), T.N(offset), T.opt(None if size is None else T.N(size)), exp))
        info.append((case, status, plan))
        if i < 2:
            ctx.sample({"case": case, "writes": [len(w) for w in writes], "segment_requests": requests})
    bad = ctx.coq_check(IMPORTS, terms, preamble=PREAMBLE, tag="c01seg")
    for ix in bad:
        case, status, plan = info[ix]
        ctx.mismatch("model-vs-impl:segmentation-plan", "Coq Segmentation model and the real loop cut the read differently", case=case,
                     observed={"status": status, "plan": plan}, correspondence="segmentation-vs-model")
    ctx.trace(len(terms) - len(bad))


# ---------------------------------------------------------------------------
# (c) DecryptingConsumer
# ---------------------------------------------------------------------------
def ctr_keystream(key, start_block, nbytes):
    from cryptography.hazmat.primitives.ciphers import Cipher, algorithms, modes
    enc = Cipher(algorithms.AES(key), modes.CTR(start_block.to_bytes(16, "big"))).encryptor()
    return enc.update(b"\x00" * nbytes)


def ctr(ctx):
    from allmydata.immutable.filenode import DecryptingConsumer
    ctx.correspondence("ctr-positioning-vs-model")
    terms, info = [], []
    n_cases = ctx.n(150, 1500)
    for i in range(n_cases):
        r = ctx.rng("ctr", i)
        key = bytes(r.getrandbits(8) for _ in range(16))
        smallcase = i % 3 == 0
        if smallcase:
            offset = r.choice([0, 1, 15, 16, 17, 31, 32, 33, 47, r.randrange(0, 60)])
            length = r.randrange(0, 40)
        else:
            offset = r.choice([0, 15, 16, 17, 2 ** 20 - 1, 2 ** 32 - 1, 2 ** 32, 2 ** 36 + 5, 16 * (2 ** 64) - 3, r.getrandbits(40)])
            length = r.randrange(0, 200)
        first = offset // 16
        ks = ctr_keystream(key, first, (offset % 16) + length)[offset % 16:]
        plain = bytes(r.getrandbits(8) for _ in range(length))
        ct = bytes(a ^ b for a, b in zip(plain, ks))
        chunks = []
        pos = 0
        while pos < length:
            c = r.randrange(1, 20)
            chunks.append(ct[pos:pos + c])
            pos += c
        if r.random() < 0.2:
            chunks.insert(r.randrange(len(chunks) + 1), b"")
        cons = _Consumer()
        dc = DecryptingConsumer(cons, key, offset)
        for c in chunks:
            dc.write(c)
        got = b"".join(cons.writes)
        ctx.case(("ctr", key, offset, tuple(chunks)), kind="ctr")
        case = {"key": key.hex(), "offset": offset, "chunks": [c.hex() for c in chunks]}
        if got != plain:
            ctx.oracle_fail("decrypting-consumer-wrong-position", "DecryptingConsumer(offset=%d) does not decrypt ciphertext[offset:offset+%d] to the plaintext" % (offset, length),
                            case=case, expected=plain.hex(), observed=got.hex())
        if smallcase:
            table = ctr_keystream(key, 0, 112)
            terms.append("list_N_eqb (decrypting_consumer (ks_of %s) %s %s) %s" % (
                T.bytes_(table), T.N(offset), T.lst([T.bytes_(c) for c in chunks]), T.bytes_(got)))
            info.append(case)
    bad = ctx.coq_check(IMPORTS, terms, preamble=PREAMBLE, tag="c01ctr")
    for ix in bad:
        ctx.mismatch("model-vs-impl:decrypting-consumer", "Coq CTR positioning model and DecryptingConsumer differ", case=info[ix],
                     correspondence="ctr-positioning-vs-model")
    ctx.trace(len(terms) - len(bad))


# ---------------------------------------------------------------------------
# (d) the grid
# ---------------------------------------------------------------------------
def parse_share(raw):
    """Immutable share container -> (payload, header version, 9 header fields, UEB length)."""
    (cver, _dlen, nleases) = struct.unpack(">LLL", raw[:12])
    payload = raw[12:len(raw) - nleases * 72]
    (ver,) = struct.unpack(">L", payload[:4])
    if ver == 1:
        fields = list(struct.unpack(">LLLLLLLLL", payload[:0x24]))
        (ulen,) = struct.unpack(">L", payload[fields[8]:fields[8] + 4])
    else:
        fields = list(struct.unpack(">LQQQQQQQQ", payload[:0x44]))
        (ulen,) = struct.unpack(">Q", payload[fields[8]:fields[8] + 8])
    return payload, ver, fields, ulen


def slow_plan(servers):
    return [{"server": sv, "method": "get_buckets", "count": None, "action": "delay", "until": "timers"} for sv in servers]


def make_data(size, i):
    import random
    return random.Random(size * 1000003 + i).randbytes(size)


def grid_case_params(r, i, tier_big):
    k = r.choice([1, 1, 2, 3, 3, 4, 5, 7, 10, 16])
    n = r.choice([k, k + 1, k + 2, min(16, 2 * k), 10 if k <= 10 else 16, 16])
    n = max(k, min(16, n))
    happy = r.choice([1, 1, min(n, 2), r.randrange(1, n + 1)])
    ns = r.choice([1, n, n + 3, max(1, n - 1), r.randrange(1, n + 4)])
    happy = min(happy, ns)
    if i % 8 == 7 and tier_big:
        max_seg = r.choice([4096, 65536, 131072])
        size = gen_size(r, k, max_seg, 300 * 1024)
    else:
        max_seg = r.choice([k, k + 1, 2 * k, 16, 55, 56, 64, 100, 128, 1000, 1024])
        seg = -(-max_seg // k) * k
        nseg = r.choice([1, 2, 2, 3, 4, 5, 8, 9, 16, 17])
        size = max(56, seg * (nseg - 1) + r.choice([1, seg, seg - 1, k, k + 1, max(1, seg // 2)]) + r.choice([0, 0, 1, -1]))
        size = min(size, 40 * 1024)
    return k, n, happy, ns, max_seg, size


def grid(ctx):
    from core import grid as G
    from allmydata import uri
    from allmydata.hashtree import IncompleteHashTree
    from cryptography.hazmat.primitives.ciphers import Cipher, algorithms, modes
    ctx.correspondence("grid-upload-vs-model")
    terms, info = [], []
    n_files = ctx.n(36, 320)
    model_bytes = 0
    for i in range(n_files):
        r = ctx.rng("grid", i)
        k, n, happy, ns, max_seg, size = grid_case_params(r, i, True)
        data = make_data(size, i)
        seed = r.getrandbits(30)
        fifo = r.choice(["server", "server", "server", "none"])
        case = {"size": size, "k": k, "n": n, "happy": happy, "max_segment_size": max_seg, "servers": ns, "seed": seed, "fifo": fifo, "i": i}
        with G.Grid(num_servers=ns, k=k, n=n, happy=happy, max_segment_size=max_seg, seed=seed, fifo=fifo, timeout=120) as g:
            out = g.run(lambda: g.upload_results(data, convergence=b"C01"), outcome=True)
            ctx.case(("up", size, k, n, happy, max_seg, ns, seed), kind="grid-upload")
            if out.status != "ok":
                ctx.oracle_fail("upload-fails:" + str(out.error), "upload of %d bytes %d-of-%d (happy %d) to %d honest servers: %s %s" % (
                    size, k, n, happy, ns, out.status, out.error), case=case, observed=str(out.failure)[-600:] if out.failure else out.hung_info)
                continue
            ur = out.value
            cap = ur.get_uri()
            u = uri.from_string(cap)
            ueb = ur.get_uri_extension_data()
            segsize = ueb["segment_size"]
            shares = g.find_shares(cap)
            shnums = sorted(set(s.shnum for s in shares))
            if (u.size, u.needed_shares, u.total_shares) != (size, k, n) or shnums != list(range(n)):
                ctx.oracle_fail("cap-or-placement-wrong", "cap says (size,k,N)=%r for an upload of %r; shares present %r" % (
                    (u.size, u.needed_shares, u.total_shares), (size, k, n), shnums), case=case)
            nsh = len(IncompleteHashTree(n).needed_hashes(0, include_leaf=True))
            tail_params = tuple(int(x) for x in ueb["tail_codec_params"].split(b"-"))
            # every share file against the model's layout
            parsed = {}
            for sh in shares:
                payload, ver, fields, ulen = parse_share(g.read_share(sh))
                parsed[sh.shnum] = (payload, ver, fields, ulen)
            payload, ver, fields, ulen = parsed[shnums[0]]
            same = all(p[1:] == (ver, fields, ulen) and len(p[0]) == len(payload) for p in parsed.values())
            if not same:
                ctx.oracle_fail("shares-of-one-file-differ-in-layout", "shares of one file have different headers/sizes", case=case)
            t = ("(upload_segsize %s %s %s =? %s) && (let e := encoder_params %s %s %s in (e_num_segments e =? %s) && (e_padded_tail e =? %s) && "
                 "wbp_eqb (make_write_bucket_proxy (e_block_size e) (e_share_size e) (e_num_segments e) %s) (Some (%s, %s)) (e_block_size e) (e_share_size e) %s %s)") % (
                T.N(max_seg), T.N(size), T.N(k), T.N(segsize), T.N(size), T.N(k), T.N(segsize), T.N(ueb["num_segments"]), T.N(tail_params[0]),
                T.N(nsh), T.N(ver), T.lst([T.N(x) for x in fields]), T.N(ulen), T.N(len(payload)))
            terms.append(t)
            info.append(("layout", case, {"segment_size": segsize, "header": fields, "payload": len(payload), "ueb_len": ulen}))
            if i < 3:
                ctx.sample({"case": case, "cap": cap.decode(), "segment_size": segsize, "num_segments": ueb["num_segments"], "share_payload_bytes": len(payload)})
            # primary shares hold the ciphertext pieces (zfec is systematic): model's data section
            enc = Cipher(algorithms.AES(u.key), modes.CTR(b"\x00" * 16)).encryptor()
            ct = enc.update(data)
            if size <= 400 and model_bytes < 6000:
                model_bytes += size
                for j in range(k):
                    if j in parsed:
                        sec = parsed[j][0][fields[3]:fields[4]]
                        terms.append("list_N_eqb (nth %s (upload_shares sys_enc %s %s %s %s %s) []) %s" % (
                            T.nat(j), T.N(size), T.N(k), T.N(n), T.N(segsize), T.bytes_(ct), T.bytes_(sec)))
                        info.append(("data-section", dict(case, shnum=j), sec.hex()))
            # downloads: schedules x surviving share subsets x ranges
            saved = {sh: g.read_share(sh) for sh in shares}
            n_dl = ctx.n(4, 8)
            for j in range(n_dl):
                rr = ctx.rng("grid-dl", i, j)
                # restore, then keep a random set of >= k distinct share numbers (sometimes exactly k)
                for sh, raw in saved.items():
                    g.write_share(sh, raw)
                keep_n = rr.choice([k, k, k + 1, n, rr.randrange(k, n + 1)])
                keep_n = min(n, keep_n)
                keep = set(rr.sample(range(n), keep_n))
                kept_one_per_shnum = {}
                for sh in rr.sample(shares, len(shares)):
                    if sh.shnum in keep and (sh.shnum not in kept_one_per_shnum or rr.random() < 0.5):
                        kept_one_per_shnum.setdefault(sh.shnum, sh)
                for sh in shares:
                    if sh.shnum not in keep:
                        g.delete_share(sh)
                dseed = rr.getrandbits(30)
                g.sched.reseed(dseed)
                mode = rr.choice(["whole", "whole", "range", "range", "tail", "past"])
                if mode == "whole":
                    off, sz = 0, None
                elif mode == "range":
                    off = rr.choice([0, 1, segsize - 1, segsize, segsize + 1, size - 1, (ueb["num_segments"] - 1) * segsize, rr.randrange(size)])
                    off = max(0, min(off, size))
                    sz = rr.choice([1, segsize, segsize + 1, size - off, rr.randrange(0, size - off + 1), size])
                elif mode == "tail":
                    off = max(0, size - rr.randrange(1, min(size, 2 * segsize) + 1))
                    sz = rr.choice([None, size])
                else:
                    off, sz = size + rr.randrange(0, 3), rr.choice([None, 5])
                dcase = dict(case, download_seed=dseed, keep=sorted(keep), offset=off, read_size=sz)
                want = data[off:] if sz is None else data[off:off + sz]
                o2 = g.run(lambda: g.download_range(cap, off, sz), outcome=True)
                ctx.case(("dl", i, j, dseed, tuple(sorted(keep)), off, sz) if want else None, kind="grid-" + mode)
                if o2.status != "ok":
                    ctx.oracle_fail("download-fails:" + str(o2.error), "read(%d,%r) of a %d-byte %d-of-%d file with shares %r present: %s %s" % (
                        off, sz, size, k, n, sorted(keep), o2.status, o2.error), case=dcase,
                        observed=str(o2.failure)[-600:] if o2.failure else o2.hung_info)
                elif o2.value != want:
                    first = next((x for x in range(min(len(want), len(o2.value))) if want[x] != o2.value[x]), min(len(want), len(o2.value)))
                    ctx.oracle_fail("roundtrip-wrong-bytes", "read(%d,%r) of a %d-byte %d-of-%d file (segment size %d) returned %d bytes, expected %d; first difference at %d" % (
                        off, sz, size, k, n, segsize, len(o2.value), len(want), first), case=dcase,
                        expected=want[max(0, first - 8):first + 24].hex(), observed=o2.value[max(0, first - 8):first + 24].hex())
            # honest but SLOW servers: their answer to the share-location query arrives only after
            # the client's OVERDUE timers have fired (virtual time: no wall-clock cost)
            for j in range(ctx.n(2, 3)):
                rr = ctx.rng("grid-slow", i, j)
                for sh, raw in saved.items():
                    g.write_share(sh, raw)
                nslow = rr.choice([ns, ns, max(1, ns - 1), rr.randrange(1, ns + 1)])
                slow = sorted(rr.sample(range(ns), nslow))
                dseed = rr.getrandbits(30)
                g.sched.reseed(dseed)
                g.set_faults(slow_plan(slow))
                off = rr.choice([0, 0, rr.randrange(size)])
                sz = None if off == 0 else rr.choice([None, 1, size - off])
                dcase = dict(case, download_seed=dseed, slow_servers=slow, offset=off, read_size=sz)
                want = data[off:] if sz is None else data[off:off + sz]
                o2 = g.run(lambda: g.download_range(cap, off, sz), outcome=True)
                g.set_faults(None)
                ctx.case(("slow", i, j, dseed, tuple(slow), off, sz), kind="grid-slow-servers")
                if o2.status != "ok" or o2.value != want:
                    ctx.oracle_fail("slow-honest-servers-read-fails:" + str(o2.error if o2.status != "ok" else "wrong-bytes"),
                                    "read(%d,%r) of an intact %d-byte %d-of-%d file on %d honest servers of which %r answer the share-location query "
                                    "only after the OVERDUE timeout: %s %s" % (off, sz, size, k, n, ns, slow, o2.status, o2.error), case=dcase,
                                    observed=str(o2.failure)[-600:] if o2.failure else o2.hung_info)
            if g.logged_errors:
                ctx.count("grid-logged-errors", len(g.logged_errors))
    bad = ctx.coq_check(IMPORTS, terms, preamble=PREAMBLE, tag="c01grid")
    for ix in bad:
        kind, case, got = info[ix]
        ctx.mismatch("model-vs-grid:" + kind, "Coq model does not predict the %s of the real upload" % kind, case=case, observed=got,
                     correspondence="grid-upload-vs-model")
    ctx.trace(len(terms) - len(bad))


LIT_SIZES = [0, 1, 2, 15, 16, 17, 54, 55, 56]


def literal_case(ctx, g, size, i, servers):
    """Upload `size` bytes through the client API, check the cap kind, read it
    back whole and by ranges.  Oracle only (bytes equal, LIT iff size <= 55, the
    LIT cap is URI:LIT: + unpadded lower-case base32 of the data); the literal
    cap syntax is modelled in C05 (Model/Convergence.v), not here."""
    import base64
    from allmydata import uri
    data = make_data(size, 7000 + i)
    case = {"size": size, "i": 7000 + i, "servers": servers, "literal_stream": True, "k": 3, "n": 10, "happy": 1,
            "max_segment_size": 128, "seed": i, "fifo": "server"}
    ctx.case(("lit-up", size, i, servers), kind="grid-literal-upload" if size <= 55 else "grid-first-chk-upload")
    out = g.run(lambda: g.upload(data, convergence=b"C01"), outcome=True)
    if out.status != "ok":
        ctx.oracle_fail("small-file-upload-fails:" + str(out.error), "upload of a %d-byte file (%d servers): %s %s" % (size, servers, out.status, out.error),
                        case=case, observed=str(out.failure)[-600:] if out.failure else out.hung_info)
        return
    cap = out.value
    want_cap = b"URI:LIT:" + base64.b32encode(data).rstrip(b"=").lower()
    is_lit = cap.startswith(b"URI:LIT:")
    if is_lit != (size <= 55) or (is_lit and cap != want_cap):
        ctx.oracle_fail("small-file-cap-wrong", "a %d-byte file got cap %r (literal iff size <= 55; literal cap embeds the data)" % (size, cap[:80]),
                        case=case, expected=want_cap.decode() if size <= 55 else "URI:CHK:...", observed=cap.decode())
    if not is_lit:
        u = uri.from_string(cap)
        if (u.size, u.needed_shares, u.total_shares) != (size, 3, 10):
            ctx.oracle_fail("cap-or-placement-wrong", "cap fields %r for a %d-byte 3-of-10 upload" % ((u.size, u.needed_shares, u.total_shares), size), case=case)
    reads = [(0, None), (0, size), (0, size + 3), (size, None), (size + 1, 2)]
    r = ctx.rng("lit-read", size, i)
    for _ in range(4):
        off = r.choice([0, 1, max(0, size - 1), r.randrange(0, size + 1)])
        off = min(off, size)
        reads.append((off, r.choice([None, 0, 1, size - off, r.randrange(0, size - off + 2)])))
    for off, sz in reads:
        want = data[off:] if sz is None else data[off:off + sz]
        dcase = dict(case, offset=off, read_size=sz)
        ctx.case(("lit-read", size, i, off, sz) if want else None, kind="grid-literal-read" if is_lit else "grid-range")
        o2 = g.run(lambda: g.download_range(cap, off, sz), outcome=True)
        if o2.status != "ok":
            ctx.oracle_fail("small-file-read-fails:" + str(o2.error), "read(%d,%r) of a %d-byte file (cap %s...): %s %s" % (
                off, sz, size, cap[:12].decode(), o2.status, o2.error), case=dcase, observed=str(o2.failure)[-600:] if o2.failure else o2.hung_info)
        elif o2.value != want:
            ctx.oracle_fail("roundtrip-wrong-bytes", "read(%d,%r) of a %d-byte file returned %r, expected %r" % (off, sz, size, o2.value[:60], want[:60]),
                            case=dcase, expected=want.hex(), observed=o2.value.hex())


def literal(ctx):
    """Empty and literal-sized files, and the first CHK size."""
    from core import grid as G
    ctx.note("literal-sized files: oracle only in C01 (cap kind, embedded data, bytes read back); the LIT cap syntax is modelled and proved in C05")
    extra = ctx.n(3, 30)
    with G.Grid(num_servers=4, k=3, n=10, happy=1, max_segment_size=128, seed=ctx.seed, timeout=60) as g:
        for i, size in enumerate(LIT_SIZES + [ctx.rng("lit-size", j).randrange(0, 58) for j in range(extra)]):
            literal_case(ctx, g, size, i, 4)
    # literal files need no servers at all
    with G.Grid(num_servers=0, k=3, n=10, happy=1, seed=ctx.seed, timeout=60) as g:
        for i, size in enumerate([s for s in LIT_SIZES if s <= 55]):
            literal_case(ctx, g, size, 100 + i, 0)


def concurrent_case(ctx, i, k, n, ns, max_seg, sizes, seed):
    """Several uploads of different sizes started back to back through ONE client and
    running interleaved under the seeded scheduler; then each is read back."""
    from core import grid as G
    from twisted.internet import defer
    from twisted.python.failure import Failure
    datas = [make_data(sz, 9000 + 10 * i + j) for j, sz in enumerate(sizes)]
    case = {"concurrent": True, "i": i, "k": k, "n": n, "servers": ns, "max_segment_size": max_seg, "sizes": list(sizes), "seed": seed}
    with G.Grid(num_servers=ns, k=k, n=n, happy=1, max_segment_size=max_seg, seed=seed, timeout=120) as g:
        def start():
            ds = []
            for d in datas:
                ds.append(defer.maybeDeferred(g.upload, d, b"C01"))
            return defer.DeferredList(ds, consumeErrors=True)
        out = g.run(start, outcome=True)
        ctx.case(("conc", i, k, n, ns, max_seg, tuple(sizes), seed), kind="grid-concurrent-uploads")
        if out.status != "ok":
            ctx.oracle_fail("concurrent-uploads-" + out.status, "%d concurrent uploads (%r bytes, %d-of-%d): %s %s" % (len(sizes), sizes, k, n, out.status, out.error),
                            case=case, observed=out.hung_info)
            return
        for j, (ok, val) in enumerate(out.value):
            jc = dict(case, which=j, size=sizes[j])
            if not ok:
                err = val.type.__name__ if isinstance(val, Failure) else str(val)
                ctx.oracle_fail("concurrent-upload-fails:" + err, "upload %d (%d bytes) of %d concurrent uploads of %r bytes through one client (%d-of-%d, %d servers) fails: %s" % (
                    j, sizes[j], len(sizes), sizes, k, n, ns, err), case=jc, observed=str(val)[-500:])
                continue
            cap = val
            ctx.case(("conc-dl", i, j, seed), kind="grid-whole")
            o2 = g.run(lambda: g.download(cap), outcome=True)
            if o2.status != "ok" or o2.value != datas[j]:
                ctx.oracle_fail("roundtrip-wrong-bytes" if o2.status == "ok" else "download-fails:" + str(o2.error),
                                "file %d (%d bytes) of %d files uploaded concurrently (%r bytes, %d-of-%d, max segment %d) does not read back: %s %s" % (
                                    j, sizes[j], len(sizes), sizes, k, n, max_seg, o2.status, o2.error), case=jc,
                                observed=str(o2.failure)[-500:] if o2.failure else None)


def concurrent(ctx):
    for i in range(ctx.n(5, 40)):
        r = ctx.rng("conc", i)
        k = r.choice([1, 2, 3, 3, 5])
        n = r.choice([k, k + 1, k + 2, 10])
        ns = r.choice([1, n, n + 2, r.randrange(1, n + 3)])
        max_seg = r.choice([16, 64, 100, 1024, 4096])
        seg = -(-max_seg // k) * k
        cnt = r.choice([2, 2, 3, 4])
        sizes = []
        for attempt in range(40):
            if len(sizes) >= cnt:
                break
            sz = seg * r.choice([1, 2, 3, 5, 9]) + r.choice([0, 1, -1, k, seg // 2])
            if sz < 56 or attempt > 20:
                sz = r.randrange(56, max(60, min(3000, seg * 30)))
            sz = min(sz, 20000)
            if sz not in sizes:
                sizes.append(sz)
        concurrent_case(ctx, i, k, n, ns, max_seg, sizes, r.getrandbits(30))


def corpus(ctx):
    import glob
    import json
    import os
    from core import env
    for path in sorted(glob.glob(os.path.join(env.CORPUS, "C01", "*.json"))):
        rec = json.load(open(path))
        replay(ctx, rec)


def run(ctx):
    corpus(ctx)
    arith(ctx)
    segmentation(ctx)
    ctr(ctx)
    literal(ctx)
    concurrent(ctx)
    grid(ctx)


def replay(ctx, record):
    """Re-run one recorded case (from a replay or corpus file)."""
    case = record.get("case") or {}
    if "guess" in case and "file_size" in case:
        data = file_bytes(case["file_size"], case.get("salt", 0))
        status, writes, requests = run_read(data, case["segment_size"], case["guess"], case["offset"], case["size"])
        want = data[case["offset"]:] if case["size"] is None else data[case["offset"]:case["offset"] + case["size"]]
        if status != "ok" or b"".join(writes) != want:
            ctx.oracle_fail("read-range-wrong-bytes" if status == "ok" else "read-range-" + status, "replayed read differs", case=case,
                            expected=want[:64].hex(), observed=b"".join(writes)[:64].hex())
        model = ctx.coq_eval(IMPORTS, "read_plan %s %s %s %s %s" % (T.N(case["file_size"]), T.N(case["segment_size"]), T.N(case["guess"]), T.N(case["offset"]),
                                                                    T.opt(None if case["size"] is None else T.N(case["size"]))))
        return {"status": status, "writes": [len(w) for w in writes], "segment_requests": requests, "model_plan": model}
    if "max_segment_size" in case and "servers" not in case:
        got = impl_sizes(case["size"], case["k"], case.get("happy", 1), case["n"], case["max_segment_size"])
        model = ctx.coq_eval(IMPORTS, "let s := upload_segsize %s %s %s in (s, encoder_params %s %s s, calculate_sizes %s %s s)" % (
            T.N(case["max_segment_size"]), T.N(case["size"]), T.N(case["k"]), T.N(case["size"]), T.N(case["k"]), T.N(case["size"]), T.N(case["k"])))
        return {"implementation": got, "model": model}
    if case.get("concurrent"):
        concurrent_case(ctx, case["i"], case["k"], case["n"], case["servers"], case["max_segment_size"], case["sizes"], case["seed"])
        return {"sizes": case["sizes"], "failures": [f["kind"] for f in ctx.failures]}
    if case.get("literal_stream"):
        from core import grid as G
        with G.Grid(num_servers=case["servers"], k=3, n=10, happy=1, max_segment_size=128, seed=case.get("seed", 0), timeout=60) as g:
            literal_case(ctx, g, case["size"], case["i"] - 7000, case["servers"])
        return {"size": case["size"], "failures": [f["kind"] for f in ctx.failures]}
    if "servers" in case:
        from core import grid as G
        size = case["size"]
        data = make_data(size, case.get("i", 0))
        with G.Grid(num_servers=case["servers"], k=case["k"], n=case["n"], happy=case["happy"], max_segment_size=case["max_segment_size"],
                    seed=case["seed"], fifo=case.get("fifo", "server"), timeout=120) as g:
            out = g.run(lambda: g.upload_results(data, convergence=b"C01"), outcome=True)
            if out.status != "ok":
                ctx.oracle_fail("upload-fails:" + str(out.error), "replayed upload fails", case=case)
                return {"upload": out.status, "error": out.error}
            cap = out.value.get_uri()
            if "keep" in case:
                for sh in g.find_shares(cap):
                    if sh.shnum not in case["keep"]:
                        g.delete_share(sh)
                g.sched.reseed(case["download_seed"])
            if "slow_servers" in case:
                g.sched.reseed(case["download_seed"])
                g.set_faults(slow_plan(case["slow_servers"]))
            off, sz = case.get("offset", 0), case.get("read_size")
            o2 = g.run(lambda: g.download_range(cap, off, sz), outcome=True)
            want = data[off:] if sz is None else data[off:off + sz]
            if o2.status != "ok" or o2.value != want:
                ctx.oracle_fail("roundtrip-wrong-bytes" if o2.status == "ok" else "download-fails:" + str(o2.error), "replayed download differs", case=case)
            return {"cap": cap.decode(), "download": o2.status, "error": o2.error, "equal": o2.status == "ok" and o2.value == want}
    return {"note": "record holds no replayable case"}
