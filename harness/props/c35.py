"""C35  Merkle hash trees accept only genuine leaves.

Implementation under test: allmydata.hashtree (HashTree, IncompleteHashTree).
Model: coq/Model/HashTree.v evaluated on the free term algebra `sym`
(Leaf/Pad/Pair/Junk).  Every byte string that enters or leaves the real code
is given the Coq term that denotes it:

  G[j] (the genuine tree built by the real HashTree)  ->  nth j (sym_hash_tree [Leaf 0; ...])
  empty_leaf_hash(i)                                  ->  Pad i
  a forged value                                      ->  Junk k  (b"" is Junk 0)
  pair_hash(a, b) computed by the real code           ->  Pair <a> <b>   (recorded by a pass-through wrapper)

`set.pop()` order: allmydata.hashtree's name `set` is bound to a subclass of
the builtin set that records every pop (native order) or picks the popped
element from a seeded PRNG (driven order); the recorded sequence is the
model's `ord` argument.

A history is a concrete JSON-able object (see exec_history): corpus files,
replays and generated cases all use it.
"""
import glob
import hashlib
import json
import os

from core import env
from core import term as T

ID = "C35"
GEN = []
RULE = ("cases: one set_hashes/needed_hashes call on a tree in a given state (history prefix, dict orders, pop order); "
        "distinct = distinct (tree size, pre-state, hashes, leaves, pop order); non-trivial = the call gets past the argument "
        "merge into the validation loop with at least one new node (accepted, or rejected after writing)")
META = {
    "title": "Merkle hash trees accept only genuine leaves",
    "level_text": ("Theorems in Coq over an executable model of hashtree.py (index arithmetic, HashTree construction with padding, "
                   "IncompleteHashTree.set_hashes with level sets, arbitrary set.pop order, conflict checks, rollback): for an "
                   "injective pair_hash, a tree whose present nodes are genuine and whose root is seeded stays genuine after any "
                   "accepted set_hashes call with arbitrary (adversarial, also negative/out-of-range) arguments; the genuine values "
                   "for needed_hashes(leaf) are accepted in every dict/pop order; every rejection (BadHashError, NotEnoughHashesError, "
                   "IndexError) returns the list to its previous contents.  The model is run against the real classes with real "
                   "SHA-256d and with symbolic hashes, and the three statements are evaluated directly on the real code."),
    "level_note": ("Hashes are abstract (injective pair_hash is a hypothesis; no cryptographic claim).  Trusted: Model/HashTree.v as a "
                   "reading of hashtree.py (hand-written; tied to the code by the differential run: outcome class, full resulting list, "
                   "needed_hashes, index arithmetic, HashTree construction), mathutil.log_floor modelled as Z.log2.  Reject-restores-state "
                   "needs 'no stored value is the empty byte string' (the code tests `if self[i]:`); a witness without it is proved."),
    "technique": "Coq proof over an executable model + differential run (real SHA-256d and symbolic hashes) + direct oracle on the implementation",
    "design_ref": "8/C35",
    "trusted_base": ["Model/HashTree.v hand-transcribed from src/allmydata/hashtree.py",
                     "harness instrumentation: pass-through wrapper of hashtree.pair_hash, recording subclass of set"],
    "assumptions": ["pair_hash injective; pair_hash/empty_leaf_hash never return b''; caller-supplied genuine leaves are non-empty byte strings"],
}

IMPORTS = ["Model.HashTree"]
SIZES = [1, 1, 2, 2, 3, 3, 4, 4, 5, 5, 6, 7, 8, 8, 9, 12, 15, 16, 17, 24, 31, 32, 33, 48, 63, 64]

C_SET = "set_hashes-vs-model"
C_NEEDED = "needed_hashes-vs-model"
C_ARITH = "tree-arithmetic-and-construction-vs-model"


# --------------------------------------------------------------------------------------
# instrumentation of allmydata.hashtree
# --------------------------------------------------------------------------------------
class _Inst(object):
    """Binds hashtree.pair_hash / hashtree.set (and, in symbolic mode,
    hashtree.empty_leaf_hash) for the duration of a history."""

    def __init__(self, mode):
        import allmydata.hashtree as HT
        self.HT = HT
        self.mode = mode              # "sha" | "symbolic"
        self.reg = {}                 # bytes -> Coq term
        self.pops = []
        self.policy = None            # None = native set.pop order, else random.Random
        self._saved = {}

    # -- values ------------------------------------------------------------------------
    def leaf(self, i):
        if self.mode == "sha":
            return hashlib.sha256(b"c35 leaf %d" % i).digest()
        return b"L%d;" % i

    def junk(self, k):
        assert k >= 1
        v = hashlib.sha256(b"c35 junk %d" % k).digest() if self.mode == "sha" else b"J%d;" % k
        self.reg.setdefault(v, "(Junk %s)" % T.Z(k))
        return v

    def term(self, v):
        if v is None:
            return "None"
        if v == b"":
            return "(Some (Junk 0%Z))"
        return "(Some %s)" % self.reg[v]

    def hterm(self, v):
        if v == b"":
            return "(Junk 0%Z)"
        return self.reg[v]

    # -- patching ----------------------------------------------------------------------
    def __enter__(self):
        HT = self.HT
        inst = self
        for name in ("pair_hash", "empty_leaf_hash"):
            self._saved[name] = getattr(HT, name)
        self._had_set = "set" in HT.__dict__
        real_pair = HT.pair_hash
        real_empty = HT.empty_leaf_hash

        def pair_hash(a, b):
            if inst.mode == "sha":
                r = real_pair(a, b)
            else:
                assert isinstance(a, bytes) and isinstance(b, bytes)
                r = b"P%d:%s%d:%s" % (len(a), a, len(b), b)
            if r not in inst.reg:
                inst.reg[r] = "(Pair %s %s)" % (inst.hterm(a), inst.hterm(b))
            return r

        def empty_leaf_hash(i):
            r = real_empty(i) if inst.mode == "sha" else b"E%d;" % i
            inst.reg.setdefault(r, "(Pad %s)" % T.Z(i))
            return r

        class RecSet(set):
            __slots__ = ()

            def pop(self):
                if inst.policy is None:
                    x = set.pop(self)
                else:
                    x = inst.policy.choice(sorted(self))
                    self.remove(x)
                inst.pops.append(x)
                return x

        HT.pair_hash = pair_hash
        HT.empty_leaf_hash = empty_leaf_hash
        HT.set = RecSet
        return self

    def __exit__(self, *a):
        HT = self.HT
        for name, v in self._saved.items():
            setattr(HT, name, v)
        if not self._had_set:
            del HT.set
        return False


def _outcome_class(HT, fn):
    try:
        fn()
        return "ok", None
    except HT.BadHashError as e:
        return "BadHashError", e
    except HT.NotEnoughHashesError as e:
        return "NotEnoughHashesError", e
    except IndexError as e:
        return "IndexError", e
    except Exception as e:   # AssertionError, TypeError, ...: not a rejection the callers handle
        return "Crash", e


# --------------------------------------------------------------------------------------
# concrete histories
# --------------------------------------------------------------------------------------
# value spec: ["g", j] genuine node j | ["junk", k] | ["empty"] | ["pair", v, v]
# step: {"hashes": [[key, v], ...], "leaves": [[leafnum, v], ...], "order": null | int seed,
#        "ask": leafnum or null  (call needed_hashes(ask, True) first and compare it too),
#        "expect_accept": bool (optional: the driver generated exactly the genuine needed hashes)}
# history: {"mode": "sha"|"symbolic", "n": num_leaves, "steps": [...]}

class _Run(object):
    """Executes a history step by step on the real classes, collecting Coq
    terms for the model and evaluating the direct oracle."""

    def __init__(self, ctx, mode, n, sink, label):
        import allmydata.hashtree as HT
        self.ctx = ctx
        self.HT = HT
        self.n = n
        self.sink = sink            # list of (term, correspondence, what, case)
        self.label = label
        self.hist = {"mode": mode, "n": n, "steps": []}
        self.inst = _Inst(mode)
        with self.inst:
            self.leaves = [self.inst.leaf(i) for i in range(n)]
            for i, v in enumerate(self.leaves):
                self.inst.reg[v] = "(Leaf %s)" % T.Z(i)
            self.G = HT.HashTree(list(self.leaves))
            self.t = HT.IncompleteHashTree(n)
        self.P = (len(self.G) + 1) // 2
        self.fl = self.P - 1
        # genuine nodes are denoted through the model's own HashTree construction
        for j, v in enumerate(self.G):
            self.inst.reg[v] = "(g %s)" % T.Z(j)
        self.prefix = ("let G := sym_hash_tree (leaf_range %s 0%%Z) in let g := fun j : Z => nth (Z.to_nat j) G (Junk 0%%Z) in "
                       % T.nat(n))
        self.ok = True              # direct-oracle precondition: every stored node so far is genuine

    def value(self, spec):
        k = spec[0]
        if k == "g":
            return self.G[spec[1]]
        if k == "junk":
            return self.inst.junk(spec[1])
        if k == "empty":
            return b""
        if k == "pair":
            a, b = self.value(spec[1]), self.value(spec[2])
            with self.inst:
                return self.HT.pair_hash(a, b)
        raise ValueError(spec)

    def tree_term(self, lst):
        # (sparse n [(index, value); ...]) : only the present nodes are written out
        return "(sparse %s [%s])" % (T.Z(len(lst)), "; ".join("(%s, %s)" % (T.Z(j), self.inst.hterm(v))
                                                              for j, v in enumerate(lst) if v is not None))

    def dict_term(self, items):
        return "[" + "; ".join("(%s, %s)" % (T.Z(k), self.inst.hterm(v)) for k, v in items) + "]"

    def needed(self, leafnum):
        """needed_hashes(leafnum, include_leaf=True) on model and implementation."""
        before = list(self.t)
        with self.inst:
            cls, e = _outcome_class(self.HT, lambda: setattr(self, "_nh", self.t.needed_hashes(leafnum, include_leaf=True)))
        got = sorted(self._nh) if cls == "ok" else None
        case = {"history": self.hist, "ask": leafnum}
        if cls == "ok":
            term = ("%smatch sym_needed_hashes %s %s %s true with Some l => zset_eqb l [%s] | None => false end"
                    % (self.prefix, T.Z(self.fl), self.tree_term(before), T.Z(leafnum), "; ".join(T.Z(x) for x in got)))
        else:
            term = ("%smatch sym_needed_hashes %s %s %s true with Some _ => false | None => %s end"
                    % (self.prefix, T.Z(self.fl), self.tree_term(before), T.Z(leafnum), T.boolean(cls == "IndexError")))
        self.sink.append((term, C_NEEDED, "needed_hashes(%d, include_leaf=True) = %r (%s)" % (leafnum, got, cls), case))
        self.ctx.case(None, kind="needed_hashes")
        return got

    def step(self, step):
        ctx = self.ctx
        HT = self.HT
        self.hist["steps"].append(step)
        hashes = [(k, self.value(v)) for k, v in step.get("hashes", [])]
        leaves = [(k, self.value(v)) for k, v in step.get("leaves", [])]
        before = list(self.t)
        order = step.get("order")
        self.inst.pops = []
        self.inst.policy = None if order is None else ctx.rng("order", order)
        with self.inst:
            cls, exc = _outcome_class(HT, lambda: self.t.set_hashes(dict(hashes), dict(leaves)))
        after = list(self.t)
        pops = list(self.inst.pops)
        case = {"history": json.loads(json.dumps(self.hist)), "step": len(self.hist["steps"]) - 1, "label": self.label,
                "pop_order": pops}

        # ---- direct oracle (model-independent) ------------------------------------------
        G = self.G
        seeded = before[0] is not None and before[0] == G[0]
        if self.ok and seeded:
            if cls == "ok":
                bad = [j for j, v in enumerate(after) if v is not None and v != G[j]]
                if bad:
                    j = bad[-1]
                    kind = "accepted-forged-leaf" if j >= self.fl else "accepted-non-genuine-node"
                    ctx.oracle_fail(kind, "set_hashes returned normally but node [%d]%s now holds a value that differs from the tree that "
                                    "produced the trusted root" % (j, " (leaf %d)" % (j - self.fl) if j >= self.fl else ""),
                                    case=case, expected="tree[%d] == genuine[%d] or None" % (j, j),
                                    observed={"bad_nodes": bad, "value": after[j].hex()[:64]})
                    self.ok = False
                # every value the call accepted (hash or leaf, at an index inside the tree) is the genuine one
                size = len(after)
                supplied = [(k, v, "hashes[%d]" % k) for k, v in hashes] + [(self.fl + k, v, "leaves[%d]" % k) for k, v in leaves]
                for k, v, name in supplied:
                    if 0 <= k < size and v != G[k]:
                        ctx.oracle_fail("accepted-forged-value",
                                        "set_hashes returned normally although %s (node [%d]) differs from the genuine tree" % (name, k),
                                        case=case, expected="rejection", observed={"node": k, "value": v.hex()[:64]})
                        break
        if cls != "ok" and after != before:
            changed = [j for j in range(len(after)) if after[j] != before[j]]
            # the code tests `if self[i]:`, so a stored b"" counts as absent: narrow, separately classified
            kind = ("state-changed-after-rejection:empty-value-present" if any(v == b"" for v in before)
                    else "state-changed-after-rejection:" + cls)
            ctx.oracle_fail(kind,
                            "set_hashes raised %s (%s) but left the tree modified at nodes %r" % (cls, str(exc)[:80], changed),
                            case=case, expected="list(tree) unchanged", observed={"changed_nodes": changed})
            self.ok = False      # unvalidated nodes were left behind: later calls start outside the precondition
        if step.get("expect_accept") and cls != "ok" and self.ok and seeded:
            ctx.oracle_fail("genuine-needed-hashes-rejected",
                            "the genuine values for exactly needed_hashes(leaf, include_leaf=True) were rejected with %s: %s" % (cls, str(exc)[:120]),
                            case=case, expected="accepted", observed=cls)
        if cls == "Crash":
            ctx.count("impl-crash:" + type(exc).__name__)

        # ---- model ---------------------------------------------------------------------------
        try:
            after_t = self.tree_term(after)
        except KeyError:
            ctx.mismatch("unexplained-value-in-tree", "the tree holds a byte string that was neither supplied nor computed by pair_hash",
                         case=case, correspondence=C_SET)
            return cls
        if cls == "ok":
            want = "(Accepted sym %s)" % after_t
        else:
            want = "(Rejected sym %s %s)" % (cls, after_t)
        term = ("%soutcome_eqb (sym_set_hashes %s %s %s %s [%s]) %s"
                % (self.prefix, T.Z(self.fl), self.tree_term(before), self.dict_term(hashes), self.dict_term(leaves),
                   "; ".join(T.Z(x) for x in pops), want))
        nontrivial = None
        if pops or (cls == "ok" and after != before):
            nontrivial = (self.n, tuple(before), tuple(hashes), tuple(leaves), tuple(pops))
        ctx.case(nontrivial, kind="set_hashes:" + cls)
        self.sink.append((term, C_SET, "set_hashes outcome %s, %d nodes present afterwards" % (cls, len([v for v in after if v is not None])),
                          dict(case, observed_class=cls, present_after=[j for j, v in enumerate(after) if v is not None])))
        return cls


def exec_history(ctx, hist, sink, label, quiet=0):
    """quiet: the first `quiet` steps are a prefix already compared elsewhere (no model terms for them)."""
    run = _Run(ctx, hist["mode"], hist["n"], sink, label)
    out = []
    for ix, st in enumerate(hist["steps"]):
        run.sink = [] if ix < quiet else sink
        if st.get("ask") is not None:
            run.needed(st["ask"])
        out.append(run.step(dict(st)))
    return run, out


# --------------------------------------------------------------------------------------
# generators
# --------------------------------------------------------------------------------------
_junk_counter = [0]


def fresh_junk():
    _junk_counter[0] += 1
    return ["junk", _junk_counter[0]]


def gen_step(r, run, clean_p=0.45):
    """One validation step against the current real tree state."""
    n, P, fl, t = run.n, run.P, run.fl, run.t
    size = len(t)
    if r.random() < 0.9:
        ln = r.randrange(n)
    else:
        ln = r.randrange(P)          # may be a padding leaf
    needed = run.needed(ln) or []
    leaf_idx = fl + ln
    clean = r.random() < clean_p
    hashes = []
    leaves = []
    exact = True

    def adversarial(j):
        x = r.random()
        if x < 0.35:
            return fresh_junk()
        if x < 0.55:
            return None              # missing
        if x < 0.70:
            return ["empty"]
        if x < 0.90:
            return ["g", r.randrange(size)]      # a genuine hash, but of another node
        return ["pair", fresh_junk(), ["g", j]]

    flips = 0
    for j in needed:
        v = ["g", j]
        if not clean and r.random() < 0.25:
            v = adversarial(j)
            flips += 1
            if v != ["g", j]:
                exact = False
        if v is None:
            continue
        if j == leaf_idx:
            how = r.random()
            if how < 0.6:
                leaves.append([ln, v])
            elif how < 0.85:
                hashes.append([j, v])
            else:
                hashes.append([j, v])
                if r.random() < 0.4 and not clean:
                    leaves.append([ln, fresh_junk()])       # conflicting arguments
                    exact = False
                else:
                    leaves.append([ln, v])
        else:
            hashes.append([j, v])
    if not clean:
        x = r.random()
        if x < 0.10:
            hashes.append([r.choice([size, size + 1, size + 5, 2 * size + 1, 10 ** 6]), fresh_junk()]); exact = False
        elif x < 0.20:
            hashes.append([r.choice([-1, -2, -size, -size - 1, -(size // 2) - 1]), r.choice([fresh_junk(), ["g", size - 1]])]); exact = False
        elif x < 0.28:
            j = r.randrange(size)
            hashes.append([j, ["g", j]]); exact = exact and (j in needed or t[j] is not None)
            if j in [k for k, _ in hashes[:-1]]:
                hashes.pop()
        elif x < 0.34:
            j = r.randrange(size)
            if j not in [k for k, _ in hashes]:
                hashes.append([j, fresh_junk()]); exact = False
        elif x < 0.40:
            leaves.append([r.choice([-1, -ln - 1, P, P + 3, -P, -fl]), r.choice([fresh_junk(), ["g", 0]])]); exact = False
        elif x < 0.50:
            # a consistent forgery: forged leaf and the parents recomputed from it, handed in explicitly
            cur = fresh_junk()
            idx = leaf_idx
            forged = {}
            forged[idx] = cur
            depth = r.randrange(0, 4)
            while idx != 0 and depth > 0:
                sib = idx + 1 if idx % 2 == 1 else idx - 1
                pair = ["pair", cur, ["g", sib]] if idx % 2 == 1 else ["pair", ["g", sib], cur]
                idx = (idx - 1) // 2
                cur = pair
                if idx != 0:
                    forged[idx] = cur
                depth -= 1
            keys = [k for k, _ in hashes]
            hashes = [[k, forged.get(k, v)] for k, v in hashes]
            leaves = [[k, forged.get(fl + k, v)] for k, v in leaves]
            for k, v in forged.items():
                if k not in keys and k != leaf_idx:
                    hashes.append([k, v])
            exact = False
    # a dict has unique keys
    seen = set()
    hashes = [kv for kv in hashes if not (kv[0] in seen or seen.add(kv[0]))]
    seen = set()
    leaves = [kv for kv in leaves if not (kv[0] in seen or seen.add(kv[0]))]
    r.shuffle(hashes)
    r.shuffle(leaves)
    step = {"hashes": hashes, "leaves": leaves, "order": (None if r.random() < 0.4 else r.getrandbits(30))}
    if exact and set(k for k, _ in hashes) | set(fl + k for k, _ in leaves) == set(needed):
        step["expect_accept"] = True
    return step


def random_history(ctx, i, sink):
    r = ctx.rng("hist", i)
    n = r.choice(SIZES) if r.random() < 0.8 else r.randrange(1, 65)
    mode = "sha" if i % 3 != 2 else "symbolic"
    run = _Run(ctx, mode, n, sink, "random-%d" % i)
    # seed the trusted root (sometimes together with the first leaf's chain)
    run.step({"hashes": [[0, ["g", 0]]], "leaves": [], "order": None})
    for _ in range(r.randrange(1, 7)):
        run.step(gen_step(r, run))
    return run


def exhaustive(ctx, sizes, sink, with_prefix):
    """Every tree size in `sizes`, every leaf, every genuine/forged/missing choice
    among needed_hashes(leaf, include_leaf=True) from the root-only state and
    (with_prefix) from every state reached by validating one other leaf."""
    count = 0
    for n in sizes:
        P = 1
        while P < n:
            P *= 2
        for pre in ([None] + (list(range(P)) if with_prefix else [])):
            for ln in range(P):
                if pre is not None and pre == ln:
                    continue
                # discover the needed set on a scratch run
                base_steps = [{"hashes": [[0, ["g", 0]]], "leaves": [], "order": None}]
                probe = _Run(ctx, "symbolic", n, [], "probe")
                probe.step(dict(base_steps[0]))
                if pre is not None:
                    nd = sorted(probe.t.needed_hashes(pre, include_leaf=True))
                    st = {"hashes": [[j, ["g", j]] for j in nd], "leaves": [], "order": None, "expect_accept": True}
                    probe.step(dict(st))
                    base_steps.append(st)
                needed = sorted(probe.t.needed_hashes(ln, include_leaf=True))
                m = len(needed)
                for code in range(3 ** m):
                    choice = [(code // 3 ** k) % 3 for k in range(m)]    # 0 genuine, 1 forged, 2 missing
                    hashes = []
                    for j, c in zip(needed, choice):
                        if c == 0:
                            hashes.append([j, ["g", j]])
                        elif c == 1:
                            hashes.append([j, ["junk", 1 + j]])
                    r = ctx.rng("exh", n, pre, ln, code)
                    r.shuffle(hashes)
                    st = {"hashes": hashes, "leaves": [], "order": r.getrandbits(30)}
                    if code == 0:
                        st["ask"] = ln
                    if all(c == 0 for c in choice):
                        st["expect_accept"] = True
                    hist = {"mode": "symbolic", "n": n, "steps": base_steps + [st]}
                    exec_history(ctx, hist, sink, "exhaustive n=%d pre=%r leaf=%d code=%d" % (n, pre, ln, code),
                                 quiet=(len(base_steps) if code else 0))
                    count += 1
    return count


def arithmetic(ctx, sink):
    """roundup_pow2, first_leaf_num, tree length, depth_of, parent/lchild/rchild/sibling/needed_for and the
    HashTree construction against the model."""
    import allmydata.hashtree as HT
    for x in list(range(0, 70)) + [127, 128, 129, 1000]:
        got = HT.roundup_pow2(x)
        sink.append(("(roundup_pow2 %s =? %s)%%Z" % (T.Z(x), T.Z(got)), C_ARITH, "roundup_pow2(%d)=%d" % (x, got), {"fn": "roundup_pow2", "x": x}))
        ctx.case(None, kind="arith")
    for i in list(range(-4, 260)) + [2 ** 20 - 2, 2 ** 20 - 1, 2 ** 20]:
        got = HT.depth_of(i)
        sink.append(("(depth_of %s =? %s)%%Z" % (T.Z(i), T.Z(got)), C_ARITH, "depth_of(%d)=%d" % (i, got), {"fn": "depth_of", "i": i}))
        ctx.case(None, kind="arith")
    for n in ([0, 1, 2, 3, 4, 5, 7, 8, 9, 16, 17] + ([33, 64] if ctx.tier == "thorough" or ctx.search else [])):
        t = HT.IncompleteHashTree(n)
        sink.append(("sym_tree_eqb (iht_init sym %s) [%s] && (first_leaf_num %s =? %s)%%Z"
                     % (T.Z(n), "; ".join("None" for _ in t), T.Z(n), T.Z(t.first_leaf_num)),
                     C_ARITH, "IncompleteHashTree(%d): len %d first_leaf_num %d" % (n, len(t), t.first_leaf_num), {"fn": "iht_init", "n": n}))
        ctx.case(None, kind="arith")
        size = len(t)
        for i in range(-2, size + 3):
            for name in ("parent", "lchild", "rchild", "sibling"):
                try:
                    got = getattr(t, name)(i)
                except IndexError:
                    got = None
                sink.append(("oz_eqb (%s %s %s) %s" % (name, T.Z(size), T.Z(i), T.opt(T.Z(got)) if got is not None else "None"),
                             C_ARITH, "%s(%d) on a tree of %d = %r" % (name, i, size, got), {"fn": name, "size": size, "i": i}))
            try:
                got = t.needed_for(i)
            except IndexError:
                got = None
            sink.append(("ozlist_eqb (needed_for %s %s) %s" % (T.Z(size), T.Z(i), "None" if got is None else "(Some [%s])" % "; ".join(T.Z(x) for x in got)),
                         C_ARITH, "needed_for(%d) on a tree of %d = %r" % (i, size, got), {"fn": "needed_for", "size": size, "i": i}))
            ctx.case(None, kind="arith")
    for mode in ("sha", "symbolic"):
        for n in list(range(0, 18)) + [31, 32, 33, 64]:
            inst = _Inst(mode)
            with inst:
                leaves = [inst.leaf(i) for i in range(n)]
                for i, v in enumerate(leaves):
                    inst.reg[v] = "(Leaf %s)" % T.Z(i)
                G = HT.HashTree(list(leaves))
            ok = all(v in inst.reg for v in G)
            term = "sym_list_eqb (sym_hash_tree [%s]) [%s]" % ("; ".join("Leaf %s" % T.Z(i) for i in range(n)),
                                                              "; ".join(inst.reg.get(v, "(Junk 0%Z)") for v in G))
            sink.append((term if ok else "false", C_ARITH, "HashTree(%d leaves) node by node (%s)" % (n, mode), {"fn": "HashTree", "n": n, "mode": mode}))
            ctx.case(("HashTree", mode, n), kind="HashTree")
            # the direct statement: node = pair_hash(children), padding = empty_leaf_hash(i), leaves in place
            P = (len(G) + 1) // 2
            with inst:
                good = (len(G) == 2 * P - 1 and list(G[P - 1:P - 1 + n]) == leaves
                        and all(G[P - 1 + i] == HT.empty_leaf_hash(i) for i in range(n, P))
                        and all(G[p] == HT.pair_hash(G[2 * p + 1], G[2 * p + 2]) for p in range(P - 1)))
            if not good:
                ctx.oracle_fail("hashtree-construction-not-merkle", "HashTree(%d leaves) is not the Merkle tree over the padded leaves" % n,
                                case={"n": n, "mode": mode})


# --------------------------------------------------------------------------------------
def flush(ctx, sink, tag):
    if not sink:
        return
    terms = [s[0] for s in sink]
    bad = ctx.coq_check(IMPORTS, terms, tag=tag, shard=700)
    for ix in bad:
        term, corr, what, case = sink[ix]
        ctx.mismatch("model-vs-impl:" + corr, "model and implementation differ: " + what, case=case,
                     observed=what, correspondence=corr)
    ctx.trace(len(terms) - len(bad))
    del sink[:]


def run_corpus(ctx, sink):
    for path in sorted(glob.glob(os.path.join(env.CORPUS, "C35", "*.json"))):
        hist = json.load(open(path))
        exec_history(ctx, hist, sink, "corpus:" + os.path.basename(path))
        ctx.count("corpus-histories")


def run(ctx):
    for c in (C_SET, C_NEEDED, C_ARITH):
        ctx.correspondence(c)
    sink = []
    run_corpus(ctx, sink)
    arithmetic(ctx, sink)
    nh = ctx.n(500, 4000)
    for i in range(nh):
        run = random_history(ctx, i, sink)
        if i < 2:
            ctx.sample({"history": run.hist})
        if len(sink) >= 5600:
            flush(ctx, sink, "c35r%d" % i)
    if ctx.tier == "thorough" or ctx.search:
        cnt = 0
        for n in range(1, 9):
            cnt += exhaustive(ctx, [n], sink, with_prefix=True)
            flush(ctx, sink, "c35x%d" % n)
        ctx.note("exhaustive: trees of 1..8 leaves, every leaf (padding included), every genuine/forged/missing choice among "
                 "needed_hashes, from the root-only state and after validating each other leaf: %d histories" % cnt)
    else:
        cnt = exhaustive(ctx, [1, 2, 3, 4, 5], sink, with_prefix=False)
        flush(ctx, sink, "c35x")
        ctx.note("quick tier: exhaustive genuine/forged/missing choices for trees of 1..5 leaves from the root-only state: %d histories" % cnt)


def replay(ctx, rec):
    case = rec.get("case") or {}
    hist = case.get("history")
    if not hist and "n" in case and "mode" in case:
        # HashTree construction record: rebuild that tree and re-evaluate the Merkle statement
        import allmydata.hashtree as HT
        inst = _Inst(case["mode"])
        with inst:
            leaves = [inst.leaf(i) for i in range(case["n"])]
            for i, v in enumerate(leaves):
                inst.reg[v] = "(Leaf %s)" % T.Z(i)
            G = HT.HashTree(list(leaves))
            P = (len(G) + 1) // 2
            bad_pad = [i for i in range(case["n"], P) if G[P - 1 + i] != HT.empty_leaf_hash(i)]
            bad_node = [p for p in range(P - 1) if G[p] != HT.pair_hash(G[2 * p + 1], G[2 * p + 2])]
        if bad_pad or bad_node or list(G[P - 1:P - 1 + case["n"]]) != leaves:
            ctx.oracle_fail("hashtree-construction-not-merkle", "HashTree(%d leaves) is not the Merkle tree over the padded leaves" % case["n"], case=case)
        return {"padding_leaves_not_empty_leaf_hash_i": bad_pad, "nodes_not_pair_hash_of_children": bad_node}
    if not hist:
        return {"note": "record carries no history"}
    sink = []
    if "ask" in case and "step" not in case:
        run, out = exec_history(ctx, hist, sink, "replay")
        run.needed(case["ask"])
    else:
        run, out = exec_history(ctx, hist, sink, "replay")
    res = {"outcomes": out, "tree_present": [j for j, v in enumerate(run.t) if v is not None],
           "non_genuine": [j for j, v in enumerate(run.t) if v is not None and v != run.G[j]]}
    terms = [s[0] for s in sink]
    bad = ctx.coq_check(IMPORTS, terms, tag="c35replay")
    for ix in bad:
        ctx.mismatch("model-vs-impl:" + sink[ix][1], sink[ix][2], case=sink[ix][3], correspondence=sink[ix][1])
    res["model_disagrees_on"] = [sink[ix][2] for ix in bad]
    return res
