"""C03  Immutable availability with k good shares."""
import os

from core import term as T

ID = "C03"
GEN = []
RULE = ("unit cases: one real SegmentFetcher (k 1..4) driven event by event (add_shares / no_more_shares / block-request activity "
        "COMPLETE|CORRUPT|DEAD|OVERDUE|BADSEGNUM / one queued loop) over <= 9 fake Share objects on <= 5 servers with equal and different "
        "round-trip times, driven to quiescence in most cases, a share of the cases with out-of-protocol events (activity of a share "
        "that is not outstanding, add after stop, a bad segment number); non-trivial = at least one share failed or went overdue; "
        "finder cases: one real ShareFinder over <= 8 servers with answers, errors and overdue timers in random order; "
        "grid cases: N<=6 shares placed on <= N+3 servers (several per server), subsets deleted / corrupted (block data, version "
        "field, truncation, hash trees, UEB) / failing on the nth read, DYHB answers that are late, lost, fail at once (lost connection: already-failed Deferred), or arrive only after the finder's "
        "OVERDUE timer has fired (grid time warp), schedules by seed; a share of the cases under a frozen / coarse (1/64 s) / backwards / jumping downloader clock; forced in every run: files whose UEB is padded (one extra ignored field) to every length 2039..2050 (v1 shares) and 2035..2046 (v2 shares) and to "
        "5000 bytes, read through fresh nodes with all, exactly k and k-1 shares; wrong-guess cases: first reads of fresh nodes at offsets whose guessed segment number is the real number of segments exactly, one less or more "
        "(default_max_segment_size substituted so that small files are guessed wrongly); idle-node cases: one cached node, a first read served by k holders while the other "
        "holders' DYHB answers arrive only after it finished, the used shares then deleted, the file read again through the same node; "
        "non-trivial = at least one share bad or one fault planned")
META = {
    "title": "Immutable availability with k good shares",
    "level_text": ("Theorems in Coq over a transition-system model of SegmentFetcher (every entry point an event, arbitrary interleaving): "
                   "blocks handed to the node always come from >= k distinct share numbers, each supplied by a COMPLETE answer; "
                   "NotEnoughShares/NoShares is raised only after no_more_shares and with fewer than k distinct share numbers among "
                   "blocks, active, overdue and unused shares (hence only with fewer than k good ones); every fair run (each outstanding "
                   "request resolves, the finder reports exhaustion, queued loops run) with >= k distinct good share numbers ends in "
                   "process_blocks, proved with a measure.  The model is compared state by state with the real SegmentFetcher (and a "
                   "ShareFinder model with the real ShareFinder) on random event sequences; whole downloads with placements, corruptions, "
                   "fault plans and schedules run on a real in-process grid against the property's own rule."),
    "level_note": ("core (partial): Share (share.py: the per-share read/validate loop) and the hash checks are not modelled, they are "
                   "exercised on the grid only; a share is 'good' when its block request ends in COMPLETE.  A server that never answers a "
                   "block read is outside the statement (the code has no timer for block requests: Share never emits OVERDUE); a lost "
                   "DYHB answer is covered by the finder's overdue timer.  The scheduler orders on the grid are sampled, not proved."),
    "technique": "Coq proofs (invariants over event sequences, measure-based liveness over fair infinite runs) + differential run vs the real classes + grid fault runs",
    "design_ref": "8/C03, A.7",
    "trusted_base": ["fake Share/Node objects of harness/props/c03.py standing in for share.py/node.py at unit level"],
    "assumptions": ["fairness: queued eventual-sends run, every outstanding block request ends in a terminal state, the finder delivers "
                    "every share of the answering servers and then reports exhaustion"],
}
IMPORTS = ["Model.Fetcher"]

STATES = ["COMPLETE", "CORRUPT", "DEAD", "OVERDUE", "BADSEGNUM"]


# ---------------------------------------------------------------------------
# unit level: real SegmentFetcher, fake shares, harness event queue
# ---------------------------------------------------------------------------
class FakeServer(object):
    def __init__(self, i):
        self.i = i

    def get_name(self):
        return b"s%d" % self.i


class FakeObserver(object):
    def __init__(self, share):
        self.share = share
        self.cb = None
        self.kw = None
        self.cancelled = False

    def subscribe(self, cb, **kw):
        self.cb = cb
        self.kw = kw

    def cancel(self):
        self.cancelled = True


class FakeShare(object):
    def __init__(self, sid, shnum, server, rtt, log):
        self.sid = sid
        self._shnum = shnum
        self._server = server
        self._dyhb_rtt = rtt
        self._log = log
        self.observers = []

    def get_block(self, segnum):
        o = FakeObserver(self)
        self.observers.append(o)
        self._log.append(("start", self.sid))
        return o

    def is_alive(self):
        return True

    def __repr__(self):
        return "Sh(id%d,sh%d,s%d)" % (self.sid, self._shnum, self._server.i)


class FakeNode(object):
    _si_prefix = b"verif"

    def __init__(self, log):
        self.log = log
        self.num_segments = None

    def get_num_segments(self):
        if self.num_segments is None:
            return (7, False)
        return (self.num_segments, True)

    def want_more_shares(self):
        self.log.append(("want",))

    def process_blocks(self, segnum, blocks):
        self.log.append(("process", [(shnum, blk) for shnum, blk in blocks.items()]))

    def fetch_failed(self, sf, f):
        self.log.append(("failed", f.value.__class__.__name__))


def gen_unit_case(r):
    """A world and a script.  The script is a list of abstract choices; which
    concrete event a choice becomes depends on the fetcher's progress, so the
    driver resolves it while running (drive_unit) and returns the concrete
    events."""
    k = r.choice([1, 2, 2, 3, 3, 3, 4])
    nsh = r.choice([0, 1, 2, 3, 4, 5, 6, 7, 8, 9])
    nsrv = r.choice([1, 2, 3, 5])
    nnum = r.choice([2, 3, 4, 6])
    rtts = r.choice([[1], [1, 2], [1, 2, 3], [5, 1, 3]])
    pgood = r.choice([0.3, 0.6, 0.8, 1.0])
    shares = []
    for i in range(nsh):
        shares.append({"id": i, "num": r.randrange(nnum), "srv": r.randrange(nsrv), "rtt": r.choice(rtts),
                       "good": r.random() < pgood, "overdue": r.random() < 0.3,
                       "bad": r.choice(["CORRUPT", "DEAD", "DEAD", "BADSEGNUM"])})
    weird = r.random() < 0.2
    return {"k": k, "segnum": r.choice([0, 0, 1, 3]), "shares": shares, "weird": weird, "steps": r.choice([10, 25, 60, 60, 120]),
            "seed": r.getrandbits(32)}


def drive_unit(case):
    """Run the real SegmentFetcher on the case.  Returns (events, observation,
    log, info) where events is the concrete event list (for the model) and
    observation the canonical state/output lists."""
    import random
    import allmydata.immutable.downloader.fetcher as F
    from allmydata.immutable.downloader import common as C
    from twisted.python.failure import Failure
    r = random.Random(case["seed"])
    log = []
    queue = []
    node = FakeNode(log)
    servers = {}
    shares = []
    for d in case["shares"]:
        srv = servers.setdefault(d["srv"], FakeServer(d["srv"]))
        shares.append(FakeShare(d["id"], d["num"], srv, d["rtt"], log))
    real_eventually = F.eventually
    F.eventually = lambda f, *a, **kw: queue.append((f, a, kw))
    events = []
    raised = []
    try:
        sf = F.SegmentFetcher(node, case["segnum"], case["k"], None)
        unadded = list(range(len(shares)))
        endbox = {}
        outstanding = {}      # sid -> went overdue already?
        finished = set()
        nomore = False
        state_of = {"COMPLETE": C.COMPLETE, "CORRUPT": C.CORRUPT, "DEAD": C.DEAD, "OVERDUE": C.OVERDUE, "BADSEGNUM": C.BADSEGNUM}

        def do_add(ix):
            events.append(("add", list(ix)))
            try:
                sf.add_shares([shares[i] for i in ix])
            except AttributeError:
                if sf._running:
                    raise

        def do_act(i, st):
            events.append(("act", i, st))
            sh = shares[i]
            try:
                sf._block_request_activity(share=sh, shnum=sh._shnum, state=state_of[st],
                                           block=("blk", sh.sid) if st == "COMPLETE" else None,
                                           f=Failure(RuntimeError("dead")) if st == "DEAD" else None)
            except KeyError:
                if not (st == "OVERDUE" and sf._running):
                    raise

        def do_loop(ns):
            if not queue:
                return
            events.append(("loop", ns))
            node.num_segments = ns
            f, a, kw = queue.pop(0)
            nlog = len(log)
            was_running = sf._running
            f(*a, **kw)
            if was_running and ns is not None and ns <= case["segnum"] and ("failed", "BadSegmentNumberError") not in log[nlog:]:
                endbox.setdefault("badseg_missed", [len(events) - 1, ns, [e for e in log[nlog:] if e[0] != "start"]])
            for ent in log[nlog:]:
                if ent[0] == "start":
                    outstanding[ent[1]] = False
                elif ent[0] in ("process", "failed") and "end" not in endbox:
                    endbox["end"] = len(events)

        steps = 0
        while steps < case["steps"]:
            steps += 1
            x = r.random()
            live = [i for i in outstanding if i not in finished]
            if case["weird"] and x < 0.08:
                # out-of-protocol events
                y = r.random()
                if y < 0.4 and shares:
                    do_act(r.randrange(len(shares)), r.choice(STATES))
                elif y < 0.6 and shares:
                    do_add([r.randrange(len(shares))])
                elif y < 0.8:
                    do_loop(r.choice([0, case["segnum"], case["segnum"] + 1]))
                else:
                    events.append(("nomore",))
                    sf.no_more_shares()
                continue
            if queue and x < 0.45:
                do_loop(r.choice([None, None, case["segnum"] + 1, case["segnum"] + 5]))
            elif unadded and x < 0.65:
                n = r.choice([0, 1, 1, 1, 2, 3, len(unadded)])
                ix = unadded[:n]
                del unadded[:n]
                do_add(ix)
            elif live and x < 0.9:
                i = r.choice(live)
                d = case["shares"][i]
                if d["overdue"] and not outstanding[i] and sf._running and sf._active_share_map.get(d["num"]) is shares[i]:
                    outstanding[i] = True
                    do_act(i, "OVERDUE")
                else:
                    finished.add(i)
                    do_act(i, "COMPLETE" if d["good"] else d["bad"])
            elif not unadded and not nomore and x < 0.97:
                nomore = True
                events.append(("nomore",))
                sf.no_more_shares()
            elif queue:
                do_loop(None)
        complete = False
        if not case["weird"] and r.random() < 0.8:
            # drive to quiescence: the fair completion of the run
            complete = True
            guard = 0
            while guard < 400:
                guard += 1
                live = [i for i in outstanding if i not in finished]
                if queue:
                    do_loop(None)
                elif unadded:
                    ix = unadded[:2]
                    del unadded[:2]
                    do_add(ix)
                elif live and sf._running:
                    i = live[0]
                    finished.add(i)
                    d = case["shares"][i]
                    do_act(i, "COMPLETE" if d["good"] else d["bad"])
                elif not nomore:
                    nomore = True
                    events.append(("nomore",))
                    sf.no_more_shares()
                else:
                    break
        # ---- read the state back --------------------------------------------------
        if sf._running:
            obs = [[s.sid for s in sf._shares],
                   sorted(s.sid for ss in sf._shares_from_server.values() for s in ss),
                   [sf._max_shares_per_server],
                   [v for shnum, s in sf._active_share_map.items() for v in (shnum, s.sid)],
                   sorted(s.sid for ss in sf._overdue_share_map.values() for s in ss),
                   [v for shnum, blk in sf._blocks.items() for v in (shnum, blk[1])],
                   [int(sf._no_more_shares), 1, len(queue)]]
        else:
            obs = [[], [], [sf._max_shares_per_server], [], [],
                   [v for shnum, blk in sf._blocks.items() for v in (shnum, blk[1])],
                   [int(sf._no_more_shares), 0, len(queue)]]
        for ent in log:
            if ent[0] == "start":
                obs.append([0, ent[1]])
            elif ent[0] == "want":
                obs.append([1])
            elif ent[0] == "process":
                obs.append([2] + [v for shnum, blk in ent[1] for v in (shnum, blk[1])])
            else:
                obs.append([3, {"NoSharesError": 0, "NotEnoughSharesError": 1, "BadSegmentNumberError": 2}.get(ent[1], 99)])
        info = {"complete": complete, "nomore": nomore, "added": [i for i in range(len(shares)) if i not in unadded],
                "finished": sorted(finished), "running": sf._running, "end_event": endbox.get("end", len(events)),
                "badseg_missed": endbox.get("badseg_missed")}
        return events, obs, log, info
    finally:
        F.eventually = real_eventually


def share_term(d):
    return "(mk_share %s %s %s %s)" % (T.N(d["id"]), T.N(d["num"]), T.N(d["srv"]), T.N(d["rtt"]))


def event_term(case, e):
    sh = case["shares"]
    if e[0] == "add":
        return "(EAddShares %s)" % T.lst([share_term(sh[i]) for i in e[1]])
    if e[0] == "nomore":
        return "ENoMoreShares"
    if e[0] == "act":
        return "(EActivity %s %s)" % (share_term(sh[e[1]]), e[2])
    return "(ELoop %s)" % T.opt(T.N(e[1]) if e[1] is not None else None)


def lln(obs):
    return T.lst([T.lst([T.N(v) for v in row]) for row in obs])


def unit_oracle(ctx, case, events, log, info):
    """The property's own rule on the observed calls, independent of the model."""
    k = case["k"]
    sh = case["shares"]
    procs = [e for e in log if e[0] == "process"]
    fails = [e for e in log if e[0] == "failed"]
    cj = {"k": k, "segnum": case["segnum"], "shares": sh, "events": events}
    if len(procs) + len(fails) > 1:
        ctx.oracle_fail("fetcher-finished-twice", "SegmentFetcher called process_blocks/fetch_failed %d times" % (len(procs) + len(fails)), case=cj)
    completed = set(e[1] for e in events if e[0] == "act" and e[2] == "COMPLETE")
    for p in procs:
        nums = [shnum for shnum, blk in p[1]]
        if len(set(nums)) < k:
            ctx.oracle_fail("process-blocks-with-fewer-than-k", "process_blocks got blocks of %d distinct share numbers, k=%d" % (len(set(nums)), k),
                            case=cj, expected=k, observed=nums)
        for shnum, blk in p[1]:
            if blk[1] not in completed or sh[blk[1]]["num"] != shnum:
                ctx.oracle_fail("process-blocks-block-not-from-complete", "block for sh%d does not come from a COMPLETE answer of a share with that number" % shnum,
                                case=cj, observed=[shnum, blk[1]])
    if info.get("badseg_missed"):
        ix, ns, seen = info["badseg_missed"]
        ctx.oracle_fail("segment-past-end-not-reported-as-bad-segment-number",
                        "loop() ran with %d segments known (authoritative) while fetching segment %d and did not call fetch_failed(BadSegmentNumberError) "
                        "(Segmentation retries only on that error); it did: %r" % (ns, case["segnum"], seen), case=cj, expected="fetch_failed(BadSegmentNumberError)", observed=seen)
    if case["weird"]:
        return
    # shares still able to supply a block at the moment of the error
    for f in fails:
        if f[1] == "BadSegmentNumberError":
            continue
        if f[1] not in ("NotEnoughSharesError", "NoSharesError"):
            ctx.oracle_fail("fetcher-unexpected-error", "fetch_failed with %s" % f[1], case=cj)
            continue
        # what was known when the error was raised: walk the events up to the loop that raised it
        added, dead, nomore_seen = set(), set(), False
        for e in events[:info["end_event"]]:
            if e[0] == "add":
                added |= set(e[1])
            elif e[0] == "nomore":
                nomore_seen = True
            elif e[0] == "act" and e[2] in ("CORRUPT", "DEAD", "BADSEGNUM"):
                dead.add(e[1])
        alive_nums = set(sh[i]["num"] for i in added - dead)
        if len(alive_nums) >= k:
            ctx.oracle_fail("not-enough-shares-with-k-usable", "%s raised while shares of %d distinct numbers were delivered and had not failed (k=%d)" % (
                f[1], len(alive_nums), k), case=cj, expected="keep fetching", observed=f[1])
        if not nomore_seen:
            ctx.oracle_fail("not-enough-shares-before-no-more-shares", "%s raised although the finder never reported exhaustion" % f[1], case=cj)
    if info["complete"]:
        good_nums = set(d["num"] for d in sh if d["good"])
        if len(good_nums) >= k:
            if not procs:
                ctx.oracle_fail("k-good-shares-but-no-blocks", "fair run with %d distinct good share numbers (k=%d) ended %s" % (
                    len(good_nums), k, ("in " + fails[0][1]) if fails else "with the fetcher still waiting (stuck)"), case=cj,
                    expected="process_blocks", observed=[e for e in log if e[0] != "start"][-3:])
        else:
            if procs:
                ctx.oracle_fail("blocks-with-fewer-than-k-good", "process_blocks although only %d distinct good share numbers exist" % len(good_nums), case=cj)
            elif not fails:
                ctx.oracle_fail("fetcher-stuck-without-enough-shares", "fair run with %d distinct good share numbers (k=%d) ended with the fetcher still waiting" % (
                    len(good_nums), k), case=cj, expected="fetch_failed(NotEnoughSharesError|NoSharesError)")


def unit_cases(ctx):
    ctx.correspondence("segment-fetcher-vs-model")
    n = ctx.n(500, 7000)
    terms, info = [], []
    for i in range(n):
        r = ctx.rng("unit", i)
        case = gen_unit_case(r)
        try:
            events, obs, log, inf = drive_unit(case)
        except Exception as e:   # the fetcher raised out of an entry point
            ctx.oracle_fail("fetcher-raised:" + type(e).__name__, "SegmentFetcher raised %s: %s" % (type(e).__name__, e), case=case)
            continue
        deep = any(e[0] == "act" and e[2] != "COMPLETE" for e in events)
        outcome = "process" if any(e[0] == "process" for e in log) else ("failed" if any(e[0] == "failed" for e in log) else "waiting")
        ctx.case((case["k"], tuple(map(repr, events))) if deep else None, kind="unit:%s%s" % (outcome, ":weird" if case["weird"] else ""))
        unit_oracle(ctx, case, events, log, inf)
        terms.append("lln_eqb (fobs (frun (finit %s %s) %s)) %s" % (
            T.nat(case["k"]), T.N(case["segnum"]), T.lst([event_term(case, e) for e in events]), lln(obs)))
        info.append((case, events, obs))
        if i < 2:
            ctx.sample({"k": case["k"], "shares": case["shares"], "events": events[:40], "observed": obs})
    bad = ctx.coq_check(IMPORTS, terms, tag="c03unit")
    for ix in bad[:20]:
        case, events, obs = info[ix]
        ctx.mismatch("fetcher-model-differs", "SegmentFetcher and Model/Fetcher.v disagree on an event sequence",
                     case={"k": case["k"], "segnum": case["segnum"], "shares": case["shares"], "events": events}, observed=obs,
                     correspondence="segment-fetcher-vs-model")
    ctx.trace(len(terms) - len(bad))


# ---------------------------------------------------------------------------
# unit level: real ShareFinder, fake servers, harness queue and timers
# ---------------------------------------------------------------------------
def drive_finder(case):
    """Run the real ShareFinder.  Returns (events, observation rows)."""
    import random
    import allmydata.immutable.downloader.finder as FI
    from allmydata.immutable.downloader.status import DownloadStatus
    from allmydata import uri
    from twisted.internet import defer
    from twisted.python.failure import Failure
    r = random.Random(case["seed"])
    queue = []
    outs = []
    timers = {}
    sync_failed = []

    class Timer(object):
        def __init__(self, fn, args):
            self.fn, self.args, self.active = fn, args, True

        def cancel(self):
            self.active = False

    class Reactor(object):
        def callLater(self, delay, fn, *args):
            t = Timer(fn, args)
            timers[args[0].server.i] = t
            return t

    class Srv(object):
        def __init__(self, i):
            self.i = i
            self.d = None

        def get_name(self):
            return b"s%d" % self.i

        def get_storage_server(self):
            return self

        def get_buckets(self, si):
            outs.append([0, self.i])
            if self.i in case.get("sync_dead", []):
                # lost connection: callRemote fails at once, the Deferred has already fired
                sync_failed.append(self.i)
                self.d = None
                return defer.fail(RuntimeError("DeadReferenceError"))
            self.d = defer.Deferred()
            return self.d

    class Broker(object):
        def __init__(self, servers):
            self.servers = servers

        def get_servers_for_psi(self, si):
            return list(self.servers)

    class Node(object):
        def get_num_segments(self):
            return (1, False)

        def got_shares(self, shares):
            pass

        def no_more_shares(self):
            pass

    class FShare(object):
        def __init__(self, bucket, server, verifycap, cs, node, ds, shnum, rtt, lp):
            self.shnum, self.server = shnum, server

        def __repr__(self):
            return "FS(%d,%d)" % (self.shnum, self.server.i)

    servers = [Srv(i) for i in case["servers"]]
    by_i = {s.i: s for s in servers}
    vcap = uri.CHKFileVerifierURI(b"\x01" * 16, b"\x02" * 32, 2, 4, 1000)
    node = Node()
    saved = (FI.eventually, FI.reactor, FI.Share)

    def ev(f, *a, **kw):
        name = getattr(f, "__name__", "")
        if name == "loop":
            queue.append((f, a, kw))
        elif name == "got_shares":
            shares = a[0]
            outs.append([1, shares[0].server.i] + [sh.shnum for sh in shares])
        elif name == "no_more_shares":
            outs.append([2])
        else:
            raise AssertionError("unexpected eventual-send %r" % (f,))
    FI.eventually = ev
    FI.reactor = Reactor()
    FI.Share = FShare
    events = []
    try:
        fd = FI.ShareFinder(Broker(servers), vcap, node, DownloadStatus(b"\x00" * 16, 1000), None, max_outstanding_requests=case["max"])
        for _ in range(case["steps"]):
            x = r.random()
            pending = sorted(rt.server.i for rt in fd.pending_requests if by_i[rt.server.i].d is not None)
            armed = sorted(i for i, t in timers.items() if t.active and i in pending and i not in [rt.server.i for rt in fd.overdue_requests])
            if x < 0.18:
                events.append("DHungry")
                fd.hungry()
            elif x < 0.55 and queue:
                events.append("DLoop")
                f, a, kw = queue.pop(0)
                del sync_failed[:]
                f(*a, **kw)
                for i in sync_failed:           # the query failed inside send_request: same as an error answer right away
                    events.append("(DError %d)" % i)
            elif x < 0.80 and pending:
                i = r.choice(pending)
                if r.random() < 0.25:
                    events.append("(DError %d)" % i)
                    by_i[i].d.errback(Failure(RuntimeError("dyhb")))
                else:
                    shn = sorted(case["shares"].get(i, []))
                    events.append("(DResponse %d %s)" % (i, T.lst([T.N(v) for v in shn])))
                    by_i[i].d.callback({n: object() for n in shn})
            elif x < 0.92 and armed:
                i = r.choice(armed)
                events.append("(DOverdue %d)" % i)
                t = timers[i]
                t.active = False
                t.fn(*t.args)
            elif x < 0.94:
                events.append("DStop")
                fd.stop()
                for t in timers.values():
                    pass
        rows = [[s.i for s in servers[len(servers) - _remaining(fd):]] if fd._started else [s.i for s in servers],
                sorted(rt.server.i for rt in fd.pending_requests),
                sorted(rt.server.i for rt in fd.overdue_requests),
                sorted(rt.server.i for rt in fd.overdue_timers),
                [int(fd._hungry), int(fd.running), len(queue)]] + outs
        return events, rows, fd
    finally:
        FI.eventually, FI.reactor, FI.Share = saved


def _remaining(fd):
    """how many servers the finder's iterator still holds (without consuming it)"""
    import copy
    if fd._servers is None:
        return 0
    it = copy.copy(fd._servers)
    return len(list(it))


def finder_cases(ctx):
    ctx.correspondence("share-finder-vs-model")
    n = ctx.n(200, 2500)
    terms, info = [], []
    for i in range(n):
        r = ctx.rng("finder", i)
        nsrv = r.choice([0, 1, 2, 3, 5, 8])
        servers = r.sample(range(20), nsrv)
        shares = {}
        for sv in servers:
            if r.random() < 0.6:
                shares[sv] = sorted(r.sample(range(6), r.choice([1, 1, 2, 3])))
        case = {"servers": servers, "shares": shares, "max": r.choice([1, 2, 3, 10]), "steps": r.choice([10, 30, 60]), "seed": r.getrandbits(32),
                "sync_dead": sorted(sv for sv in servers if r.random() < r.choice([0.0, 0.0, 0.3, 1.0]))}
        try:
            events, rows, fd = drive_finder(case)
        except Exception as e:
            ctx.oracle_fail("finder-raised:" + type(e).__name__, "ShareFinder raised %s: %s" % (type(e).__name__, e), case=case)
            continue
        nomore = any(row == [2] for row in rows[5:])
        ctx.case((tuple(servers), tuple(events)) if any(e.startswith("(DOverdue") or e.startswith("(DError") for e in events) else None,
                 kind="finder:%s" % ("exhausted" if nomore else "searching"))
        # direct oracle: exhaustion is reported only when every server was asked and nothing is in flight
        if nomore:
            asked = set(row[1] for row in rows[5:] if row[0] == 0)
            if asked != set(servers):
                ctx.oracle_fail("no-more-shares-before-all-servers-asked", "no_more_shares although servers %r were never asked" % sorted(set(servers) - asked), case=case)
        # a query whose Deferred has fired is no longer pending (else nothing will ever retire it and exhaustion is never reported)
        stale = [i for i in rows[1] if i in case["sync_dead"]]
        if stale:
            ctx.oracle_fail("finder-keeps-answered-query-pending", "the queries to servers %r failed at once (lost connection) but are still in pending_requests; "
                            "no_more_shares can never be reported" % stale, case=case, observed=rows[:5])
        # a hungry running finder with nothing queued and nothing pending has reported exhaustion
        if fd._hungry and fd.running and rows[4][2] == 0 and not rows[1] and not nomore:
            ctx.oracle_fail("finder-idle-without-answer", "hungry ShareFinder has nothing queued, nothing pending and never reported no_more_shares", case=case,
                            observed=rows[:5])
        if fd._started or not events:
            terms.append("lln_eqb (dobs (drun (dinit %s %s) %s)) %s" % (
                T.lst([T.N(v) for v in servers]), T.nat(case["max"]), T.lst(events), lln(rows)))
            info.append((case, events, rows))
    bad = ctx.coq_check(IMPORTS, terms, tag="c03finder")
    for ix in bad[:20]:
        case, events, rows = info[ix]
        ctx.mismatch("finder-model-differs", "ShareFinder and the finder model of Model/Fetcher.v disagree", case=dict(case, events=events), observed=rows,
                     correspondence="share-finder-vs-model")
    ctx.trace(len(terms) - len(bad))


# ---------------------------------------------------------------------------
# grid: whole downloads against placements, damaged shares, fault plans, schedules
# ---------------------------------------------------------------------------
BAD_KINDS = ["delete", "blocks", "version", "truncate", "read-error"]          # certainly unusable
MAYBE_KINDS = ["ueb", "sharehashes", "blockhashes", "cthashes", "read-error-nth", "corrupt-answer"]   # usable or not, depending on the schedule


CLOCKS = ["real", "real", "real", "frozen", "coarse", "backwards", "jumpy"]


class downloader_clock(object):
    """The downloader modules read the time through a module-level `now`; the harness substitutes it for the reads of
    a case: `frozen` never advances (request and answer in the same tick of a coarse time.time()), `coarse` is the real
    clock quantised to 1/64 s, `backwards` steps back on every call, `jumpy` jumps both ways (seeded).  How the clock
    behaves must not change what a read returns."""

    def __init__(self, mode, seed=0):
        self.mode = mode
        self.seed = seed
        self.saved = []

    def __enter__(self):
        if self.mode == "real":
            return self
        import importlib
        import random
        import time
        state = {"t": 1.7e9, "r": random.Random(self.seed)}

        def now():
            if self.mode == "frozen":
                return state["t"]
            if self.mode == "coarse":
                return int(time.time() * 64) / 64.0
            if self.mode == "backwards":
                state["t"] -= 0.5
                return state["t"]
            state["t"] += state["r"].choice([-3.0, -0.01, 0.0, 0.0, 0.01, 2.0])
            return state["t"]
        for name in ("allmydata.immutable.downloader.share", "allmydata.immutable.downloader.finder", "allmydata.immutable.downloader.node",
                     "allmydata.immutable.downloader.segmentation", "allmydata.immutable.filenode"):
            mod = importlib.import_module(name)
            self.saved.append((mod, mod.now))
            mod.now = now
        return self

    def __exit__(self, *a):
        for mod, old in self.saved:
            mod.now = old
        return False


def gen_grid_case(r):
    k, n = r.choice([(1, 1), (1, 3), (2, 3), (2, 4), (3, 5), (3, 6), (2, 6)])
    servers = r.choice([max(1, n - 2), n, n + 1, n + 3])
    seg = r.choice([k * 16, 64, 96, 4096])
    size = max(56, r.choice([57, seg, seg + 1, 2 * seg + 5, 3 * seg, 250]))      # > 55 bytes: not a literal file
    # placement: instance list of (shnum, server); every share number once, some twice, several per server
    place = []
    crowd = r.random() < 0.4
    for shnum in range(n):
        place.append([shnum, r.randrange(min(2, servers)) if crowd else r.randrange(servers)])
    for _ in range(r.choice([0, 0, 1, 2])):
        shnum = r.randrange(n)
        sv = r.randrange(servers)
        if [shnum, sv] not in place:
            place.append([shnum, sv])
    # fates
    pbad = r.choice([0.0, 0.2, 0.4, 0.6, 0.8])
    fates = []
    for inst in place:
        x = r.random()
        if x < pbad:
            fates.append(r.choice(BAD_KINDS))
        elif x < pbad + 0.15:
            fates.append(r.choice(MAYBE_KINDS))
        elif x < pbad + 0.25:
            fates.append("late")
        else:
            fates.append("good")
    sfates = {}
    for sv in range(servers):
        x = r.random()
        if x < 0.08:
            sfates[sv] = "dyhb-error"
        elif x < 0.14:
            sfates[sv] = "dyhb-late"
        elif x < 0.18:
            sfates[sv] = "dyhb-lost"
        elif x < 0.30:
            sfates[sv] = "dyhb-after-overdue"      # answers, but only after the finder's OVERDUE timer fired
        elif x < 0.36:
            sfates[sv] = "dyhb-sync-error"         # connection lost: get_buckets fails at once (already-failed Deferred)
    return {"k": k, "n": n, "servers": servers, "segsize": seg, "size": size, "place": place, "fates": fates,
            "server_fates": {str(a): b for a, b in sfates.items()}, "nth": r.randrange(0, 5), "seed": r.getrandbits(30),
            "fifo": r.choice(["server", "server", "none"]), "clock": r.choice(CLOCKS)}


def classify(case):
    """per instance: 'good' | 'maybe' | 'bad' (the oracle's reading of the fates)"""
    out = []
    for (shnum, sv), fate in zip(case["place"], case["fates"]):
        sf = case["server_fates"].get(str(sv))
        if sf in ("dyhb-error", "dyhb-lost", "dyhb-sync-error") or fate in BAD_KINDS:
            out.append("bad")
        elif fate in MAYBE_KINDS:
            out.append("maybe")
        else:
            out.append("good")
    return out


def run_c03_grid_case(case):
    import os
    import shutil
    import struct
    from core import grid as G
    from props.segq_common import parse_share
    data = bytes((13 * i + case["size"] + (i >> 4)) & 0xFF for i in range(case["size"]))
    with G.Grid(num_servers=max(case["servers"], case["n"]), k=case["k"], n=case["n"], happy=1, max_segment_size=case["segsize"],
                seed=case["seed"], fifo=case["fifo"], timeout=case.get("timeout", 15)) as g:
        cap = g.run(g.upload(data, convergence=b"c03"))
        # ---- placement: collect the N share files, then put copies where the case wants them
        originals = {}
        for sh in g.find_shares(cap):
            originals[sh.shnum] = g.read_share(sh)
            rel = os.path.relpath(sh.path, g.server(sh.server).sharedir)
            reldir = os.path.dirname(rel)
            g.delete_share(sh)
        for sv in range(case["servers"], max(case["servers"], case["n"])):
            g.remove_server(sv)
        plan = []
        for (shnum, sv), fate in zip(case["place"], case["fates"]):
            raw = originals[shnum]
            p = parse_share(raw)
            d = bytearray(raw)
            body = 12

            def flip(off):
                d[body + off] ^= 0x21
            if fate == "delete":
                continue
            if fate == "blocks":
                nblocks = -(-p["data_size"] // max(1, p["block_size"]))
                for b in range(nblocks):
                    flip(p["o_data"] + min(p["data_size"] - 1, b * p["block_size"] + (b % max(1, p["block_size"]))))
            elif fate == "version":
                d[body:body + 4] = struct.pack(">L", 7)
            elif fate == "truncate":
                d = d[:body + (case["nth"] * 9) % 60]
            elif fate == "ueb":
                flip(len(p["data"]) - 5 if False else (len(raw) - 12 - 72 - 3))
            elif fate == "sharehashes":
                flip(p["o_bh"] + (len(p["data"]) - 0) * 0 + 0 if False else _share_hash_offset(p) + 3)
            elif fate == "blockhashes":
                flip(p["o_bh"] + 1)
            elif fate == "cthashes":
                flip(p["o_ct"] + 1)
            dirpath = os.path.join(g.server(sv).sharedir, reldir)
            os.makedirs(dirpath, exist_ok=True)
            with open(os.path.join(dirpath, str(shnum)), "wb") as f:
                f.write(bytes(d))
            if fate == "read-error":
                plan.append({"server": sv, "method": "read", "shnum": shnum, "nth": 0, "count": None, "action": "error"})
            elif fate == "read-error-nth":
                plan.append({"server": sv, "method": "read", "shnum": shnum, "nth": case["nth"], "count": 1, "action": "error_after"})
            elif fate == "corrupt-answer":
                plan.append({"server": sv, "method": "read", "shnum": shnum, "nth": case["nth"], "count": 1, "action": "corrupt", "how": "flip", "offset": 40 + case["nth"]})
            elif fate == "late":
                plan.append({"server": sv, "method": "read", "shnum": shnum, "nth": 0, "count": 2, "action": "delay"})
        very_late = []
        sync_dead = []
        for sv, sf in case["server_fates"].items():
            if sf == "dyhb-after-overdue":
                very_late.append(int(sv))
                continue
            if sf == "dyhb-sync-error":
                sync_dead.append(int(sv))
                continue
            act = {"dyhb-error": "error", "dyhb-late": "delay", "dyhb-lost": "drop"}[sf]
            plan.append({"server": int(sv), "method": "get_buckets", "nth": 0, "count": None, "action": act})

        def with_late_servers(start):
            # the servers in very_late hold their answers back for 30 s of (warped) time: the finder's
            # OVERDUE_TIMEOUT (10 s) fires first, then the servers answer everything they were asked
            from foolscap.api import eventually
            from twisted.internet import reactor

            def go():
                for sv in very_late:
                    g.hang_server(sv)
                if very_late:
                    # created from an eventual-send so that the grid treats it as a timer of this run
                    eventually(lambda: reactor.callLater(30.0, lambda: [g.unhang_server(sv) for sv in very_late]))
                return start()
            return go
        from props.segq_common import make_dyhb_fail_synchronously
        make_dyhb_fail_synchronously(g, sync_dead)
        with downloader_clock(case.get("clock", "real"), case["seed"]):
            g.set_faults(plan)
            out = g.run(with_late_servers(lambda: g.download(cap)), outcome=True)
            for sv in very_late:
                g.unhang_server(sv)
            # a second read on a fresh node with another schedule
            g.sched.reseed(case["seed"] + 1)
            g.set_faults(plan)
            out2 = g.run(with_late_servers(lambda: g.download_range(cap, 1, case["size"])), outcome=True)
            for sv in very_late:
                g.unhang_server(sv)
    return data, out, out2


def _share_hash_offset(p):
    import struct
    data = p["data"]
    (ver,) = struct.unpack(">L", data[:4])
    if ver == 1:
        return struct.unpack(">L", data[0x1c:0x20])[0]
    return struct.unpack(">Q", data[0x34:0x3c])[0]


def judge_c03_grid_case(ctx, case, data, out, out2):
    cls = classify(case)
    good = set(shnum for (shnum, sv), c in zip(case["place"], cls) if c == "good")
    usable = set(shnum for (shnum, sv), c in zip(case["place"], cls) if c in ("good", "maybe"))
    lost = any(v == "dyhb-lost" for v in case["server_fates"].values())
    k = case["k"]
    expect = "ok" if len(good) >= k else ("error" if len(usable) < k else "either")
    for which, o, want in (("read", out, data), ("second read", out2, data[1:])):
        st = o.status
        ctx.count("grid-outcome:%s:%s" % (expect, st if st != "error" else o.error))
        if case.get("clock", "real") != "real":
            ctx.count("grid-clock:%s:%s:%s" % (case["clock"], expect, st if st != "error" else o.error))
        if lost:
            ctx.count("grid-lost-dyhb(overdue-timer):%s:%s" % (expect, st if st != "error" else o.error))
        if any(v == "dyhb-after-overdue" for v in case["server_fates"].values()):
            ctx.count("grid-answer-after-overdue-timer:%s:%s" % (expect, st if st != "error" else o.error))
        if st in ("hung", "timeout"):
            if lost and expect != "ok" and st == "hung":
                continue      # a server that never answers its DYHB: outside the statement when shares are short
            ctx.oracle_fail("read-never-finished", "%s with %d good / %d usable share numbers (k=%d) is %s" % (which, len(good), len(usable), k, st), case=case,
                            expected=expect, observed=st)
            continue
        if st == "ok":
            if o.value != want:
                ctx.oracle_fail("read-returned-wrong-data", "%s returned %d bytes that differ from the uploaded data" % (which, len(o.value)), case=case,
                                expected=want.hex()[:200], observed=o.value.hex()[:200])
            elif expect == "error":
                ctx.oracle_fail("data-from-fewer-than-k-good-shares", "%s succeeded although only %d share numbers are usable (k=%d)" % (which, len(usable), k), case=case)
        else:
            if expect == "ok":
                ctx.oracle_fail("k-good-shares-but-read-failed", "%s failed with %s although %d distinct good share numbers sit on answering servers (k=%d)" % (
                    which, o.error, len(good), k), case=case, expected="data", observed=str(o.failure.value)[:300] if o.failure else o.error)
            elif o.error not in ("NotEnoughSharesError", "NoSharesError"):
                ctx.oracle_fail("wrong-error-class-for-missing-shares", "%s failed with %s instead of NotEnoughSharesError/NoSharesError" % (which, o.error), case=case,
                                observed=str(o.failure.value)[:300] if o.failure else o.error)
    return cls, expect


def grid_cases(ctx):
    ctx.correspondence("grid-downloads-vs-rule")
    import glob
    import json
    import os
    from core import env
    for path in sorted(glob.glob(os.path.join(env.CORPUS, "C03", "*.json"))):
        if os.path.basename(path).startswith(("idle-", "guess-")):
            continue
        case = json.load(open(path))["case"]
        data, out, out2 = run_c03_grid_case(case)
        cls, expect = judge_c03_grid_case(ctx, case, data, out, out2)
        ctx.case((os.path.basename(path), out.status, out2.status), kind="corpus")
    n = ctx.n(100, 1100)
    for i in range(n):
        r = ctx.rng("grid", i)
        case = gen_grid_case(r)
        try:
            data, out, out2 = run_c03_grid_case(case)
        except Exception as e:
            ctx.mismatch("grid-harness-error", "grid case could not be set up: %s: %s" % (type(e).__name__, e), case=case, correspondence="grid-downloads-vs-rule")
            continue
        cls, expect = judge_c03_grid_case(ctx, case, data, out, out2)
        damaged = any(c != "good" for c in cls) or bool(case["server_fates"])
        ctx.case((case["seed"], tuple(case["fates"])) if damaged else None, kind="grid:expect-%s" % expect)
        if i < 3:
            ctx.sample({"case": case, "classes": cls, "outcome": [out.status, out.error]})
        ctx.trace(1)


# ---------------------------------------------------------------------------
# grid: one cached node, shares reported while it is idle, then a second read
# ---------------------------------------------------------------------------
def gen_idle_case(r):
    k = r.choice([1, 2, 2, 3])
    nlate = r.choice([k, k, k + 1, k + 2])
    n = k + nlate
    order = list(range(n))
    r.shuffle(order)
    fast, late = sorted(order[:k]), sorted(order[k:])
    spoiled = sorted(r.sample(late, r.choice([0, 0, 0, 1]) if nlate > k else 0))     # late shares that are deleted too
    seg = r.choice([k * 16, 64, 4096])
    return {"k": k, "n": n, "fast": fast, "late": late, "spoiled": spoiled, "segsize": seg, "size": max(56, r.choice([60, seg + 3, 3 * seg])),
            "how": r.choice(["hang", "hang", "delay"]), "extra_servers": r.choice([0, 0, 2]), "seed": r.getrandbits(30), "reads": r.choice([[None], [[5, 20], None]]),
            "clock": r.choice(CLOCKS)}


def run_idle_case(case):
    """Read #1 finishes from the k `fast` holders while the `late` holders' DYHB answers are still out; the answers
    arrive while the node is idle; the fast holders' shares disappear; the file is read again through the SAME node."""
    import os
    from core import grid as G
    from allmydata.util.consumer import download_to_data
    n = case["n"]
    data = bytes((3 * i + case["size"] + (i >> 2)) & 0xFF for i in range(case["size"]))
    with G.Grid(num_servers=n + case["extra_servers"], k=case["k"], n=n, happy=1, max_segment_size=case["segsize"], seed=case["seed"], timeout=15) as g:
        cap = g.run(g.upload(data, convergence=b"c03idle"))
        originals, reldir = {}, None
        for sh in g.find_shares(cap):
            originals[sh.shnum] = g.read_share(sh)
            reldir = os.path.dirname(os.path.relpath(sh.path, g.server(sh.server).sharedir))
            g.delete_share(sh)
        for shnum in range(n):                      # share i on server i, nothing elsewhere
            d = os.path.join(g.server(shnum).sharedir, reldir)
            os.makedirs(d, exist_ok=True)
            with open(os.path.join(d, str(shnum)), "wb") as f:
                f.write(originals[shnum])
        node = g.node(cap)
        clk = downloader_clock(case.get("clock", "real"), case["seed"])
        clk.__enter__()
        if case["how"] == "hang":
            for sv in case["late"]:
                g.hang_server(sv)
        else:
            g.set_faults([{"server": sv, "method": "get_buckets", "nth": 0, "count": 1, "action": "delay"} for sv in case["late"]])
        out1 = g.run(download_to_data(node), outcome=True)
        asked = sorted(set(c[2] for c in g.sched.trace if c[3] == "get_buckets") | set(c.server for c in g.sched.lost + g.sched.delayed + g.sched.parked if c.method == "get_buckets"))
        # the late answers arrive now, the node is idle
        for sv in case["late"]:
            g.unhang_server(sv)
        g.pump()
        while g.sched.release_one() or g.sched.deliver_late() or g.sched.deliver_delayed():
            g.pump()
        g.set_faults([])
        # the shares read #1 used are gone (their servers still answer)
        for shnum in case["fast"] + case["spoiled"]:
            g.delete_shares(cap, shnums=[shnum])
        outs = []
        for rd in case["reads"]:
            if rd is None:
                outs.append((None, g.run(download_to_data(node), outcome=True)))
            else:
                outs.append((rd, g.run(download_to_data(node, rd[0], rd[1]), outcome=True)))
        clk.__exit__()
    return data, out1, outs, asked


def judge_idle_case(ctx, case, data, out1, outs, asked):
    k = case["k"]
    if out1.status != "ok" or out1.value != data:
        ctx.oracle_fail("k-good-shares-but-read-failed", "first read through the node failed (%s) although the %d fast holders answer" % (out1.error or out1.status, k), case=case)
        return "first-failed"
    reported_late = [sv for sv in case["late"] if sv in asked and sv not in case["spoiled"]]
    # a late holder that was never asked during read #1 is asked by read #2: it counts as well
    good = [sv for sv in case["late"] if sv not in case["spoiled"]]
    res = "ok"
    for rd, o in outs:
        want = data if rd is None else data[rd[0]:rd[0] + rd[1]]
        if o.status in ("hung", "timeout"):
            ctx.oracle_fail("read-never-finished", "second read through the same node is %s" % o.status, case=case)
            res = o.status
        elif o.status == "ok":
            if o.value != want:
                ctx.oracle_fail("read-returned-wrong-data", "second read through the same node returned wrong bytes", case=case, expected=want.hex()[:200], observed=o.value.hex()[:200])
        elif len(good) >= k:
            ctx.oracle_fail("k-good-shares-but-read-failed",
                            "read #2 through the same node object failed with %s although %d distinct good shares sit on answering servers (k=%d): holders %r reported "
                            "them after read #1 had finished, while the node was idle" % (o.error, len(good), k, reported_late), case=case, expected="data",
                            observed=str(o.failure.value)[:300] if o.failure else o.error)
            res = "failed"
        elif o.error not in ("NotEnoughSharesError", "NoSharesError"):
            ctx.oracle_fail("wrong-error-class-for-missing-shares", "second read failed with %s" % o.error, case=case)
    ctx.count("idle-node:late-answers-while-idle:%d" % len(reported_late))
    return res


def idle_node_cases(ctx):
    ctx.correspondence("grid-downloads-vs-rule")
    import glob
    import json
    import os
    from core import env
    for path in sorted(glob.glob(os.path.join(env.CORPUS, "C03", "idle-*.json"))):
        case = json.load(open(path))["case"]
        res = judge_idle_case(ctx, case, *run_idle_case(case))
        ctx.case((os.path.basename(path), res), kind="corpus")
    n = ctx.n(30, 300)
    for i in range(n):
        r = ctx.rng("idle", i)
        case = gen_idle_case(r)
        try:
            got = run_idle_case(case)
        except Exception as e:
            ctx.mismatch("grid-harness-error", "idle-node case could not be run: %s: %s" % (type(e).__name__, e), case=case, correspondence="grid-downloads-vs-rule")
            continue
        res = judge_idle_case(ctx, case, *got)
        ctx.case((case["seed"], tuple(case["fast"])), kind="grid:idle-node:" + res)
        ctx.trace(1)


# ---------------------------------------------------------------------------
# grid: first read of a fresh node at offset > 0 with a wrong segment-size guess
# ---------------------------------------------------------------------------
def gen_guess_case(r):
    """The node guesses the segment size before it has the UEB (default_max_segment_size, 1 MiB in the code, substituted by
    a small value here so that small files do).  With a guess smaller than the real size the guessed segment number of a
    first read at offset > 0 can be the real number of segments exactly (the first number past the end), one less, or more:
    the fetcher must report BadSegmentNumberError, which Segmentation answers by asking again with the real size."""
    k, n = r.choice([(1, 2), (2, 3), (2, 4), (3, 5)])
    S = r.choice([k * 16, k * 24, 96 // k * k])
    m = r.choice([2, 3, 4])
    size = max(56, S * m - r.choice([0, 1, S // 2, S - 1]))
    nseg = -(-size // S)
    guess_max = r.choice([S // 2, S // 2, S - k, S // 3, S // 4])
    guess = -(-min(size, max(1, guess_max)) // k) * k
    reads = []
    for _ in range(r.choice([2, 3, 4])):
        which = r.choice(["exact", "exact", "exact", "below", "above", "any"])
        seg_guess = {"exact": nseg, "below": nseg - 1, "above": nseg + 1, "any": r.randrange(0, nseg + 3)}[which]
        lo, hi = seg_guess * guess, min(size, (seg_guess + 1) * guess)
        off = r.randrange(lo, hi) if lo < hi else r.randrange(1, size)
        reads.append([off, r.choice([None, 1, 16, S, size])])
    delete = sorted(r.sample(range(n), r.choice([0, 0, n - k])))
    return {"k": k, "n": n, "segsize": S, "size": size, "guess_max": max(1, guess_max), "reads": reads, "delete": delete, "seed": r.getrandbits(30),
            "clock": r.choice(CLOCKS)}


def run_guess_case(case):
    from core import grid as G
    import allmydata.immutable.downloader.node as NODE
    data = bytes((9 * i + case["size"] + (i >> 3)) & 0xFF for i in range(case["size"]))
    outs = []
    saved = NODE.DownloadNode.default_max_segment_size
    with G.Grid(num_servers=case["n"], k=case["k"], n=case["n"], happy=1, max_segment_size=case["segsize"], seed=case["seed"], timeout=15) as g:
        cap = g.run(g.upload(data, convergence=b"c03guess"))
        for shnum in case["delete"]:
            g.delete_shares(cap, shnums=[shnum])
        NODE.DownloadNode.default_max_segment_size = case["guess_max"]
        try:
            with downloader_clock(case.get("clock", "real"), case["seed"]):
                for off, sz in case["reads"]:
                    g.client(0).nodemaker._node_cache.clear()          # a fresh node: nothing known but the cap
                    node = g.node(cap)
                    guessed = off // node._cnode._node.guessed_segment_size if hasattr(node, "_cnode") and node._cnode._node else None
                    outs.append((off, sz, guessed, g.run(g.download_range(cap, off, sz), outcome=True)))
        finally:
            NODE.DownloadNode.default_max_segment_size = saved
    return data, outs


def judge_guess_case(ctx, case, data, outs):
    nseg = -(-case["size"] // case["segsize"])
    res = []
    for off, sz, guessed, o in outs:
        want = data[off:] if sz is None else data[off:off + sz]
        res.append(o.status if o.status != "error" else o.error)
        if o.status in ("hung", "timeout"):
            ctx.oracle_fail("read-never-finished", "first read(%d,%r) of a fresh node is %s" % (off, sz, o.status), case=case)
        elif o.status != "ok":
            ctx.oracle_fail("k-good-shares-but-read-failed",
                            "first read(%d,%r) of a fresh node failed with %s although %d intact shares sit on answering servers (k=%d); the file has %d segments "
                            "of %d bytes, the node guessed a segment size of %d with default_max_segment_size=%d, i.e. asked for segment %d first" % (
                                off, sz, o.error, case["n"] - len(case["delete"]), case["k"], nseg, case["segsize"],
                                -(-min(case["size"], case["guess_max"]) // case["k"]) * case["k"], case["guess_max"],
                                off // (-(-min(case["size"], case["guess_max"]) // case["k"]) * case["k"])),
                            case=case, expected="data", observed=str(o.failure.value)[:300] if o.failure else o.error)
        elif o.value != want:
            ctx.oracle_fail("read-returned-wrong-data", "first read(%d,%r) of a fresh node returned wrong bytes" % (off, sz), case=case,
                            expected=want.hex()[:200], observed=o.value.hex()[:200])
    return res


def guess_cases(ctx):
    ctx.correspondence("grid-downloads-vs-rule")
    import glob
    import json
    import os
    from core import env
    for path in sorted(glob.glob(os.path.join(env.CORPUS, "C03", "guess-*.json"))):
        case = json.load(open(path))["case"]
        res = judge_guess_case(ctx, case, *run_guess_case(case))
        ctx.case((os.path.basename(path), tuple(res)), kind="corpus")
    n = ctx.n(20, 300)
    for i in range(n):
        r = ctx.rng("guess", i)
        case = gen_guess_case(r)
        try:
            data, outs = run_guess_case(case)
        except Exception as e:
            ctx.mismatch("grid-harness-error", "guess case could not be run: %s: %s" % (type(e).__name__, e), case=case, correspondence="grid-downloads-vs-rule")
            continue
        res = judge_guess_case(ctx, case, data, outs)
        ctx.case((case["seed"], tuple(map(tuple, case["reads"]))), kind="grid:wrong-guess:" + ("ok" if all(x == "ok" for x in res) else "failed"))
        ctx.trace(1)


# ---------------------------------------------------------------------------
# grid, forced in every run: UEB lengths around the downloader's speculative 2 KiB read
# ---------------------------------------------------------------------------
UEB_TARGETS_V1 = list(range(2039, 2051)) + [5000]       # the 2048-byte speculative read starts at the 4-byte length field: 2044 bytes of UEB
UEB_TARGETS_V2 = list(range(2035, 2047)) + [5000]       # 8-byte length field: 2040 bytes of UEB


def run_ueb_case(case):
    """case: {"k","n","version": 1|2,"ueb_length": L}.  Uploads a file whose UEB is padded (one extra field, ignored by
    readers) to exactly L bytes on disk, then reads it through fresh nodes with all shares, exactly k, and k-1."""
    from core import grid as G
    from props.segq_common import upload_with_big_ueb, parse_share
    import allmydata.immutable.layout as LAYOUT
    k, n, L = case["k"], case["n"], case["ueb_length"]
    data = bytes((7 * i + L) & 0xFF for i in range(200))
    saved = LAYOUT.WriteBucketProxy
    outs = []
    with G.Grid(num_servers=n, k=k, n=n, happy=1, max_segment_size=64, seed=L, timeout=15) as g:
        try:
            if case["version"] == 2:
                LAYOUT.WriteBucketProxy = LAYOUT.WriteBucketProxy_v2       # upload side only: write v2 shares
            # first upload measures the UEB length for a known padding, the second hits the target exactly
            cap0 = upload_with_big_ueb(g, data, 1700, convergence=b"ueb-probe")
            base = len(parse_share(g.read_share(g.find_shares(cap0)[0]))["ueb"])
            extra = 1700 + (L - base)
            cap = upload_with_big_ueb(g, data, extra, convergence=b"ueb-%d" % L)
        finally:
            LAYOUT.WriteBucketProxy = saved
        shares = g.find_shares(cap)
        p = parse_share(g.read_share(shares[0]))
        on_disk = len(p["ueb"])
        import struct
        version = struct.unpack(">L", p["data"][:4])[0]
        for keep, label in ((n, "all shares"), (k, "exactly k shares"), (k - 1, "k-1 shares")):
            for sh in g.find_shares(cap)[keep:]:
                g.delete_share(sh)
            g.client(0).nodemaker._node_cache.clear()
            outs.append((label, keep, g.run(g.download(cap), outcome=True)))
    return data, on_disk, version, outs


def ueb_boundary_cases(ctx):
    ctx.correspondence("grid-downloads-vs-rule")
    for version, targets in ((1, UEB_TARGETS_V1), (2, UEB_TARGETS_V2)):
        for L in targets:
            case = {"k": 2, "n": 3, "version": version, "ueb_length": L}
            try:
                data, on_disk, ver, outs = run_ueb_case(case)
            except Exception as e:
                ctx.mismatch("grid-harness-error", "UEB case could not be run: %s: %s" % (type(e).__name__, e), case=case, correspondence="grid-downloads-vs-rule")
                continue
            if on_disk != L or ver != version:
                ctx.mismatch("grid-harness-error", "UEB on disk has %d bytes in a v%d share, wanted %d in v%d" % (on_disk, ver, L, version), case=case,
                             correspondence="grid-downloads-vs-rule")
            res = []
            for label, keep, o in outs:
                res.append(o.status if o.status != "error" else o.error)
                where = "file with a %d-byte UEB (v%d shares, k=%d), %s" % (on_disk, ver, case["k"], label)
                if o.status in ("hung", "timeout"):
                    ctx.oracle_fail("read-hangs-with-ueb-length", "read of a %s is %s: every server has answered, the read neither returns nor fails" % (where, o.status),
                                    case=case, expected="data" if keep >= case["k"] else "NotEnoughSharesError", observed=o.status)
                elif keep >= case["k"]:
                    if o.status != "ok":
                        ctx.oracle_fail("k-good-shares-but-read-failed", "read of a %s failed with %s" % (where, o.error), case=case, expected="data",
                                        observed=str(o.failure.value)[:300] if o.failure else o.error)
                    elif o.value != data:
                        ctx.oracle_fail("read-returned-wrong-data", "read of a %s returned wrong bytes" % where, case=case)
                elif o.status == "ok":
                    ctx.oracle_fail("data-from-fewer-than-k-good-shares", "read of a %s succeeded" % where, case=case)
                elif o.error not in ("NotEnoughSharesError", "NoSharesError"):
                    ctx.oracle_fail("wrong-error-class-for-missing-shares", "read of a %s failed with %s" % (where, o.error), case=case)
            ctx.case((version, L, tuple(res)), kind="grid:ueb-length-v%d" % version)
            ctx.trace(1)


def replay(ctx, rec):
    case = rec.get("case") or {}
    if "ueb_length" in case:
        data, on_disk, ver, outs = run_ueb_case(case)
        return {"ueb_on_disk": on_disk, "share_version": ver, "reads": [[label, o.status, o.error] for label, keep, o in outs]}
    if "guess_max" in case:
        data, outs = run_guess_case(case)
        return [[off, sz, guessed, o.status, o.error] for off, sz, guessed, o in outs]
    if "fast" in case and "late" in case:
        data, out1, outs, asked = run_idle_case(case)
        return {"first": [out1.status, out1.error], "later": [[rd, o.status, o.error] for rd, o in outs], "asked_during_first_read": asked}
    if "place" in case:
        data, out, out2 = run_c03_grid_case(case)
        return {"read": [out.status, out.error], "second": [out2.status, out2.error], "classes": classify(case)}
    if "events" in case and "shares" in case and "k" in case:
        return {"note": "unit case: events and shares in the record are the input of frun (finit k segnum)"}
    return {"note": "no single-case replay for this record"}


def run(ctx):
    unit_cases(ctx)
    finder_cases(ctx)
    ueb_boundary_cases(ctx)
    grid_cases(ctx)
    idle_node_cases(ctx)
    guess_cases(ctx)
