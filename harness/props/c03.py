"""C03  Immutable availability with k good shares."""
import os

from core import term as T

ID = "C03"
GEN = []
RULE = ("unit cases: one real SegmentFetcher (k 1..4) driven event by event (add_shares / no_more_shares / block-request activity "
        "COMPLETE|CORRUPT|DEAD|OVERDUE|BADSEGNUM / one queued loop) over <= 9 fake Share objects on <= 5 servers with equal and different "
        "round-trip times, driven to quiescence in most cases, a share of the cases with out-of-protocol events (activity of a share "
        "that is not outstanding, add after stop, a bad segment number); non-trivial = at least one share failed or went overdue; "
        "finder cases: one real ShareFinder over <= 8 servers with answers, errors and overdue timers in random order; "
        "grid cases: N<=6 shares placed on <= N+3 servers (several per server), subsets deleted / corrupted (block data, version "
        "field, truncation, hash trees, UEB) / failing on the nth read, late and lost DYHB answers, schedules by seed; "
        "non-trivial = at least one share bad or one fault planned")
META = {
    "title": "Immutable availability with k good shares",
    "level_text": ("Theorems in Coq over a transition-system model of SegmentFetcher (every entry point an event, arbitrary interleaving): "
                   "blocks handed to the node always come from >= k distinct share numbers, each supplied by a COMPLETE answer; "
                   "NotEnoughShares/NoShares is raised only after no_more_shares and with fewer than k distinct share numbers among "
                   "blocks, active, overdue and unused shares (hence only with fewer than k good ones); every fair run (each outstanding "
                   "request resolves, the finder reports exhaustion, queued loops run) with >= k distinct good share numbers ends in "
                   "process_blocks, proved with a measure.  The model is compared state by state with the real SegmentFetcher (and a "
                   "ShareFinder model with the real ShareFinder) on random event sequences; whole downloads with placements, corruptions, "
                   "fault plans and schedules run on a real in-process grid against the property's own rule."),
    "level_note": ("core (partial): Share (share.py: the per-share read/validate loop) and the hash checks are not modelled, they are "
                   "exercised on the grid only; a share is 'good' when its block request ends in COMPLETE.  A server that never answers a "
                   "block read is outside the statement (the code has no timer for block requests: Share never emits OVERDUE); a lost "
                   "DYHB answer is covered by the finder's overdue timer.  The scheduler orders on the grid are sampled, not proved."),
    "technique": "Coq proofs (invariants over event sequences, measure-based liveness over fair infinite runs) + differential run vs the real classes + grid fault runs",
    "design_ref": "8/C03, A.7",
    "trusted_base": ["fake Share/Node objects of harness/props/c03.py standing in for share.py/node.py at unit level"],
    "assumptions": ["fairness: queued eventual-sends run, every outstanding block request ends in a terminal state, the finder delivers "
                    "every share of the answering servers and then reports exhaustion"],
}
IMPORTS = ["Model.Fetcher"]

STATES = ["COMPLETE", "CORRUPT", "DEAD", "OVERDUE", "BADSEGNUM"]


# ---------------------------------------------------------------------------
# unit level: real SegmentFetcher, fake shares, harness event queue
# ---------------------------------------------------------------------------
class FakeServer(object):
    def __init__(self, i):
        self.i = i

    def get_name(self):
        return b"s%d" % self.i


class FakeObserver(object):
    def __init__(self, share):
        self.share = share
        self.cb = None
        self.kw = None
        self.cancelled = False

    def subscribe(self, cb, **kw):
        self.cb = cb
        self.kw = kw

    def cancel(self):
        self.cancelled = True


class FakeShare(object):
    def __init__(self, sid, shnum, server, rtt, log):
        self.sid = sid
        self._shnum = shnum
        self._server = server
        self._dyhb_rtt = rtt
        self._log = log
        self.observers = []

    def get_block(self, segnum):
        o = FakeObserver(self)
        self.observers.append(o)
        self._log.append(("start", self.sid))
        return o

    def is_alive(self):
        return True

    def __repr__(self):
        return "Sh(id%d,sh%d,s%d)" % (self.sid, self._shnum, self._server.i)


class FakeNode(object):
    _si_prefix = b"verif"

    def __init__(self, log):
        self.log = log
        self.num_segments = None

    def get_num_segments(self):
        if self.num_segments is None:
            return (7, False)
        return (self.num_segments, True)

    def want_more_shares(self):
        self.log.append(("want",))

    def process_blocks(self, segnum, blocks):
        self.log.append(("process", [(shnum, blk) for shnum, blk in blocks.items()]))

    def fetch_failed(self, sf, f):
        self.log.append(("failed", f.value.__class__.__name__))


def gen_unit_case(r):
    """A world and a script.  The script is a list of abstract choices; which
    concrete event a choice becomes depends on the fetcher's progress, so the
    driver resolves it while running (drive_unit) and returns the concrete
    events."""
    k = r.choice([1, 2, 2, 3, 3, 3, 4])
    nsh = r.choice([0, 1, 2, 3, 4, 5, 6, 7, 8, 9])
    nsrv = r.choice([1, 2, 3, 5])
    nnum = r.choice([2, 3, 4, 6])
    rtts = r.choice([[1], [1, 2], [1, 2, 3], [5, 1, 3]])
    pgood = r.choice([0.3, 0.6, 0.8, 1.0])
    shares = []
    for i in range(nsh):
        shares.append({"id": i, "num": r.randrange(nnum), "srv": r.randrange(nsrv), "rtt": r.choice(rtts),
                       "good": r.random() < pgood, "overdue": r.random() < 0.3,
                       "bad": r.choice(["CORRUPT", "DEAD", "DEAD", "BADSEGNUM"])})
    weird = r.random() < 0.2
    return {"k": k, "segnum": r.choice([0, 0, 1, 3]), "shares": shares, "weird": weird, "steps": r.choice([10, 25, 60, 60, 120]),
            "seed": r.getrandbits(32)}


def drive_unit(case):
    """Run the real SegmentFetcher on the case.  Returns (events, observation,
    log, info) where events is the concrete event list (for the model) and
    observation the canonical state/output lists."""
    import random
    import allmydata.immutable.downloader.fetcher as F
    from allmydata.immutable.downloader import common as C
    from twisted.python.failure import Failure
    r = random.Random(case["seed"])
    log = []
    queue = []
    node = FakeNode(log)
    servers = {}
    shares = []
    for d in case["shares"]:
        srv = servers.setdefault(d["srv"], FakeServer(d["srv"]))
        shares.append(FakeShare(d["id"], d["num"], srv, d["rtt"], log))
    real_eventually = F.eventually
    F.eventually = lambda f, *a, **kw: queue.append((f, a, kw))
    events = []
    raised = []
    try:
        sf = F.SegmentFetcher(node, case["segnum"], case["k"], None)
        unadded = list(range(len(shares)))
        endbox = {}
        outstanding = {}      # sid -> went overdue already?
        finished = set()
        nomore = False
        state_of = {"COMPLETE": C.COMPLETE, "CORRUPT": C.CORRUPT, "DEAD": C.DEAD, "OVERDUE": C.OVERDUE, "BADSEGNUM": C.BADSEGNUM}

        def do_add(ix):
            events.append(("add", list(ix)))
            try:
                sf.add_shares([shares[i] for i in ix])
            except AttributeError:
                if sf._running:
                    raise

        def do_act(i, st):
            events.append(("act", i, st))
            sh = shares[i]
            try:
                sf._block_request_activity(share=sh, shnum=sh._shnum, state=state_of[st],
                                           block=("blk", sh.sid) if st == "COMPLETE" else None,
                                           f=Failure(RuntimeError("dead")) if st == "DEAD" else None)
            except KeyError:
                if not (st == "OVERDUE" and sf._running):
                    raise

        def do_loop(ns):
            if not queue:
                return
            events.append(("loop", ns))
            node.num_segments = ns
            f, a, kw = queue.pop(0)
            nlog = len(log)
            f(*a, **kw)
            for ent in log[nlog:]:
                if ent[0] == "start":
                    outstanding[ent[1]] = False
                elif ent[0] in ("process", "failed") and "end" not in endbox:
                    endbox["end"] = len(events)

        steps = 0
        while steps < case["steps"]:
            steps += 1
            x = r.random()
            live = [i for i in outstanding if i not in finished]
            if case["weird"] and x < 0.08:
                # out-of-protocol events
                y = r.random()
                if y < 0.4 and shares:
                    do_act(r.randrange(len(shares)), r.choice(STATES))
                elif y < 0.6 and shares:
                    do_add([r.randrange(len(shares))])
                elif y < 0.8:
                    do_loop(r.choice([0, case["segnum"], case["segnum"] + 1]))
                else:
                    events.append(("nomore",))
                    sf.no_more_shares()
                continue
            if queue and x < 0.45:
                do_loop(r.choice([None, None, case["segnum"] + 1, case["segnum"] + 5]))
            elif unadded and x < 0.65:
                n = r.choice([0, 1, 1, 1, 2, 3, len(unadded)])
                ix = unadded[:n]
                del unadded[:n]
                do_add(ix)
            elif live and x < 0.9:
                i = r.choice(live)
                d = case["shares"][i]
                if d["overdue"] and not outstanding[i] and sf._running and sf._active_share_map.get(d["num"]) is shares[i]:
                    outstanding[i] = True
                    do_act(i, "OVERDUE")
                else:
                    finished.add(i)
                    do_act(i, "COMPLETE" if d["good"] else d["bad"])
            elif not unadded and not nomore and x < 0.97:
                nomore = True
                events.append(("nomore",))
                sf.no_more_shares()
            elif queue:
                do_loop(None)
        complete = False
        if not case["weird"] and r.random() < 0.8:
            # drive to quiescence: the fair completion of the run
            complete = True
            guard = 0
            while guard < 400:
                guard += 1
                live = [i for i in outstanding if i not in finished]
                if queue:
                    do_loop(None)
                elif unadded:
                    ix = unadded[:2]
                    del unadded[:2]
                    do_add(ix)
                elif live and sf._running:
                    i = live[0]
                    finished.add(i)
                    d = case["shares"][i]
                    do_act(i, "COMPLETE" if d["good"] else d["bad"])
                elif not nomore:
                    nomore = True
                    events.append(("nomore",))
                    sf.no_more_shares()
                else:
                    break
        # ---- read the state back --------------------------------------------------
        if sf._running:
            obs = [[s.sid for s in sf._shares],
                   sorted(s.sid for ss in sf._shares_from_server.values() for s in ss),
                   [sf._max_shares_per_server],
                   [v for shnum, s in sf._active_share_map.items() for v in (shnum, s.sid)],
                   sorted(s.sid for ss in sf._overdue_share_map.values() for s in ss),
                   [v for shnum, blk in sf._blocks.items() for v in (shnum, blk[1])],
                   [int(sf._no_more_shares), 1, len(queue)]]
        else:
            obs = [[], [], [sf._max_shares_per_server], [], [],
                   [v for shnum, blk in sf._blocks.items() for v in (shnum, blk[1])],
                   [int(sf._no_more_shares), 0, len(queue)]]
        for ent in log:
            if ent[0] == "start":
                obs.append([0, ent[1]])
            elif ent[0] == "want":
                obs.append([1])
            elif ent[0] == "process":
                obs.append([2] + [v for shnum, blk in ent[1] for v in (shnum, blk[1])])
            else:
                obs.append([3, {"NoSharesError": 0, "NotEnoughSharesError": 1, "BadSegmentNumberError": 2}.get(ent[1], 99)])
        info = {"complete": complete, "nomore": nomore, "added": [i for i in range(len(shares)) if i not in unadded],
                "finished": sorted(finished), "running": sf._running, "end_event": endbox.get("end", len(events))}
        return events, obs, log, info
    finally:
        F.eventually = real_eventually


def share_term(d):
    return "(mk_share %s %s %s %s)" % (T.N(d["id"]), T.N(d["num"]), T.N(d["srv"]), T.N(d["rtt"]))


def event_term(case, e):
    sh = case["shares"]
    if e[0] == "add":
        return "(EAddShares %s)" % T.lst([share_term(sh[i]) for i in e[1]])
    if e[0] == "nomore":
        return "ENoMoreShares"
    if e[0] == "act":
        return "(EActivity %s %s)" % (share_term(sh[e[1]]), e[2])
    return "(ELoop %s)" % T.opt(T.N(e[1]) if e[1] is not None else None)


def lln(obs):
    return T.lst([T.lst([T.N(v) for v in row]) for row in obs])


def unit_oracle(ctx, case, events, log, info):
    """The property's own rule on the observed calls, independent of the model."""
    k = case["k"]
    sh = case["shares"]
    procs = [e for e in log if e[0] == "process"]
    fails = [e for e in log if e[0] == "failed"]
    cj = {"k": k, "segnum": case["segnum"], "shares": sh, "events": events}
    if len(procs) + len(fails) > 1:
        ctx.oracle_fail("fetcher-finished-twice", "SegmentFetcher called process_blocks/fetch_failed %d times" % (len(procs) + len(fails)), case=cj)
    completed = set(e[1] for e in events if e[0] == "act" and e[2] == "COMPLETE")
    for p in procs:
        nums = [shnum for shnum, blk in p[1]]
        if len(set(nums)) < k:
            ctx.oracle_fail("process-blocks-with-fewer-than-k", "process_blocks got blocks of %d distinct share numbers, k=%d" % (len(set(nums)), k),
                            case=cj, expected=k, observed=nums)
        for shnum, blk in p[1]:
            if blk[1] not in completed or sh[blk[1]]["num"] != shnum:
                ctx.oracle_fail("process-blocks-block-not-from-complete", "block for sh%d does not come from a COMPLETE answer of a share with that number" % shnum,
                                case=cj, observed=[shnum, blk[1]])
    if case["weird"]:
        return
    # shares still able to supply a block at the moment of the error
    for f in fails:
        if f[1] == "BadSegmentNumberError":
            continue
        if f[1] not in ("NotEnoughSharesError", "NoSharesError"):
            ctx.oracle_fail("fetcher-unexpected-error", "fetch_failed with %s" % f[1], case=cj)
            continue
        # what was known when the error was raised: walk the events up to the loop that raised it
        added, dead, nomore_seen = set(), set(), False
        for e in events[:info["end_event"]]:
            if e[0] == "add":
                added |= set(e[1])
            elif e[0] == "nomore":
                nomore_seen = True
            elif e[0] == "act" and e[2] in ("CORRUPT", "DEAD", "BADSEGNUM"):
                dead.add(e[1])
        alive_nums = set(sh[i]["num"] for i in added - dead)
        if len(alive_nums) >= k:
            ctx.oracle_fail("not-enough-shares-with-k-usable", "%s raised while shares of %d distinct numbers were delivered and had not failed (k=%d)" % (
                f[1], len(alive_nums), k), case=cj, expected="keep fetching", observed=f[1])
        if not nomore_seen:
            ctx.oracle_fail("not-enough-shares-before-no-more-shares", "%s raised although the finder never reported exhaustion" % f[1], case=cj)
    if info["complete"]:
        good_nums = set(d["num"] for d in sh if d["good"])
        if len(good_nums) >= k:
            if not procs:
                ctx.oracle_fail("k-good-shares-but-no-blocks", "fair run with %d distinct good share numbers (k=%d) ended %s" % (
                    len(good_nums), k, ("in " + fails[0][1]) if fails else "with the fetcher still waiting (stuck)"), case=cj,
                    expected="process_blocks", observed=[e for e in log if e[0] != "start"][-3:])
        else:
            if procs:
                ctx.oracle_fail("blocks-with-fewer-than-k-good", "process_blocks although only %d distinct good share numbers exist" % len(good_nums), case=cj)
            elif not fails:
                ctx.oracle_fail("fetcher-stuck-without-enough-shares", "fair run with %d distinct good share numbers (k=%d) ended with the fetcher still waiting" % (
                    len(good_nums), k), case=cj, expected="fetch_failed(NotEnoughSharesError|NoSharesError)")


def unit_cases(ctx):
    ctx.correspondence("segment-fetcher-vs-model")
    n = ctx.n(700, 7000)
    terms, info = [], []
    for i in range(n):
        r = ctx.rng("unit", i)
        case = gen_unit_case(r)
        try:
            events, obs, log, inf = drive_unit(case)
        except Exception as e:   # the fetcher raised out of an entry point
            ctx.oracle_fail("fetcher-raised:" + type(e).__name__, "SegmentFetcher raised %s: %s" % (type(e).__name__, e), case=case)
            continue
        deep = any(e[0] == "act" and e[2] != "COMPLETE" for e in events)
        outcome = "process" if any(e[0] == "process" for e in log) else ("failed" if any(e[0] == "failed" for e in log) else "waiting")
        ctx.case((case["k"], tuple(map(repr, events))) if deep else None, kind="unit:%s%s" % (outcome, ":weird" if case["weird"] else ""))
        unit_oracle(ctx, case, events, log, inf)
        terms.append("lln_eqb (fobs (frun (finit %s %s) %s)) %s" % (
            T.nat(case["k"]), T.N(case["segnum"]), T.lst([event_term(case, e) for e in events]), lln(obs)))
        info.append((case, events, obs))
        if i < 2:
            ctx.sample({"k": case["k"], "shares": case["shares"], "events": events[:40], "observed": obs})
    bad = ctx.coq_check(IMPORTS, terms, tag="c03unit")
    for ix in bad[:20]:
        case, events, obs = info[ix]
        ctx.mismatch("fetcher-model-differs", "SegmentFetcher and Model/Fetcher.v disagree on an event sequence",
                     case={"k": case["k"], "segnum": case["segnum"], "shares": case["shares"], "events": events}, observed=obs,
                     correspondence="segment-fetcher-vs-model")
    ctx.trace(len(terms) - len(bad))


def run(ctx):
    unit_cases(ctx)
