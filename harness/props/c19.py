"""C19  Directory contents round-trip."""
import json

from core import term as T
from props import dirnode_common as D

ID = "C19"
GEN = ["hashutil"]
RULE = ("cases: one directory each -- a dict of up to 50 children (Unicode names incl. names that change under NFC and "
        "pairs with the same normal form; caps of every kind: CHK/LIT/SSK/MDMF/DIR2*/-RO, alleged ro./imm. prefixes, unknown "
        "future caps in either slot, the x-tahoe-future-test caps, malformed known caps, verify caps, empty caps; nested JSON "
        "metadata) packed by dirnode.pack_children with a random writekey and unpacked by a real DirectoryNode, or packed "
        "for an immutable directory; distinct = distinct (names, caps, metadata, mode); non-trivial = the packer accepted "
        "the children (reached the byte format) or the immutable packer refused a mutable/write-capable child")
META = {
    "title": "Directory contents round-trip",
    "level_text": ("Theorems in Coq over an executable model of pack_children/_pack_normalized_children, _unpack_contents, "
                   "UnknownNode, strip_prefix_for_ro and NodeMaker.create_from_cap: for every dict of children whose nodes the "
                   "node maker reproduces from their own caps, unpack(pack(children)) is the dict {NFC(name): (child, metadata)} "
                   "(all names, caps and metadata, any number of children, any netstring-like bytes in names or metadata); later "
                   "duplicates win; the immutable packer raises MustBeDeepImmutableError on any mutable or write-capable child.  "
                   "The model is run against the real functions on the same inputs (bytes compared exactly), and an independent "
                   "reader of the packed format plus the round-trip statement itself are evaluated on every case."),
    "level_note": ("Hypotheses (validated on every run, not proved): NFC idempotent, json loads.dumps = id, AES-CTR decrypt.encrypt = id; "
                   "the classification of cap strings by uri.py is a parameter (the driver supplies it from its own cap construction, "
                   "without uri.py).  Caps ending in a space, unknown caps whose body again starts with ro./imm., and a bare prefix "
                   "are outside the theorem's predicate (recorded _refuted witnesses; generated in a separate stream where only "
                   "model = implementation is required).  Not modelled: UTF-8 decoding errors, lenient netstring numerals (C38), "
                   "verify caps as children (the packer raises AttributeError on a CiphertextFileNode)."),
    "technique": "Coq proof over an executable model + differential run against dirnode.py/unknown.py/nodemaker.py + independent format reader",
    "design_ref": "8/C19",
    "trusted_base": ["harness/props/dirnode_common.py (own cap construction, netstring/AES/HMAC reader)",
                     "Lib/SHA256.v (validated against hashlib by C17)"],
    "assumptions": ["normalize(normalize x) = normalize x", "json.loads(json.dumps m) = m for metadata dicts",
                    "AES-CTR: decrypt(k, encrypt(k, d)) = d"],
}

IMPORTS = ["Lib.Hex", "Model.Dirnode", "Model.DirnodeLit"]
PREAMBLE = """
Definition view_eqb (a b : smap (node * bytes)) : bool :=
  Nat.eqb (List.length a) (List.length b) &&
  forallb (fun p => list_N_eqb (fst (fst p)) (fst (snd p)) && node_eqb (fst (snd (fst p))) (fst (snd (snd p)))
                    && list_N_eqb (snd (snd (fst p))) (snd (snd (snd p)))) (combine a b).
Definition idc (k d : bytes) : bytes := d.
"""

SIZES = [0, 1, 1, 2, 2, 3, 3, 4, 5, 6, 6, 7, 10, 17, 30, 49, 50]


def dumps_md(md):
    return json.dumps(md).encode("utf-8")


def gen_kids(r, tbl, nkids, outside=False, immutable_bias=False):
    """[(namex, w, ro, label, md)] in dict insertion order (names may repeat / collide after NFC)."""
    kids = []
    for _ in range(nkids):
        namex = D.gen_name(r)
        if outside and r.random() < 0.4:
            w, ro, label = D.gen_outside_caps(r, tbl)
        elif immutable_bias and r.random() < 0.75:
            c = tbl.add(D.gen_imm(r, r.choice(["CHK", "LIT", "DIR2-CHK", "DIR2-LIT"]))) if r.random() < 0.6 else tbl.add(D.gen_other(r))
            pre = b"" if c.cls == "imm" else r.choice([b"", D.RO, D.IMM])
            w, ro, label = None, pre + c.s, ("imm-" + c.label)
        elif r.random() < 0.1:
            w, ro, label = D.gen_edge_whitespace_caps(r, tbl)
        else:
            w, ro, label = D.gen_child_caps(r, tbl, allow_odd=True, known_writecap_in_ro_slot=True)
        md = D.gen_metadata(r) if r.random() < 0.8 else D.gen_json(r) if False else {}
        if r.random() < 0.12:
            # JSON text may carry unpaired surrogates (a surrogate-escaped file name, a web-API body); astral characters too
            odd = r.choice(["caf\udce9.txt", "\ud800", "x\udfffy", "\U0001f600", "\udce9\udce9"])
            if r.random() < 0.5:
                md[odd] = r.choice([1, "v", odd])
            else:
                md[r.choice(["orig-name", "k"])] = r.choice([odd, [odd], {"n": odd}])
        kids.append((namex, w, ro, label, md))
    return kids


def dedupe(kids):
    """The caller's dict: a repeated key keeps its first position and takes the last value."""
    d = {}
    for k in kids:
        d[k[0]] = k
    return list(d.values())


def coq_kids(kids, cls, deep):
    items = []
    for namex, w, ro, label, md in dedupe(kids):
        items.append("(%s, (%s, %s))" % (D.B(namex.encode("utf-8")), D.coq_cfc(cls, deep, w, ro), D.B(dumps_md(md))))
    return "[" + "; ".join(items) + "]"


def coq_norm(kids):
    pairs = []
    seen = set()
    for namex, *_ in kids:
        a, b = namex.encode("utf-8"), D.nfc(namex).encode("utf-8")
        if a != b and a not in seen:
            seen.add(a)
            pairs.append("(%s, %s)" % (D.B(a), D.B(b)))
    return "(normalize_tbl [%s])" % "; ".join(pairs)


def coq_view(children):
    """children: name(str) -> (node, md) as unpacked by the implementation."""
    items = []
    for name in sorted(children, key=lambda s: s.encode("utf-8")):
        n, md = children[name]
        items.append("(%s, (%s, %s))" % (D.B(name.encode("utf-8")), D.coq_node(D.node_obs(n)), D.B(dumps_md(md))))
    return "[" + "; ".join(items) + "]"


def aes_table(writekey, rws):
    items = []
    seen = set()
    for rw in rws:
        key = D.rwcap_key(D.rwcap_salt(rw), writekey)
        if key in seen:
            continue
        seen.add(key)
        items.append("(%s, %s)" % (D.B(key), D.B(D.aes_ctr(key, b"\0" * len(rw)))))
    return "(aes_tbl [%s])" % "; ".join(items)


def final_children(kids, nodes):
    """The dict the packer works on: {NFC(name): (node, md)}, later wins."""
    first = {}
    for (namex, w, ro, label, md), n in zip(kids, nodes):
        first[namex] = (n, md, label)         # the caller's dict: same str key overwritten in place
    out = {}
    for namex, v in first.items():
        out[D.nfc(namex)] = v
    return first, out


def mutable_case(ctx, i, terms, info, outside=False):
    from allmydata import dirnode
    from allmydata.interfaces import CapConstraintError
    r = ctx.rng("outside" if outside else "rt", i)
    tbl = D.CapTable()
    nkids = r.choice(SIZES[:11] if (i < ctx.n(70, 400) or outside) else SIZES)
    kids = gen_kids(r, tbl, nkids, outside=outside)
    nm, store = D.make_nodemaker(r)
    wk, fp = D.rb(r, 16), D.rb(r, 32)
    dn = D.dir_from_writekey(nm, wk, fp, mdmf=r.random() < 0.3)
    dnro = nm.create_from_cap(dn.get_readonly_uri())
    nodes = [nm.create_from_cap(w, ro) for (_, w, ro, _, _) in kids]
    callers, final = final_children(kids, nodes)
    case = {"stream": "outside" if outside else "rt", "index": i,
            "kids": [[k[0], k[1], k[2], k[3], D.canon_json(k[4])] for k in kids], "writekey": wk.hex()}
    # --- implementation
    try:
        packed = dirnode.pack_children({k: (v[0], v[1]) for k, v in callers.items()}, wk, deep_immutable=False)
        perr = None
    except CapConstraintError as e:
        packed, perr = None, e
    except Exception as e:
        ctx.case(None, kind="mutable:packer-raised")
        ctx.oracle_fail("pack-children-raises-on-valid-children", "pack_children raised %s: %s on children and JSON metadata it must store"
                        % (type(e).__name__, str(e)[:200]), case=case, expected="packed bytes", observed=type(e).__name__)
        return
    # --- oracle: error nodes are refused with their own error (first in name order)
    bad = [name for name in sorted(final) if D.node_obs(final[name][0])[4] is not None]
    labels = sorted(set(v[2] for v in final.values()))
    for lb in labels:
        ctx.count("child:" + lb)
    if bad:
        want = final[bad[0]][0].error
        ctx.case(None, kind="mutable:refused-error-node")
        if perr is None or perr is not want:
            ctx.oracle_fail("pack-accepts-error-node", "pack_children packed a child whose node records %s (or raised something else: %r)"
                            % (type(want).__name__, perr), case=case, expected=type(want).__name__, observed=repr(perr))
        exp_pack = "inl %s" % D.coq_derr(type(want).__name__, from_node=True)
    else:
        if perr is not None:
            ctx.oracle_fail("pack-refuses-valid-children", "pack_children raised %r on children without recorded error" % (perr,), case=case)
            return
        ctx.case(("m", tuple((k[0], k[1], k[2], D.canon_json(k[4])) for k in kids)), kind="outside-wf" if outside else "mutable:round-trip")
        exp_pack = None
        children = dn._unpack_contents(packed)
        children_ro = dnro._unpack_contents(packed)
        # the round trip itself
        if set(children) != set(final):
            ctx.oracle_fail("round-trip-names-differ", "names after unpack(pack) differ from the NFC-normalised names",
                            case=case, expected=sorted(final), observed=sorted(children))
        for name in sorted(set(children) & set(final)):
            n0, md0, label = final[name]
            n1, md1 = children[name]
            in_scope = not label.startswith("outside:")
            o0, o1 = D.node_obs(n0), D.node_obs(n1)
            if in_scope and o0 != o1:
                ctx.oracle_fail("round-trip-child-differs", "child %r (%s) comes back as a different node" % (name, label),
                                case=case, expected=o0, observed=o1)
            if md0 != md1 or D.canon_json(md0) != D.canon_json(md1):
                ctx.oracle_fail("round-trip-metadata-differs", "metadata of %r differs after the round trip" % (name,),
                                case=case, expected=D.canon_json(md0), observed=D.canon_json(md1))
            if not in_scope:
                ctx.count("outside-child-changed" if o0 != o1 else "outside-child-unchanged")
            if label.startswith("edge-ws"):
                spec_ = [k for k in kids if D.nfc(k[0]) == name and k[3] == label][-1]
                want_caps = D.expected_edge_caps(spec_[1], spec_[2])
                ro_view = D.node_obs(children_ro[name][0]) if name in children_ro else None
                for what, got_caps in (("as the node maker built it", (o0[1], o0[2])), ("after the round trip through the write cap", (o1[1], o1[2])),
                                       ("after the round trip through the read cap", (want_caps[0] and None, ro_view[2]) if ro_view else (None, None))):
                    exp = want_caps if "read cap" not in what else (None, want_caps[1])
                    if got_caps != exp:
                        ctx.oracle_fail("unknown-cap-bytes-altered", "child %r given as (%r, %r): %s its caps are %r, not byte for byte %r"
                                        % (name, spec_[1], spec_[2], what, got_caps, exp), case=case, expected=exp, observed=got_caps)
                        break
        # independent reading of the bytes
        try:
            entries = D.read_packed(packed, wk)
        except (AssertionError, ValueError) as e:
            ctx.oracle_fail("packed-format", "packed bytes are not the documented format: %s" % (e,), case=case, observed=packed.hex()[:400])
            entries = []
        want_names = sorted(n.encode("utf-8") for n in final)
        if entries and [e[0] for e in entries] != want_names:
            ctx.oracle_fail("packed-format-order", "entries are not the sorted NFC names", case=case,
                            expected=[x.hex() for x in want_names], observed=[e[0].hex() for e in entries])
        for (nameb, rof, rwc, rw, mdb) in entries:
            n0, md0, label = final[nameb.decode("utf-8")]
            o0 = D.node_obs(n0)
            if rw != (o0[1] or b"") or rof != D.strip_prefix_expected(o0[2] or b"", False) or json.loads(mdb) != md0 \
                    or len(rwc) != 48 + len(o0[1] or b""):
                ctx.oracle_fail("packed-format-fields", "entry %r does not hold (name, read cap, E(write cap), json metadata)" % (nameb,),
                                case=case, expected=[o0[1], o0[2]], observed=[rw, rof, mdb])
        if i < 3 and not outside:
            ctx.sample({"names": sorted(final), "kinds": labels, "packed_len": len(packed)})
    # --- model
    if len(kids) <= 4 and i < ctx.n(30, 400):
        cls = tbl.coq()
        rws = [D.node_obs(n)[1] or b"" for n in nodes]
        lets = "let cls := %s in let nrm := %s in let aes := %s in let kids := %s in let wk := %s in " % (
            cls, coq_norm(kids), aes_table(wk, rws), coq_kids(kids, "cls", False), D.B(wk))
        if exp_pack is not None:
            t = lets + "match pack_children nrm bytes dumps_raw aes kids (Some wk) false with inl e => derr_eqb e %s | inr _ => false end" % exp_pack[4:]
        else:
            stab = "true"
            if not outside:
                # the children that end up in the directory (a later name with the same normal form replaces an earlier one)
                stab = "forallb (fun kv => stableb cls (fst (snd kv))) (sm_of_list (map (fun kv => (nrm (fst kv), snd kv)) kids))"
            t = lets + ("match pack_children nrm bytes dumps_raw aes kids (Some wk) false with inl _ => false | inr d => "
                        "list_N_eqb d %s && %s && "
                        "match unpack_contents cls nrm bytes loads_raw aes true true wk d with inr ch => view_eqb (view bytes ch) %s | inl _ => false end && "
                        "match unpack_contents cls nrm bytes loads_raw aes false true [] d with inr ch => view_eqb (view bytes ch) %s | inl _ => false end end"
                        % (D.B(packed), stab, coq_view(children), coq_view(children_ro)))
        terms.append(t)
        info.append(case)


def immutable_case(ctx, i, terms, info):
    from allmydata import dirnode, uri
    from allmydata.interfaces import CapConstraintError, MustBeDeepImmutableError
    r = ctx.rng("imm", i)
    tbl = D.CapTable()
    nkids = r.choice(SIZES[:10])
    kids = gen_kids(r, tbl, nkids, immutable_bias=True)
    nm, store = D.make_nodemaker(r)
    deep_nodes = r.random() < 0.5          # children created for an immutable context, or taken from a mutable one
    nodes = [nm.create_from_cap(w, ro, deep_immutable=deep_nodes) for (_, w, ro, _, _) in kids]
    callers, final = final_children(kids, nodes)
    case = {"stream": "imm", "index": i, "deep_nodes": deep_nodes,
            "kids": [[k[0], k[1], k[2], k[3], D.canon_json(k[4])] for k in kids]}
    try:
        packed = dirnode.pack_children({k: (v[0], v[1]) for k, v in callers.items()}, None, deep_immutable=True)
        perr = None
    except CapConstraintError as e:
        packed, perr = None, e
    except Exception as e:
        ctx.case(None, kind="immutable:packer-raised")
        ctx.oracle_fail("pack-children-raises-on-valid-children", "pack_children(deep_immutable=True) raised %s: %s on children and JSON metadata it must store"
                        % (type(e).__name__, str(e)[:200]), case=case, expected="packed bytes or a CapConstraintError", observed=type(e).__name__)
        return
    obs = {name: D.node_obs(v[0]) for name, v in final.items()}
    # first child (name order) that is an error node, or mutable / write-capable
    first_bad = None
    for name in sorted(final):
        kind, rw, ro, mut, err = obs[name]
        if err is not None:
            first_bad = (name, "error")
            break
        if (kind != "unknown" and mut) or rw:
            first_bad = (name, "mutable-or-writecap")
            break
    if first_bad is None:
        ctx.case(("i", deep_nodes, tuple((k[0], k[1], k[2], D.canon_json(k[4])) for k in kids)), kind="immutable:packed")
        if perr is not None:
            ctx.oracle_fail("immutable-pack-refuses-immutable-children", "immutable packing raised %r although every child is immutable and read-only" % (perr,), case=case)
            return
        exp = None
    else:
        name, why = first_bad
        ctx.case(("i", deep_nodes, tuple((k[0], k[1], k[2], D.canon_json(k[4])) for k in kids)) if why != "error" else None,
                 kind="immutable:refused-" + why)
        if why == "error":
            ok = perr is final[name][0].error
            exp = D.coq_derr(type(final[name][0].error).__name__, from_node=True)
        else:
            ok = isinstance(perr, MustBeDeepImmutableError) and not any(perr is v[0].error for v in final.values() if getattr(v[0], "error", None))
            exp = "EDeepImmutable"
        if not ok:
            ctx.oracle_fail("immutable-dir-stores-mutable-child" if perr is None else "immutable-dir-wrong-refusal",
                            "immutable packing of a directory whose child %r is %s: expected refusal, got %r" % (name, why, perr),
                            case=case, expected=exp, observed=repr(perr))
    children = None
    if perr is None:
        # read it back through an immutable directory node
        fn = nm.create_from_cap(None, uri.LiteralFileURI(b"x").to_string())
        idn = dirnode.DirectoryNode(fn, nm, None)
        children = idn._unpack_contents(packed)
        if set(children) != set(final):
            missing = sorted(set(final) - set(children))
            if missing and set(children) <= set(final) and all(final[m][2] == "future-test" for m in missing):
                # x-tahoe-future-test-* caps (test-only stand-ins for future cap kinds) created outside an immutable
                # context: is_allowed_in_immutable_directory() says yes, the immutable reader rejects and drops them
                ctx.oracle_fail("immutable-dir-stores-future-test-cap-that-reader-drops",
                                "immutable packing stored the test-only cap child(ren) %r which the immutable reader then drops" % (missing,),
                                case=case, expected=sorted(final), observed=sorted(children))
            else:
                ctx.oracle_fail("immutable-round-trip-names-differ", "names differ after the immutable round trip", case=case,
                                expected=sorted(final), observed=sorted(children))
        for name in sorted(set(children) & set(final)):
            o0, o1 = obs[name], D.node_obs(children[name][0])
            # an unknown read cap comes back with the alleged prefix strengthened to imm.
            want_ro = o0[2]
            if o0[0] == "unknown" and want_ro is not None:
                want_ro = D.IMM + D.strip_prefix_expected(D.strip_prefix_expected(want_ro, True), True) if not want_ro.startswith(D.IMM) else want_ro
            if final[name][2].startswith("edge-ws"):
                spec_ = [k for k in kids if D.nfc(k[0]) == name and k[3] == final[name][2]][-1]
                exp = D.expected_edge_caps(spec_[1], spec_[2], immutable_dir=True)
                if (o1[1], o1[2]) != exp:
                    ctx.oracle_fail("unknown-cap-bytes-altered", "child %r given as (%r, %r): after an immutable directory its caps are %r, not byte for byte %r"
                                    % (name, spec_[1], spec_[2], (o1[1], o1[2]), exp), case=case, expected=exp, observed=(o1[1], o1[2]))
            if (o0[0], o0[1], want_ro, o0[3]) != (o1[0], o1[1], o1[2], o1[3]) or o1[4] is not None or children[name][1] != final[name][1]:
                ctx.oracle_fail("immutable-round-trip-child-differs", "child %r differs after the immutable round trip" % (name,),
                                case=case, expected=[o0, final[name][1]], observed=[o1, children[name][1]])
        for (nameb, rof, rwc, rw, mdb) in D.read_packed(packed):
            if rwc != b"":
                ctx.oracle_fail("immutable-dir-has-rwcap-field", "an immutable directory entry carries a write-cap field", case=case, observed=rwc.hex())
    if len(kids) <= 6:
        lets = "let cls := %s in let nrm := %s in let kids := %s in " % (tbl.coq(), coq_norm(kids), coq_kids(kids, "cls", deep_nodes))
        if perr is not None:
            got = "EDeepImmutable" if not any(perr is getattr(v[0], "error", None) for v in final.values()) else D.coq_derr(type(perr).__name__, from_node=True)
            t = lets + "match pack_children nrm bytes dumps_raw idc kids None true with inl e => derr_eqb e %s | inr _ => false end" % got
        else:
            t = lets + ("match pack_children nrm bytes dumps_raw idc kids None true with inl _ => false | inr d => list_N_eqb d %s && "
                        "match unpack_contents cls nrm bytes loads_raw idc false false [] d with inr ch => view_eqb (view bytes ch) %s | inl _ => false end end"
                        % (D.B(packed), coq_view(children)))
        terms.append(t)
        info.append(case)


def blacklist_case(ctx, i, terms, info):
    """A gateway with an access.blacklist wraps the listed children in ProhibitedNode.  What it packs must be exactly what
    a gateway without blacklist packs: the read-cap field holds the read-only form of the child's cap, and the entry
    unpacks (anywhere) to the same (rw, ro) pair."""
    import os
    from allmydata import dirnode
    from allmydata.blacklist import Blacklist, ProhibitedNode
    from core import env
    r = ctx.rng("blacklist", i)
    tbl = D.CapTable()
    nm, store = D.make_nodemaker(r)
    wk, fp = D.rb(r, 16), D.rb(r, 32)
    kids = []
    for _ in range(r.choice([1, 2, 3, 4, 6, 10])):
        roll = r.random()
        if roll < 0.5:
            flav = r.choice(["SSK", "MDMF", "DIR2", "DIR2-MDMF"])
            cw, cr = tbl.add_pair(D.gen_mutable_pair(r, flav))
            w, ro, label = r.choice([(cw.s, None, "rw-" + flav), (cw.s, cr.s, "rw-" + flav), (None, cr.s, "ro-" + flav)])
        elif roll < 0.75:
            flav = r.choice(["CHK", "DIR2-CHK", "LIT"])
            c = tbl.add(D.gen_imm(r, flav))
            w, ro, label = None, c.s, "imm-" + flav
        else:
            w, ro, label = D.gen_child_caps(r, tbl, allow_odd=False)
        kids.append((D.gen_name(r), w, ro, label, D.gen_metadata(r)))
    kids = dedupe(kids)
    plain = [nm.create_from_cap(w, ro) for (_, w, ro, _, _) in kids]
    keep = [k for k, n in zip(kids, plain) if getattr(n, "error", None) is None]
    plain = [n for n in plain if getattr(n, "error", None) is None]
    kids = keep
    sis = [n.get_storage_index() for n in plain]
    listed = sorted(set(si for si in sis if si is not None and r.random() < 0.7))
    path = os.path.join(env.subdir("c19-blacklist"), "access-%d.blacklist" % i)
    with open(path, "wb") as f:
        f.write(b"# storage indexes this gateway refuses to serve\n")
        for si in listed:
            f.write(D.b32(si) + b" prohibited by the operator\n")
    nm_bl, _ = D.make_nodemaker(ctx.rng("blacklist-gw", i), store=store, blacklist=Blacklist(path))
    wrapped = [nm_bl.create_from_cap(w, ro) for (_, w, ro, _, _) in kids]
    nwrapped = len([n for n in wrapped if isinstance(n, ProhibitedNode)])
    case = {"stream": "blacklist", "index": i, "kids": [[k[0], k[1], k[2], k[3]] for k in kids], "blacklisted_storage_indexes": listed, "writekey": wk.hex()}
    ctx.case(("b", tuple((k[0], k[1], k[2]) for k in kids), tuple(listed)) if nwrapped else None, kind="blacklist:%s" % ("wrapped" if nwrapped else "none-listed"))
    for k, n in zip(kids, wrapped):
        if isinstance(n, ProhibitedNode):
            ctx.count("blacklisted-child:" + k[3])
    if nwrapped != len([si for si in sis if si in listed]):
        ctx.note("blacklist case %d: %d children wrapped, %d listed" % (i, nwrapped, len([si for si in sis if si in listed])))
    first_p, final_p = final_children(kids, plain)
    first_b, final_b = final_children(kids, wrapped)
    try:
        packed_plain = dirnode.pack_children({k: (v[0], v[1]) for k, v in first_p.items()}, wk)
        packed_bl = dirnode.pack_children({k: (v[0], v[1]) for k, v in first_b.items()}, wk)
    except Exception as e:
        ctx.oracle_fail("pack-children-raises-on-valid-children", "packing on a gateway with a blacklist raised %s: %s" % (type(e).__name__, e), case=case)
        return
    # every entry: cleartext read-cap field = read-only form of the child's cap, write-cap field decrypts to its write cap
    for (nameb, rof, rwc, rw, mdb) in D.read_packed(packed_bl, wk, strict=False):
        o0 = D.node_obs(final_p[nameb.decode("utf-8")][0])
        if rof != D.strip_prefix_expected(o0[2] or b"", False) or (rw or b"") != (o0[1] or b""):
            ctx.oracle_fail("blacklisted-child-packed-with-wrong-caps",
                            "entry %r packed on a gateway whose blacklist lists the child: read-cap field %r, write cap %r; the child's caps are %r / %r"
                            % (nameb.decode("utf-8", "replace"), rof, rw, o0[2], o0[1]), case=dict(case, entry=nameb),
                            expected=[o0[1], o0[2]], observed=[rw, rof])
    if packed_bl != packed_plain:
        ctx.oracle_fail("packed-bytes-depend-on-blacklist", "the same children pack to different bytes on a gateway with a blacklist", case=case,
                        expected=packed_plain, observed=packed_bl)
    # the entry unpacks, on a gateway without blacklist, to the same (rw, ro) pair -- through the write cap and through the read cap
    dn = D.dir_from_writekey(nm, wk, fp)
    dnro = nm.create_from_cap(dn.get_readonly_uri())
    for view_name, d_ in (("write cap", dn), ("read cap", dnro)):
        got = d_._unpack_contents(packed_bl)
        for name, (n0, md0, label) in final_p.items():
            o0 = D.node_obs(n0)
            want_rw = o0[1] if view_name == "write cap" else None
            if name not in got:
                ctx.oracle_fail("blacklisted-child-lost", "child %r packed on a blacklisting gateway is missing when unpacked through the %s" % (name, view_name), case=case)
                continue
            o1 = D.node_obs(got[name][0])
            if o0[0] != "unknown" and (o1[1], o1[2]) != (want_rw, o0[2]):
                ctx.oracle_fail("blacklisted-child-unpacks-to-other-caps", "child %r packed on a blacklisting gateway unpacks (through the %s) to %r / %r instead of %r / %r"
                                % (name, view_name, o1[1], o1[2], want_rw, o0[2]), case=dict(case, name=name), expected=[want_rw, o0[2]], observed=[o1[1], o1[2]])
    # the blacklisting gateway itself sees the same caps behind its wrappers
    dn_bl = nm_bl.create_from_cap(dn.get_uri())
    for name, (n1, md1) in dn_bl._unpack_contents(packed_bl).items():
        o0 = D.node_obs(final_p[name][0])
        if o0[0] != "unknown" and (n1.get_write_uri(), n1.get_readonly_uri()) != (o0[1], o0[2]):
            ctx.oracle_fail("blacklisted-child-unpacks-to-other-caps", "child %r read back on the blacklisting gateway reports %r / %r" % (name, n1.get_write_uri(), n1.get_readonly_uri()),
                            case=dict(case, name=name), expected=[o0[1], o0[2]], observed=[n1.get_write_uri(), n1.get_readonly_uri()])
    # ---- model: a blacklist wrapper is transparent to the packer
    if len(kids) <= 3 and i < ctx.n(6, 150):
        rws = [D.node_obs(n)[1] or b"" for n in plain]
        t = ("let cls := %s in let nrm := %s in let aes := %s in let kids := %s in "
             "match pack_children nrm bytes dumps_raw aes kids (Some %s) false with inl _ => false | inr d => list_N_eqb d %s end"
             % (tbl.coq(), coq_norm(kids), aes_table(wk, rws), coq_kids(kids, "cls", False), D.B(wk), D.B(packed_bl)))
        terms.append(t)
        info.append(case)


LEGACY_NAMES = ["e\u0301", "cafe\u0301.txt", "\u212b", "A\u030a", "\u00c5", "\u1112\u1161\u11ab", "\ud55c", "a\u0301\u0323", "q\u0307\u0323",
                "n\u0303o", "\u00f1o", "\u2126", "\uf900", "o\u0323\u0308", "plain", "x", "\u0958", "\u1100\u1161"]


def legacy_case(ctx, i, terms, info):
    """A directory as an older or foreign writer left it: entries assembled byte by byte (own netstrings, own AES/HMAC),
    in any order, with names that are NOT in NFC.  _unpack_contents must hand out NFC names, and the children must be
    reachable through the API and the modifiers by their NFC names."""
    r = ctx.rng("legacy", i)
    tbl = D.CapTable()
    nm, store = D.make_nodemaker(r)
    wk, fp = D.rb(r, 16), D.rb(r, 32)
    dn = D.dir_from_writekey(nm, wk, fp, mdmf=r.random() < 0.3)
    dnro = nm.create_from_cap(dn.get_readonly_uri())
    names = r.sample(LEGACY_NAMES, r.choice([1, 2, 3, 4, 5]))
    r.shuffle(names)
    entries = []
    spec = []
    for namex in names:
        for _ in range(20):
            w, ro, label = D.gen_child_caps(r, tbl, allow_odd=False)
            n = nm.create_from_cap(w, ro)
            if getattr(n, "error", None) is None:
                break
        obs = D.node_obs(n)
        rw, rof = obs[1] or b"", D.strip_prefix_expected(obs[2] or b"", False)
        md = D.gen_metadata(r, ascii_only=True, allow_tahoe=False)     # a non-dict 'tahoe' entry makes update_metadata raise TypeError
        md.pop("no-write", None)
        if r.random() < 0.3:
            md["tahoe"] = {"linkcrtime": 3, "linkmotime": 4}
        salt = D.rwcap_salt(rw)
        key = D.rwcap_key(salt, wk)
        ct = D.aes_ctr(key, rw)
        rwc = salt + ct + D.hmac_sha256_tahoe(key, salt + ct)
        entries.append(D.ns(D.ns(namex.encode("utf-8")) + D.ns(rof) + D.ns(rwc) + D.ns(dumps_md(md))))
        spec.append((namex, obs, md, w, ro, key, rw))
    data = b"".join(entries)
    store[dn._node.get_storage_index()] = data
    want = {}
    for namex, obs, md, w, ro, key, rw in spec:
        want[D.nfc(namex)] = (obs, md)                 # stored order, the later entry wins
    case = {"stream": "legacy", "index": i, "stored_names": names, "data": data}
    changed = [n for n in names if D.nfc(n) != n]
    ctx.case(("l", tuple(names), data) if changed else None, kind="legacy:%d-entries" % len(names))
    ctx.count("legacy-names-not-nfc", len(changed))
    children = D.fire(dn.list())
    children_ro = dnro._unpack_contents(data)
    for view_name, ch in (("write cap", children), ("read cap", children_ro)):
        not_nfc = [n for n in ch if D.nfc(n) != n]
        if not_nfc:
            ctx.oracle_fail("legacy-unpack-name-not-normalized", "unpacking (through the %s) a stored directory whose names are not NFC "
                            "hands out the raw name(s) %r" % (view_name, not_nfc), case=case, expected=sorted(want), observed=sorted(ch))
        elif set(ch) != set(want):
            ctx.oracle_fail("legacy-unpack-names-differ", "names of a legacy directory (through the %s) are not the NFC forms of the stored names" % view_name,
                            case=case, expected=sorted(want), observed=sorted(ch))
    for name in sorted(set(children) & set(want)):
        o1 = D.node_obs(children[name][0])
        if o1 != want[name][0] or children[name][1] != want[name][1]:
            ctx.oracle_fail("legacy-unpack-child-differs", "child %r of a legacy directory is not the stored (later) entry" % (name,), case=case,
                            expected=want[name], observed=[o1, children[name][1]])
    # ---- model: the same bytes through the model's reader (NFC supplied as a table)
    if i < ctx.n(12, 200):
        nrm = "(normalize_tbl [%s])" % "; ".join("(%s, %s)" % (D.B(n.encode("utf-8")), D.B(D.nfc(n).encode("utf-8"))) for n in names if D.nfc(n) != n)
        used = set()
        for s_ in spec:
            used.update(x for x in (s_[3], s_[4]) if x)
        aes = "(aes_tbl [%s])" % "; ".join("(%s, %s)" % (D.B(k), D.B(D.aes_ctr(k, b"\0" * len(rw)))) for k, rw in {s_[5]: s_[6] for s_ in spec}.items())
        t = ("let cls := %s in let nrm := %s in let aes := %s in "
             "match unpack_contents cls nrm bytes loads_raw aes true true %s %s with inr ch => view_eqb (view bytes ch) %s | inl _ => false end && "
             "match unpack_contents cls nrm bytes loads_raw aes false true [] %s with inr ch => view_eqb (view bytes ch) %s | inl _ => false end"
             % (tbl.coq(used), nrm, aes, D.B(wk), D.B(data), coq_view(children), D.B(data), coq_view(children_ro)))
        terms.append(t)
        info.append(case)
    # ---- the children are reachable by their NFC names: get, set_metadata_for, delete
    for name in sorted(want):
        got = D.outcome(D_call(lambda: dn.get(name)))
        if got[0] != "ok" or D.node_obs(got[1]) != want[name][0]:
            ctx.oracle_fail("legacy-child-not-reachable-by-nfc-name", "get(%r) on a legacy directory: %r" % (name, got[1] if got[0] == "err" else "a different node"),
                            case=dict(case, name=name, op="get"), expected=want[name][0], observed=repr(got[1]))
            continue
        res = D.outcome(D_call(lambda: dn.set_metadata_for(name, {"k": 1})))
        md_after = D.fire(dn.list()).get(name, (None, {}))[1]
        if res[0] != "ok" or md_after.get("k") != 1:
            ctx.oracle_fail("legacy-child-not-reachable-by-nfc-name", "set_metadata_for(%r) on a legacy directory: %r" % (name, res[1]),
                            case=dict(case, name=name, op="set_metadata_for"), expected="metadata set", observed=repr(res[1]))
        res = D.outcome(D_call(lambda: dn.delete(name)))
        left = D.fire(dn.list())
        if res[0] != "ok" or name in left or any(D.nfc(x) == name for x in left):
            ctx.oracle_fail("legacy-child-not-reachable-by-nfc-name", "delete(%r) on a legacy directory: %r, still listed: %r" % (name, res[1], sorted(left)),
                            case=dict(case, name=name, op="delete"), expected="entry removed", observed=repr(res[1]))


def D_call(f):
    from twisted.internet import defer
    return defer.maybeDeferred(f)


def refuted_witnesses(ctx):
    """The recorded examples of Props/C19.v on the implementation: they must still behave as recorded."""
    from allmydata import dirnode
    import random
    nm, store = D.make_nodemaker(random.Random(1))
    wk = b"k" * 16
    dn = D.dir_from_writekey(nm, wk, b"f" * 32)
    for ro, want in ((b"foo ", b"ro.foo"), (b"ro.ro.foo", b"ro.foo")):
        n = nm.create_from_cap(None, ro)
        packed = dirnode.pack_children({"a": (n, {})}, wk)
        back = dn._unpack_contents(packed)["a"][0].get_readonly_uri()
        ctx.case(None, kind="recorded-example")
        if n.error is not None or back != want or back == n.get_readonly_uri():
            ctx.mismatch("recorded-example-changed", "the recorded example %r no longer behaves as Props/C19.v records (comes back as %r)" % (ro, back),
                         case={"ro": ro}, expected=want, observed=back, correspondence="recorded-refuted-examples")


def hypotheses(ctx):
    """The external behaviour the theorems assume, on this run's inputs."""
    from allmydata.crypto import aes
    from allmydata.util import jsonbytes
    from allmydata.util.encodingutil import normalize
    r = ctx.rng("hyp")
    bad = []
    for _ in range(ctx.n(300, 3000)):
        name = D.gen_name(r)
        if normalize(normalize(name)) != normalize(name) or normalize(name) != D.nfc(name):
            bad.append(("normalize", name))
        md = D.gen_metadata(r)
        if jsonbytes.loads(jsonbytes.dumps(md)) != md or jsonbytes.dumps(md) != json.dumps(md):
            bad.append(("json", md))
        key, data = D.rb(r, 16), D.rb(r, r.choice([0, 1, 15, 16, 17, 90]))
        ct = aes.encrypt_data(aes.create_encryptor(key), data)
        if aes.decrypt_data(aes.create_decryptor(key), ct) != data or len(ct) != len(data) or ct != D.aes_ctr(key, data):
            bad.append(("aes", key.hex(), data.hex()))
        ctx.case(None, kind="hypothesis-sample")
    if bad:
        ctx.mismatch("assumed-external-behaviour", "an assumption of the theorems fails on the real library: %r" % (bad[0],),
                     case={"first": repr(bad[0]), "count": len(bad)}, correspondence="assumed-external-behaviour")


def run(ctx):
    ctx.correspondence("assumed-external-behaviour")
    hypotheses(ctx)
    ctx.correspondence("pack-unpack-model-vs-dirnode")
    ctx.correspondence("immutable-pack-model-vs-dirnode")
    ctx.correspondence("recorded-refuted-examples")
    ctx.correspondence("legacy-unpack-model-vs-dirnode")
    ctx.correspondence("blacklist-gateway-pack-model-vs-dirnode")
    terms, info = [], []
    for i in range(ctx.n(220, 2500)):
        mutable_case(ctx, i, terms, info)
    for i in range(ctx.n(14, 160)):
        mutable_case(ctx, i, terms, info, outside=True)
    nmut = len(terms)
    for i in range(ctx.n(90, 900)):
        immutable_case(ctx, i, terms, info)
    nimm = len(terms)
    for i in range(ctx.n(45, 600)):
        legacy_case(ctx, i, terms, info)
    nleg = len(terms)
    for i in range(ctx.n(45, 600)):
        blacklist_case(ctx, i, terms, info)
    refuted_witnesses(ctx)
    bad = ctx.coq_check(IMPORTS, terms, preamble=PREAMBLE, tag="c19", shard=max(18, (len(terms) + 6) // 7))
    for ix in bad:
        corr = "pack-unpack-model-vs-dirnode" if ix < nmut else ("immutable-pack-model-vs-dirnode" if ix < nimm else ("legacy-unpack-model-vs-dirnode" if ix < nleg else "blacklist-gateway-pack-model-vs-dirnode"))
        ctx.mismatch("model-vs-impl:" + info[ix]["stream"], "Coq model of pack/unpack and dirnode.py differ on this directory",
                     case=info[ix], correspondence=corr)
    ctx.trace(len(terms) - len(bad))
    ctx.note("%d directories compared with the Coq model byte for byte (<= 6 children each; <= 4 in writeable directories)" % len(terms))


def replay(ctx, rec):
    case = rec.get("case") or {}
    terms, info = [], []
    stream, i = case.get("stream"), case.get("index")
    if stream in ("rt", "outside"):
        mutable_case(ctx, i, terms, info, outside=(stream == "outside"))
    elif stream == "imm":
        immutable_case(ctx, i, terms, info)
    elif stream == "legacy":
        legacy_case(ctx, i, terms, info)
    elif stream == "blacklist":
        blacklist_case(ctx, i, terms, info)
    else:
        return {"note": "record carries no generated case"}
    bad = ctx.coq_check(IMPORTS, terms, preamble=PREAMBLE, tag="c19replay")
    for ix in bad:
        ctx.mismatch("model-vs-impl:" + stream, "Coq model and dirnode.py differ", case=info[ix])
    return {"re-executed": case.get("stream"), "index": i, "failures": len(ctx.failures)}
