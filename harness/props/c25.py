"""C25  Lease semantics."""
import os

from core import term as T
from props import mutshared as M

ID = "C25"
GEN = ["hashutil", "mutconsts"]
RULE = ("case = one lease-affecting operation (add_lease, renew_lease, a read-test-write with lease renewal, a direct "
        "add_or_renew_lease / renew_lease call with a chosen expiry) inside a seeded history over mutable (v1, v2) or immutable "
        "(v1, v2) shares of a real StorageServer with a manual clock; distinct = distinct (lease tables of the shares before, "
        "operation); non-trivial = the share(s) hold at least one lease before the operation and the operation renews, refuses to "
        "backdate, adds next to existing leases, or is refused")
META = {
    "title": "Lease semantics",
    "level_text": ("Theorems in Coq about byte-level models of the lease methods of MutableShareFile (four header slots + extra "
                   "leases) and ShareFile (lease list after the data), for v1 (cleartext) and v2 (hashed) containers with blake2b "
                   "an arbitrary function: adding a lease whose renew secret is known renews the first matching lease in place "
                   "(expiry max(old,new)) and adds nothing; no lease operation removes a lease or lowers an expiry; renewing with an "
                   "unknown secret raises IndexError and leaves the file byte-identical; data writes and container growth leave "
                   "every lease record intact; cancel_lease removes exactly the matching leases in place and leaves later slots enumerable; on v2 containers the resulting file and every decision depend on the secrets only "
                   "through their hashes.  The models are run against the real files (all bytes compared) on generated histories "
                   "and the statement is evaluated on the server by an independent lease-table oracle."),
    "level_note": ("blake2b is abstract in the theorems; in the correspondence runs it is instantiated by the table of digests the "
                   "implementation computed.  Trusted: hand transcription of lease.py, lease_schema.py and the lease methods of "
                   "immutable.py / mutable.py / server.py into Model/Lease.v and Model/Slot.v (tied by the correspondence), "
                   "timing_safe_compare = equality, integral clock.  MutableShareFile.cancel_lease (lease-expiry crawler) is modelled and run in "
                   "histories that cancel older leases and then renew/add/enumerate the later ones; ShareFile.cancel_lease is not. "
                   "StorageServer.renew_lease over several shares is not atomic across shares (it stops at the first share without "
                   "the lease); the statement is per share and the model takes the os.listdir order as an input."),
    "technique": "Coq proof over executable byte-level models + differential run vs real share files + direct oracle",
    "design_ref": "8/C25",
    "trusted_base": ["harness/translate/mutconsts.py (struct formats, sizes, DEFAULT_RENEWAL_TIME)", "Model/Lease.v, Model/Slot.v transcriptions"],
    "assumptions": ["timing_safe_compare(a, b) behaves as a == b", "the storage server's clock returns integers (the harness uses twisted Clock with integral advances)"],
}

WE = bytes([0x57]) * 32
RENEWAL = 31 * 24 * 60 * 60


def version_of(raw):
    """schema version of a share file, read independently of the implementation"""
    if raw[:5] == b"Tahoe":
        return ("mutable", 1 if raw[25:26] == b"1" else 2)
    return ("immutable", int.from_bytes(raw[:4], "big"))


def table_of(fn, kind):
    """lease table through the public API: [(renew key, expiry)] in file order"""
    leases = M.mutable_leases(fn) if kind == "mutable" else M.immutable_leases(fn)
    return [(l[2], l[1]) for l in leases]


def expect_add_or_renew(table, key, expiry):
    """the statement: a known renew secret renews (never shortening), an unknown one adds"""
    for k, (kk, e) in enumerate(table):
        if kk == key:
            return table[:k] + [(kk, max(e, expiry))] + table[k + 1:], "renew" if expiry > e else "no-backdate"
    return table + [(key, expiry)], "add"


def check_tables(ctx, what, case, share, before, want, got, raw, secrets_used, version):
    """compare one share's lease table with the expectation; classify the difference"""
    ok = True
    if sorted(got) != sorted(want):
        ok = False
        keys_w = [k for k, _ in want]
        keys_g = [k for k, _ in got]
        if any(keys_g.count(k) > keys_w.count(k) for k in set(keys_g)):
            kind = "lease-duplicate-on-known-secret"
        elif any(dict(got).get(k, -1) < e for k, e in before):
            kind = "lease-expiry-shortened-or-lease-lost"
        else:
            kind = "lease-table-differs"
        ctx.oracle_fail(kind, "%s: share %s holds leases %r, the statement gives %r" % (what, share, got, want),
                        case=case, expected=repr(want), observed=repr(got))
    if version[1] == 2:
        for s in secrets_used:
            if s in raw:
                ok = False
                ctx.oracle_fail("lease-cleartext-secret-in-v2-container", "%s: a lease secret is stored in cleartext in a v2 %s container (share %s)" % (what, version[0], share),
                                case=case, expected="hashed secrets only", observed=s.hex())
    return ok


# ---------------------------------------------------------------------------
# (a)/(b): histories through the StorageServer API
# ---------------------------------------------------------------------------
def setup_bucket(ctx, ss, si, r, immutable):
    from allmydata.storage.immutable import ShareFile
    from allmydata.storage.lease import LeaseInfo
    from allmydata.storage.mutable import MutableShareFile
    d = M.bucket_dir(ss, si)
    if immutable:
        os.makedirs(d, exist_ok=True)
        for n in r.sample(range(3), r.choice([1, 1, 2])):
            size = r.choice([0, 1, 17, 60])
            fn = os.path.join(d, "%d" % n)
            sf = ShareFile(fn, max_size=size, create=True, schema=M.immutable_schema(r.choice([1, 2])))
            sf.write_share_data(0, M.rb(r, size))
            for k in range(r.choice([1, 1, 2, 3])):
                sf.add_lease(LeaseInfo(1, M.secret(r.choice([0, 1, 2, 30 + k])), M.secret(50 + k), 1000000 + r.randint(0, 3 * RENEWAL), M.NODEID))
    elif r.random() < 0.6:
        for n in r.sample(range(3), r.choice([1, 2])):
            fn = M.create_mutable(ss, si, n, WE, version=r.choice([1, 2]))
            sf = MutableShareFile(fn, ss)
            for k in range(r.choice([0, 1, 3, 4, 5, 6])):
                sf.add_lease(1 << 40, LeaseInfo(1, M.secret(r.choice([0, 1, 30 + k])), M.secret(50 + k), 1000000 + r.randint(0, 3 * RENEWAL), M.NODEID))


def api_history(ctx, ss, clock, i, immutable):
    r = ctx.rng("imm" if immutable else "mut", i)
    si = bytes([0x25, 1 if immutable else 0, i & 0xff, (i >> 8) & 0xff]) + b"\x00" * 12
    setup_bucket(ctx, ss, si, r, immutable)
    d = M.bucket_dir(ss, si)
    files0 = M.read_bucket(ss, si)
    now0 = int(clock.seconds())
    secrets_used = {M.secret(k) for k in list(range(0, 8)) + list(range(30, 40)) + list(range(50, 60))}
    ops, results = [], []
    forced = []
    for step in range(r.randint(4, 10)):
        pre_files = M.read_bucket(ss, si)
        kinds = {n: version_of(raw) for n, raw in pre_files.items()}
        before = {n: table_of(os.path.join(d, "%d" % n), kinds[n][0]) for n in pre_files}
        c = r.random()
        rs = M.secret(r.choice([0, 0, 1, 1, 2, 3, 4]))
        cs = M.secret(10 + r.randint(0, 2))
        if c < 0.15:
            op = ("tick", r.choice([1, 60, 86400, 10 * 86400, RENEWAL]))
        elif c < 0.45:
            op = ("add", rs, cs)
        elif c < 0.70:
            op = ("renew", rs)
        elif not immutable:
            tw = {}
            for n in r.sample(range(3), r.choice([1, 1, 2])):
                cur = len(pre_files.get(n, b"")) and 50
                tw[n] = ([], M.gen_datav(r, cur, 1500), r.choice([None, None, None, 0, 40, 700]))
            op = ("tw", (WE, rs, cs), tw, [], r.random() < 0.85)
        else:
            # an uploader / repairer asks for some share numbers: mostly a proper subset of the held
            # ones (e.g. {2,3} of {0,1,2,3}), sometimes all, none, or numbers the server does not hold
            held = sorted(pre_files)
            sub = r.sample(held, r.randint(0, max(0, len(held) - 1))) if r.random() < 0.75 else list(held)
            if r.random() < 0.3:
                sub.append(r.choice([3, 4, 5]))
            op = ("alloc", rs, cs, sorted(set(sub)))
            if r.random() < 0.5:            # the clock moves forward first, so that a renewal is visible
                forced.append(op)
                op = ("tick", r.choice([3600, 86400, 10 * 86400]))
        if forced:
            op = forced.pop(0)
        op = M.with_order(ss, si, op)
        now = int(clock.seconds())
        res = M.run_sop(ss, clock, si, op)
        ops.append(op)
        results.append(res)
        if op[0] == "tick":
            continue
        post_files = M.read_bucket(ss, si)
        case = {"history": i, "immutable": immutable, "step": step, "op": repr(op)[:900], "now": now,
                "before": {str(n): repr(t) for n, t in before.items()}}
        expiry = now + RENEWAL
        deep = None
        label = op[0]
        if op[0] == "add":
            if res != ("ok", None):
                ctx.oracle_fail("lease-add-raised", "add_lease raised %r" % (res,), case=case, expected="None", observed=repr(res))
            for n in pre_files:
                key = M.renew_key(kinds[n][1], op[1])
                want, what = expect_add_or_renew(before[n], key, expiry)
                got = table_of(os.path.join(d, "%d" % n), kinds[n][0])
                check_tables(ctx, "add_lease", case, n, before[n], want, got, post_files[n], secrets_used, kinds[n])
                if before[n]:
                    deep = (repr(sorted(before.items())), repr(op[:3]))
                label = "add:" + what
        elif op[0] == "alloc":
            # allocate_buckets reports every held share and puts / renews the caller's lease on EVERY
            # held share, whichever numbers the request names
            if res != ("ok", sorted(pre_files)):
                ctx.oracle_fail("lease-allocate-wrong-answer", "allocate_buckets(%r) answered %r with shares %r held" % (op[3], res, sorted(pre_files)),
                                case=case, expected=repr(sorted(pre_files)), observed=repr(res))
            for n in pre_files:
                key = M.renew_key(kinds[n][1], op[1])
                want, what = expect_add_or_renew(before[n], key, expiry)
                got = table_of(os.path.join(d, "%d" % n), kinds[n][0])
                if sorted(got) != sorted(want) and n not in op[3] and sorted(got) == sorted(before[n]):
                    ctx.oracle_fail("lease-allocate-skips-unnamed-held-share",
                                    "allocate_buckets naming shares %r left held share %d without the caller's lease / renewal (held: %r)"
                                    % (op[3], n, sorted(pre_files)), case=case, expected=repr(want), observed=repr(got))
                else:
                    check_tables(ctx, "allocate_buckets", case, n, before[n], want, got, post_files[n], secrets_used, kinds[n])
            if pre_files:
                deep = (repr(sorted(before.items())), repr(op[:4]))
                if r.random() < 0.6:
                    forced.append(("renew", op[1]))        # the holder then renews with its own secret
            label = "alloc:" + ("subset" if set(pre_files) - set(op[3]) else "all")
        elif op[0] == "renew":
            # per share, in listing order: shares holding the secret are renewed until one does not
            failed = not pre_files
            for n in op[2]:
                if n not in pre_files:
                    continue
                key = M.renew_key(kinds[n][1], op[1])
                got = table_of(os.path.join(d, "%d" % n), kinds[n][0])
                if failed:
                    want = before[n]
                elif key in dict(before[n]):
                    want, _ = expect_add_or_renew(before[n], key, expiry)
                else:
                    failed = True
                    want = before[n]
                    if post_files[n] != pre_files[n]:
                        ctx.oracle_fail("lease-unknown-secret-changed-share", "renew_lease with a secret share %d has no lease for changed the share file" % n,
                                        case=case, expected="file unchanged", observed="file differs")
                check_tables(ctx, "renew_lease", case, n, before[n], want, got, post_files[n], secrets_used, kinds[n])
            if failed and res != ("err", "EIndex"):
                ctx.oracle_fail("lease-unknown-secret-no-error", "renew_lease with a secret unknown to a share returned %r" % (res,),
                                case=case, expected="IndexError", observed=repr(res))
            if not failed and res != ("ok", None):
                ctx.oracle_fail("lease-renew-raised", "renew_lease with a secret every share knows returned %r" % (res,),
                                case=case, expected="None", observed=repr(res))
            label = "renew:" + ("unknown" if failed else "known")
            if any(before.values()):
                deep = (repr(sorted(before.items())), repr(op[:2]))
        elif op[0] == "tw":
            _, secrets, tw, rv, renew = op
            if res[0] != "ok" or res[1][0] is not True:
                ctx.oracle_fail("lease-tw-failed", "a read-test-write without tests and with a matching enabler returned %r" % (res,), case=case,
                                expected="(True, {})", observed=repr(res)[:200])
            for n in set(pre_files) | set(post_files):
                if n not in post_files:
                    continue
                kind_n = version_of(post_files[n])
                got = table_of(os.path.join(d, "%d" % n), kind_n[0])
                base = before.get(n, []) if n in pre_files and not (n in tw and tw[n][2] == 0) else []
                if n in tw and tw[n][2] != 0 and renew:
                    want, what = expect_add_or_renew(base, M.renew_key(kind_n[1], secrets[1]), expiry)
                else:
                    want = base
                if not check_tables(ctx, "read-test-write", case, n, base, want, got, post_files[n], secrets_used, kind_n) and sorted(got) != sorted(want) and len(got) < len(base):
                    ctx.oracle_fail("lease-lost-on-write", "share %d lost leases across a data write" % n, case=case, expected=repr(want), observed=repr(got))
            if any(before.get(n) for n in tw):
                deep = (repr(sorted(before.items())), repr(op)[:300])
            label = "tw:renew" if renew else "tw:norenew"
        ctx.case(deep, kind=("imm:" if immutable else "mut:") + label)
        if i < 2 and step < 3:
            ctx.sample({"op": repr(op)[:300], "result": repr(res)[:100], "before": {str(n): t for n, t in before.items()}})
    files1 = M.read_bucket(ss, si)
    term = M.srun_term(files0, now0, ops, results, files1, extra_secrets=secrets_used)
    return term, {"history": i, "immutable": immutable, "ops": [repr(o)[:500] for o in ops], "results": [repr(x)[:120] for x in results]}


# ---------------------------------------------------------------------------
# (c): the lease methods called directly, with chosen expiry times and available space
# ---------------------------------------------------------------------------
def t_lease(owner, rs, cs, exp, nodeid):
    return "(mkLease %s %s %s %s %s)" % (T.N(owner), T.bytes_(rs), T.bytes_(cs), T.N(exp), T.bytes_(nodeid))


def direct_history(ctx, ss, i):
    from allmydata.storage.immutable import ShareFile
    from allmydata.storage.lease import LeaseInfo
    from allmydata.storage.mutable import MutableShareFile
    r = ctx.rng("direct", i)
    immutable = i % 2 == 1
    si = bytes([0x25, 2, i & 0xff, (i >> 8) & 0xff]) + b"\x00" * 12
    d = M.bucket_dir(ss, si)
    os.makedirs(d, exist_ok=True)
    fn = os.path.join(d, "0")
    ver = r.choice([1, 2])
    if immutable:
        size = r.choice([0, 5, 40])
        sf0 = ShareFile(fn, max_size=size, create=True, schema=M.immutable_schema(ver))
        sf0.write_share_data(0, M.rb(r, size))
        kind = "immutable"
    else:
        M.create_mutable(ss, si, 0, WE, version=ver)
        MutableShareFile(fn, ss).writev([(0, M.rb(r, r.choice([0, 3, 30])))], None)
        kind = "mutable"
    secrets_used = {M.secret(k) for k in range(0, 16)}
    h = M.htab_term(secrets_used)
    terms, info = [], []
    for step in range(r.randint(3, 9)):
        raw0 = open(fn, "rb").read()
        before = table_of(fn, kind)
        rs = M.secret(r.choice([0, 0, 1, 2, 3]))
        cs = M.secret(8 + r.randint(0, 3))
        exp = r.choice([1000, 5000, 5000, 70000, 2 ** 31, 2 ** 32 - 1] + [e for _, e in before] + [min(e + 1, 2 ** 32 - 1) for _, e in before] + [max(0, e - 1) for _, e in before])
        avail = r.choice([0, 71, 72, 91, 92, 1 << 30, 1 << 30])
        owner = r.choice([1, 1, 2, 7])
        sf = ShareFile(fn) if immutable else MutableShareFile(fn, ss)
        key = M.renew_key(ver, rs)
        case = {"direct": i, "step": step, "kind": kind, "version": ver, "before": repr(before), "secret": rs.hex(), "expiry": exp, "avail": avail}
        if r.random() < 0.6:
            res = M.call(sf.add_or_renew_lease, avail, LeaseInfo(owner, rs, cs, exp, M.NODEID))
            want, what = expect_add_or_renew(before, key, exp)
            if what == "add":
                full = immutable or len(before) >= 4
                if full and avail < (72 if immutable else 92):
                    want, what = before, "nospace"
            want_res = ("err", "ENoSpace") if what == "nospace" else ("ok", None)
            fnname = "immfile_add_or_renew" if immutable else "mutfile_add_or_renew"
            mterm = (lambda f, fnname=fnname, avail=avail, owner=owner, rs=rs, cs=cs, exp=exp:
                     "%s %s %s %s %s" % (fnname, h, f, T.N(avail), t_lease(owner, rs, cs, exp, M.NODEID)))
            label = "add_or_renew:" + what
        else:
            res = M.call(sf.renew_lease, rs, exp)
            if key in dict(before):
                want, what = expect_add_or_renew(before, key, exp)
                want_res = ("ok", None)
            else:
                want, what, want_res = before, "unknown", ("err", "EIndex")
            fnname = "immfile_renew" if immutable else "mutfile_renew"
            mterm = (lambda f, fnname=fnname, rs=rs, exp=exp: "%s %s %s %s %s" % (fnname, h, f, T.bytes_(rs), T.N(exp)))
            label = "renew:" + what
        raw1 = open(fn, "rb").read()
        got = table_of(fn, kind)
        ctx.case((repr(before), label, exp, avail) if before else None, kind="direct-%s:%s" % (kind[:3], label))
        if res != want_res:
            ctx.oracle_fail("lease-unknown-secret-no-error" if what == "unknown" else "lease-call-wrong-result",
                            "%s on a %s v%d share returned %r, the statement gives %r" % (label, kind, ver, res, want_res), case=case,
                            expected=repr(want_res), observed=repr(res))
        if what in ("unknown", "nospace", "no-backdate") and raw1 != raw0:
            ctx.oracle_fail("lease-unknown-secret-changed-share" if what == "unknown" else "lease-refused-call-changed-share",
                            "%s must leave the share file untouched but it changed" % label, case=case, expected="file unchanged", observed="file differs")
        check_tables(ctx, label, case, 0, before, want, got, raw1, secrets_used, (kind, ver))
        terms.append("(let o := %s in list_N_eqb (out_file o) %s && opt_err_eqb (out_err o) %s)" % (mterm(M.hexb(raw0)), M.hexb(raw1), M.t_opt_err(res)))
        info.append(case)
    return terms, info


# ---------------------------------------------------------------------------
# (d): the lease-expiry crawler's cancel_lease between the other operations.  Mutable lease
# slots are never packed: cancelling a lease that is not in the last occupied slot leaves an
# unused slot between used ones, and every later lease must stay visible, renewable, and
# must not be duplicated by an add with its secret.
# ---------------------------------------------------------------------------
def cancel_history(ctx, ss, i):
    from allmydata.storage.lease import LeaseInfo
    from allmydata.storage.mutable import MutableShareFile
    r = ctx.rng("cancel", i)
    ver = 1 + i % 2
    si = bytes([0x25, 4, i & 0xff, (i >> 8) & 0xff]) + b"\x00" * 12
    fn = M.create_mutable(ss, si, 0, WE, version=ver)
    if r.random() < 0.5:
        MutableShareFile(fn, ss).writev([(0, M.rb(r, r.choice([1, 20])))], None)
    rsec = lambda k: M.secret(k)            # noqa: E731  lease k: renew secret k, cancel secret 40+k
    csec = lambda k: M.secret(40 + k)       # noqa: E731
    secrets_used = {M.secret(k) for k in list(range(0, 16)) + list(range(40, 56))}
    h = M.htab_term(secrets_used | {b"\x00" * 32})
    live = {}                               # lease number -> expiry: the statement's lease table
    terms, info = [], []
    nleases = r.choice([2, 3, 3, 4, 5, 6, 7])
    plan = [("add", k, 5000 + 100 * k) for k in range(nleases)]
    first = True
    for _ in range(r.randint(6, 11)):
        c = r.random()
        known = sorted(live) or list(range(nleases))
        if c < 0.30 or first:
            # the crawler removes an expired lease: mostly an OLDER one, sometimes the newest
            pool = list(range(nleases))
            j = r.choice(pool[:-1] if (len(pool) > 1 and r.random() < 0.8) else pool)
            plan.append(("cancel", j))
            first = False
        elif c < 0.55:
            plan.append(("renew", r.choice(known + [r.choice(range(nleases)), 12]), r.choice([4000, 9000, 20000, 70000])))
        elif c < 0.85:
            plan.append(("add", r.choice(known + known + [r.choice(range(nleases)), 8 + r.randint(0, 3)]), r.choice([4000, 9000, 20000, 70000])))
        else:
            plan.append(("write", r.choice([0, 30, 600, 1500]), M.rb(r, r.choice([1, 5]))))
    for step, op in enumerate(plan):
        if not os.path.exists(fn):
            break
        raw0 = open(fn, "rb").read()
        before = dict(live)
        sf = MutableShareFile(fn, ss)
        case = {"cancel": i, "step": step, "version": ver, "plan": repr(plan)[:900], "op": repr(op)[:200],
                "leases_before": {str(k): v for k, v in before.items()}}
        term = None
        if op[0] == "add":
            _, k, exp = op
            res = M.call(sf.add_or_renew_lease, 1 << 30, LeaseInfo(1, rsec(k), csec(k), exp, M.NODEID))
            want_res = ("ok", None)
            what = "renew" if k in live else "add"
            live[k] = max(live.get(k, 0), exp)
            mcall = (lambda f, k=k, exp=exp: "mutfile_add_or_renew %s %s %s %s" % (h, f, T.N(1 << 30), t_lease(1, rsec(k), csec(k), exp, M.NODEID)))
            label = "add_or_renew:" + what
        elif op[0] == "renew":
            _, k, exp = op
            res = M.call(sf.renew_lease, rsec(k), exp)
            if k in live:
                want_res, what = ("ok", None), "known"
                live[k] = max(live[k], exp)
            else:
                want_res, what = ("err", "EIndex"), "unknown"
            mcall = (lambda f, k=k, exp=exp: "mutfile_renew %s %s %s %s" % (h, f, T.bytes_(rsec(k)), T.N(exp)))
            label = "renew:" + what
        elif op[0] == "cancel":
            _, k = op
            res = M.call(sf.cancel_lease, csec(k))
            if k in live:
                del live[k]
                want_res, what = ("ok", None), ("older" if any(j > k for j in live) else "newest")
            else:
                want_res, what = ("err", "EIndex"), "unknown"
            if res[0] == "ok":
                res = ("ok", None)          # the number of bytes freed is not part of the statement
            mcall = None
            label = "cancel:" + what
        else:
            _, off, data = op
            res = M.call(sf.writev, [(off, data)], None)
            want_res, what, mcall = ("ok", None), "data", None
            label = "write"
        exists = os.path.exists(fn)
        raw1 = open(fn, "rb").read() if exists else None
        got = table_of(fn, "mutable") if exists else []
        want = [(M.renew_key(ver, rsec(k)), e) for k, e in live.items()]
        ctx.case((ver, repr(sorted(before.items())), repr(op)) if before else None, kind="crawler:" + label)
        if res != want_res:
            ctx.oracle_fail("lease-known-secret-rejected-after-cancel" if (op[0] == "renew" and want_res[0] == "ok") else "lease-call-wrong-result",
                            "%s of lease %s on a v%d mutable share returned %r, the statement gives %r (leases held: %r)"
                            % (op[0], op[1], ver, res, want_res, sorted(before)), case=case, expected=repr(want_res), observed=repr(res))
        if not exists and live:
            ctx.oracle_fail("lease-share-removed-with-leases", "the share file was removed although leases %r remain" % sorted(live), case=case)
        elif exists:
            if sorted(got) != sorted(want):
                keys_w = [k for k, _ in want]
                keys_g = [k for k, _ in got]
                if any(keys_g.count(k) > keys_w.count(k) for k in set(keys_g)):
                    kind = "lease-duplicate-on-known-secret"
                elif any(keys_g.count(k) < keys_w.count(k) for k in set(keys_w)):
                    kind = "lease-invisible-after-cancel" if any(p[0] == "cancel" for p in plan[:step + 1]) else "lease-expiry-shortened-or-lease-lost"
                else:
                    kind = "lease-table-differs"
                ctx.oracle_fail(kind, "after %s (%s) the v%d mutable share shows leases %r, the statement gives %r"
                                % (label, op[1], ver, sorted(got), sorted(want)), case=case, expected=repr(sorted(want)), observed=repr(sorted(got)))
            if ver == 2 and any(x in raw1 for x in secrets_used):
                ctx.oracle_fail("lease-cleartext-secret-in-v2-container", "a lease secret is stored in cleartext in a v2 mutable container", case=case)
        # model
        if op[0] == "cancel":
            terms.append("(let '(s, e) := mutfile_cancel %s %s %s in share_eqb s %s && opt_err_eqb e %s)"
                         % (h, M.hexb(raw0), T.bytes_(csec(op[1])), M.t_share(raw1), M.t_opt_err(res)))
            info.append(case)
        elif mcall is not None and exists:
            terms.append("(let o := %s in list_N_eqb (out_file o) %s && opt_err_eqb (out_err o) %s)"
                         % (mcall(M.hexb(raw0)), M.hexb(raw1), M.t_opt_err(res)))
            info.append(case)
    return terms, info


def run(ctx):
    ctx.correspondence("lease-model-vs-server-histories")
    ctx.correspondence("lease-model-vs-direct-calls")
    ss, clock = M.new_server("c25")
    terms, info = [], []
    for i in range(ctx.n(30, 240)):
        t, inf = api_history(ctx, ss, clock, i, immutable=False)
        terms.append(t)
        info.append(inf)
    for i in range(ctx.n(18, 150)):
        t, inf = api_history(ctx, ss, clock, i, immutable=True)
        terms.append(t)
        info.append(inf)
    bad = ctx.coq_check(M.IMPORTS, terms, preamble=M.PREAMBLE, tag="c25", shard=12)
    for ix in bad:
        ctx.mismatch("lease-model-vs-impl", "the Coq model and the server disagree on a lease history (results or file bytes)",
                     case=info[ix], correspondence="lease-model-vs-server-histories")
    ctx.trace(len(terms) - len(bad))
    dterms, dinfo = [], []
    for i in range(ctx.n(24, 240)):
        t, inf = direct_history(ctx, ss, i)
        dterms += t
        dinfo += inf
    bad = ctx.coq_check(M.IMPORTS, dterms, preamble=M.PREAMBLE, tag="c25d", shard=48)
    for ix in bad:
        ctx.mismatch("lease-model-vs-impl-direct", "the Coq model and a direct lease method call disagree (exception or file bytes)",
                     case=dinfo[ix], correspondence="lease-model-vs-direct-calls")
    ctx.trace(len(dterms) - len(bad))
    cterms, cinfo = [], []
    for i in range(ctx.n(14, 140)):
        t, inf = cancel_history(ctx, ss, i)
        cterms += t
        cinfo += inf
    bad = ctx.coq_check(M.IMPORTS, cterms, preamble=M.PREAMBLE, tag="c25c", shard=40)
    for ix in bad:
        ctx.mismatch("lease-model-vs-impl-cancel", "the Coq model and a lease method call disagree in a history with cancel_lease (exception or file bytes)",
                     case=cinfo[ix], correspondence="lease-model-vs-direct-calls")
    ctx.trace(len(cterms) - len(bad))
    # a server without space: a fifth lease on a mutable share is refused, the first four fit the header
    ro, roclock = M.new_server("c25ro", readonly=True)
    rterms, rinfo = [], []
    for i in range(ctx.n(6, 40)):
        r = ctx.rng("ro", i)
        si = bytes([0x25, 3, i]) + b"\x00" * 13
        ops, results = [], []
        now0 = int(roclock.seconds())
        for k in range(r.randint(5, 7)):
            op = ("tw", (WE, M.secret(k if r.random() < 0.8 else 0), M.secret(9)), {0: ([], [(0, b"x")], None)}, [], True)
            res = M.run_sop(ro, roclock, si, op)
            ops.append(op)
            results.append(res)
        n_leases = len(M.mutable_leases(os.path.join(M.bucket_dir(ro, si), "0")))
        want_err = sum(1 for x in results if x == ("err", "ENoSpace"))
        ctx.case((i, n_leases), kind="mut:no-space")
        if n_leases > 4 or (want_err == 0 and len({o[1][1] for o in ops}) > 4):
            ctx.oracle_fail("lease-added-without-space", "a server with no available space stored %d leases on a mutable share" % n_leases,
                            case={"ro": i, "ops": [repr(o)[:200] for o in ops]}, expected="<= 4 leases, NoSpace for the rest", observed=repr(results)[:400])
        rterms.append(M.srun_term({}, now0, ops, results, M.read_bucket(ro, si), avail=0))
        rinfo.append({"ro": i, "ops": [repr(o)[:300] for o in ops], "results": [repr(x)[:100] for x in results]})
    bad = ctx.coq_check(M.IMPORTS, rterms, preamble=M.PREAMBLE, tag="c25ro", shard=10)
    for ix in bad:
        ctx.mismatch("lease-model-vs-impl-nospace", "model and server disagree on a history on a server without space", case=rinfo[ix],
                     correspondence="lease-model-vs-server-histories")
    ctx.trace(len(rterms) - len(bad))


def replay(ctx, rec):
    case = rec.get("case") or {}
    ss, clock = M.new_server("c25r")
    if "direct" in case:
        t, inf = direct_history(ctx, ss, case["direct"])
        bad = ctx.coq_check(M.IMPORTS, t, preamble=M.PREAMBLE, tag="c25r")
        return {"calls": inf, "model_disagrees_at": bad}
    if "cancel" in case:
        t, inf = cancel_history(ctx, ss, case["cancel"])
        bad = ctx.coq_check(M.IMPORTS, t, preamble=M.PREAMBLE, tag="c25r")
        return {"calls": [x["op"] for x in inf], "model_disagrees_at": bad}
    if "history" in case:
        sub = type(ctx)(ctx.pid, rec.get("tier", "quick"), rec.get("seed", 0))
        imm = bool(case.get("immutable"))
        # the clock of history i depends on the ticks of the earlier histories of the run
        n_mut = sub.n(30, 240)
        seq = [(j, False) for j in range(n_mut)] + [(j, True) for j in range(sub.n(18, 150))]
        for (j, im) in seq:
            if (j, im) == (case["history"], imm):
                break
            api_history(sub, ss, clock, j, im)
        t, inf = api_history(ctx, ss, clock, case["history"], imm)
        bad = ctx.coq_check(M.IMPORTS, [t], preamble=M.PREAMBLE, tag="c25r")
        return dict(inf, model_agrees=not bad)
    return {"note": "record has no case index"}
