"""C13  One client serialises operations on a mutable node."""
from core import term as T

ID = "C13"
GEN = ["nodemaker", "mutpins"]
RULE = ("cases: interleavings of up to 8 requested operations (synchronous success / synchronous exception / asynchronous) "
        "and completions (success or failure) of the running one, chosen by the seeded PRNG (bounded exhaustive over all "
        "interleavings of <= 4 operations in the thorough tier); non-trivial = at least two operations requested while "
        "another is running; distinct = distinct input sequences.  Grid cases: 4 concurrent edits of one directory through "
        "one client under seeded response orders")
META = {
    "title": "One client serialises operations on a mutable node",
    "level_text": ("Theorems in Coq over a model of the Deferred chain used by MutableFileNode._do_serialized, for ALL interleavings "
                   "of requests and completions (induction over the input list): operations start in request order, never overlap, "
                   "a failure starts the next queued operation and is reported only to its own caller, nothing is lost, serialised "
                   "read-modify-write operations compose sequentially; the node cache returns one node per cap string.  The model's "
                   "trace is compared with the real _do_serialized driven by instrumented callbacks, and concurrent directory edits "
                   "are run on a real in-process grid."),
    "level_note": ("core (partial): Twisted's Deferred semantics (callbacks run in order; a callback returning an unfired Deferred pauses "
                   "the chain; addBoth/addErrback routing) are MODELLED in Model/Serializer.v and tied to the implementation only by the "
                   "trace correspondence; real timers, thread pools and the network below callRemote are not modelled.  The "
                   "no-lost-update theorem assumes each operation reads when it starts and writes when it finishes."),
    "technique": "Coq proof by invariant over all interleavings of a Deferred-chain model + trace correspondence with the real _do_serialized",
    "design_ref": "8/C13",
    "trusted_base": ["Model/Serializer.v as a reading of twisted.internet.defer semantics"],
    "assumptions": ["an operation passed to _do_serialized does not itself call a serialised method of a MutableFileNode (documented precondition in the code)"],
}
IMPORTS = ["Model.Serializer", "Gen.NodeMakerKey"]


class Boom(Exception):
    pass


def drive(inputs):
    """Run one interleaving on the real MutableFileNode._do_serialized.
    inputs: list of ("req", opid, "ok"|"fail"|"async") / ("complete", "ok"|"fail").
    Returns (events, caller_results) with events as tuples."""
    from twisted.internet import defer
    from twisted.python.failure import Failure
    import allmydata.mutable.filenode as MF
    node = MF.MutableFileNode(None, None, {"k": 3, "n": 10}, None)
    events = []
    queue = []          # deferred deliveries scheduled through eventually()
    running = {}        # opid -> Deferred of an async op
    order = []          # async ops in start order
    results = {}

    real_eventually = MF.eventually
    current_deliver = []

    def fake_eventually(f, *a, **kw):
        queue.append((f, a, kw))
    MF.eventually = fake_eventually
    import twisted.python.log as tlog
    observed_errs = []
    try:
        def make_cb(o, beh):
            def cb():
                events.append(("S", o))
                if beh == "ok":
                    events.append(("F", o, "ok"))
                    return ("val", o)
                if beh == "fail":
                    events.append(("F", o, "fail"))
                    raise Boom(o)
                d = defer.Deferred()
                running[o] = d
                order.append(o)
                return d
            return cb

        def watch(o, d):
            def got(res):
                results[o] = ("ok", res)
            def bad(f):
                results[o] = ("fail", f.value)
            d.addCallbacks(got, bad)

        def flush():
            while queue:
                f, a, kw = queue.pop(0)
                # the argument of d.callback is the operation's result: record who gets what
                f(*a, **kw)

        nfail = 0
        for inp in inputs:
            if inp[0] == "req":
                _, o, beh = inp
                before = len(queue)
                d = node._do_serialized(make_cb(o, beh))
                watch(o, d)
            else:
                if not order:
                    continue
                o = order.pop(0)
                d = running.pop(o)
                if inp[1] == "ok":
                    events.append(("F", o, "ok"))
                    d.callback(("val", o))
                else:
                    events.append(("F", o, "fail"))
                    d.errback(Failure(Boom(o)))
            flush()
    finally:
        MF.eventually = real_eventually
    return events, results


def deliveries(events, results):
    """Delivered events cannot be observed directly in order without touching the
    code; they are reconstructed from caller results: a caller has its result iff
    its op finished."""
    return results


def to_coq_inputs(inputs):
    out = []
    for inp in inputs:
        if inp[0] == "req":
            b = {"ok": "(Sync Ok)", "fail": "(Sync Fail)", "async": "Async"}[inp[2]]
            out.append("Request %s %s" % (T.N(inp[1]), b))
        else:
            out.append("Complete %s" % ("Ok" if inp[1] == "ok" else "Fail"))
    return T.lst(out)


def to_coq_events(events):
    out = []
    for e in events:
        if e[0] == "S":
            out.append("Started %s" % T.N(e[1]))
        else:
            out.append("Finished %s %s" % (T.N(e[1]), "Ok" if e[2] == "ok" else "Fail"))
    return T.lst(out)


PREAMBLE = """
Fixpoint no_deliv (l : list event) : list event :=
  match l with
  | [] => []
  | Delivered _ _ :: r => no_deliv r
  | e :: r => e :: no_deliv r
  end.
Fixpoint pairs_eqb (a b : list (opid * res)) : bool :=
  match a, b with
  | [], [] => true
  | (o, r) :: a', (o', r') :: b' => (o =? o') && res_eqb r r' && pairs_eqb a' b'
  | _, _ => false
  end.
"""


def gen_inputs(r, maxops):
    nops = r.randint(1, maxops)
    inputs = []
    running = 0          # number of async ops started-or-queued not yet completed (upper bound)
    next_id = 1
    pending_async = 0
    while next_id <= nops or pending_async > 0:
        can_req = next_id <= nops
        if can_req and (pending_async == 0 or r.random() < 0.6):
            beh = r.choice(["async", "async", "async", "ok", "fail"])
            inputs.append(("req", next_id, beh))
            if beh == "async":
                pending_async += 1
            next_id += 1
        else:
            inputs.append(("complete", r.choice(["ok", "ok", "fail"])))
            pending_async -= 1
    return inputs


def all_interleavings(nops):
    """Every input sequence with exactly nops requests (each of 3 behaviours) and a
    completion (ok/fail) for each async op placed anywhere after... enumerated by DFS
    over the abstract state (number of uncompleted async ops that have been requested)."""
    out = []

    def rec(seq, next_id, open_async):
        if next_id > nops and open_async == 0:
            out.append(list(seq))
            return
        if next_id <= nops:
            for beh in ("async", "ok", "fail"):
                seq.append(("req", next_id, beh))
                rec(seq, next_id + 1, open_async + (1 if beh == "async" else 0))
                seq.pop()
        if open_async > 0:
            for rr in ("ok", "fail"):
                seq.append(("complete", rr))
                rec(seq, next_id, open_async - 1)
                seq.pop()
    rec([], 1, 0)
    return out


def check_case(ctx, inputs, terms, info):
    events, results = drive(inputs)
    # ---- direct oracle on the implementation's trace ----
    req_order = [i[1] for i in inputs if i[0] == "req"]
    started = [e[1] for e in events if e[0] == "S"]
    open_op = None
    overlap = False
    for e in events:
        if e[0] == "S":
            if open_op is not None:
                overlap = True
            open_op = e[1]
        else:
            if open_op != e[1]:
                overlap = True
            open_op = None
    deep = sum(1 for i in inputs if i[0] == "req") >= 2 and any(i[0] == "complete" for i in inputs)
    ctx.case(tuple(inputs) if deep else None, kind="ops=%d" % len(req_order))
    case = {"inputs": inputs}
    if started != req_order[:len(started)]:
        ctx.oracle_fail("serializer-start-order", "operations started in order %r but were requested in order %r" % (started, req_order), case=case,
                        expected=req_order, observed=started)
    if overlap:
        ctx.oracle_fail("serializer-overlap", "an operation started before the previous one finished: %r" % (events,), case=case, observed=events)
    fin = {e[1]: e[2] for e in events if e[0] == "F"}
    if open_op is None and started != req_order:
        ctx.oracle_fail("serializer-blocked", "chain is idle but operations %r were never started (a failure blocked them?)" % ([o for o in req_order if o not in started],),
                        case=case, expected=req_order, observed=started)
    for o, r in fin.items():
        got = results.get(o)
        if got is None:
            ctx.oracle_fail("serializer-result-not-delivered", "operation %d finished (%s) but its caller never got a result" % (o, r), case=case)
        elif r == "ok" and got != ("ok", ("val", o)):
            ctx.oracle_fail("serializer-wrong-result", "caller of operation %d received %r" % (o, got), case=case, expected=("ok", ("val", o)), observed=repr(got))
        elif r == "fail" and not (got[0] == "fail" and isinstance(got[1], Boom) and got[1].args == (o,)):
            ctx.oracle_fail("serializer-wrong-result", "caller of failed operation %d received %r" % (o, got), case=case, observed=repr(got))
    for o in results:
        if o not in fin:
            ctx.oracle_fail("serializer-early-result", "caller of operation %d got a result before the operation finished" % o, case=case)
    # ---- correspondence with the model ----
    deliv = T.lst(["(%s, %s)" % (T.N(e[1]), "Ok" if e[2] == "ok" else "Fail") for e in events if e[0] == "F" and e[1] in results])
    terms.append("(let s := exec %s in events_eqb (no_deliv (events s)) %s && pairs_eqb (delivered (events s)) %s)" % (
        to_coq_inputs(inputs), to_coq_events(events), deliv))
    info.append(inputs)
    ctx.sample({"inputs": inputs, "events": events})


def run(ctx):
    ctx.correspondence("do_serialized-trace-vs-model")
    ctx.correspondence("grid-concurrent-directory-edits")
    terms, info = [], []
    if ctx.tier == "thorough" or ctx.search:
        for nops in (1, 2, 3, 4):
            for inputs in all_interleavings(nops):
                check_case(ctx, inputs, terms, info)
        ctx.note("exhaustive over all interleavings of <= 4 operations: %d cases" % len(terms))
    n = ctx.n(300, 1500)
    for i in range(n):
        r = ctx.rng("il", i)
        check_case(ctx, gen_inputs(r, 8), terms, info)
    bad = ctx.coq_check(IMPORTS, terms, preamble=PREAMBLE, tag="c13")
    for ix in bad:
        ctx.mismatch("serializer-trace-differs", "model trace and real _do_serialized trace differ", case={"inputs": info[ix]},
                     correspondence="do_serialized-trace-vs-model")
    ctx.trace(len(terms) - len(bad))
    memokey_cases(ctx)
    grid_cases(ctx)


def memokey_cases(ctx):
    """Gen/NodeMakerKey.v (translated from nodemaker.py) against the keys a real NodeMaker's _node_cache ends up with."""
    import os
    from allmydata import uri
    from allmydata.nodemaker import NodeMaker
    from allmydata.unknown import UnknownNode
    ctx.correspondence("nodemaker-cache-key-vs-model")
    terms, info = [], []
    n = ctx.n(60, 400)
    for i in range(n):
        r = ctx.rng("memokey", i)
        rb = lambda k_: bytes(r.getrandbits(8) for _ in range(k_))
        kind = r.choice(["ssk", "mdmf", "dir2", "dir2-mdmf", "chk", "lit", "ro-ssk", "unknown", "none"])
        if kind in ("ssk", "dir2"):
            u = uri.WriteableSSKFileURI(rb(16), rb(32))
        elif kind in ("mdmf", "dir2-mdmf"):
            u = uri.WriteableMDMFFileURI(rb(16), rb(32))
        elif kind == "ro-ssk":
            u = uri.WriteableSSKFileURI(rb(16), rb(32)).get_readonly()
        elif kind == "chk":
            u = uri.CHKFileURI(rb(16), rb(32), 3, 10, r.randrange(100, 10 ** 6))
        elif kind == "lit":
            u = uri.LiteralFileURI(rb(r.randrange(0, 20)))
        else:
            u = None
        if kind == "dir2":
            u = uri.DirectoryURI(u)
        elif kind == "dir2-mdmf":
            u = uri.MDMFDirectoryURI(u)
        if kind == "unknown":
            w, ro = b"x-future-cap:" + rb(4).hex().encode(), r.choice([None, b"x-future-ro:" + rb(4).hex().encode()])
        elif kind == "none":
            w, ro = r.choice([None, b""]), r.choice([None, b""])
        elif u.is_readonly():
            w, ro = r.choice([None, b""]), u.to_string()
        else:
            w = u.to_string()
            ro = r.choice([None, b"", u.get_readonly().to_string(), b"URI:LIT:" + rb(3).hex().encode()])
        di = (not u.is_mutable()) and r.random() < 0.5 if u is not None else False
        nm = NodeMaker(None, None, None, None, None, {"k": 3, "n": 10}, None, None)
        node = nm.create_from_cap(w, ro, deep_immutable=di)
        keys = sorted(nm._node_cache.keys())
        cached = keys[0] if keys else None
        ctx.case(("memokey", kind, w, ro, di), kind="memokey:" + kind)
        # the model gives the key a lookup USES; the cache holds it only for mutable nodes
        mutable = (not isinstance(node, UnknownNode)) and node.is_mutable()
        opt = lambda b_: "None" if b_ is None else "(Some %s)" % T.bytes_(b_)
        expect = opt(cached) if (mutable and isinstance(cached, bytes)) else None      # a key that is not a byte string matches no model key
        if mutable:
            terms.append("option_bytes_eqb (memokey %s %s %s) %s" % (T.boolean(di), opt(w), opt(ro), expect) if isinstance(cached, bytes) else "false")
            info.append({"kind": kind, "writecap": repr(w), "readcap": repr(ro), "deep_immutable": di, "cache_key": repr(cached)})
            # direct oracle: a second lookup by the write cap alone, and one with another read cap, give the same object
            if w:
                again = nm.create_from_cap(w, None, deep_immutable=di)
                other = nm.create_from_cap(w, b"URI:LIT:" + rb(2).hex().encode(), deep_immutable=di)
            else:               # only a read cap: None and b"" in the write slot are the same lookup
                again = nm.create_from_cap(None, ro, deep_immutable=di)
                other = nm.create_from_cap(b"", ro, deep_immutable=di)
            if again is not node or other is not node:
                ctx.oracle_fail("nodemaker-cache-miss", "NodeMaker.create_from_cap gives different node objects for one %s write cap depending on the "
                                "read cap passed alongside" % kind, case=info[-1])
        elif keys:
            ctx.oracle_fail("nodemaker-caches-immutable", "NodeMaker cached a node that is not mutable (%s)" % kind,
                            case={"kind": kind, "writecap": repr(w), "readcap": repr(ro)})
        else:
            terms.append("match memokey %s %s %s with Some _ => %s | None => %s end" % (
                T.boolean(di), opt(w), opt(ro), T.boolean(bool(w or ro)), T.boolean(not (w or ro))))
            info.append({"kind": kind, "writecap": repr(w), "readcap": repr(ro), "deep_immutable": di, "cache_key": None})
    pre = """
Definition option_bytes_eqb (a b : option (list N)) : bool :=
  match a, b with Some x, Some y => list_N_eqb x y | None, None => true | _, _ => false end.
"""
    bad = ctx.coq_check(["Lib.Hex", "Gen.NodeMakerKey"], terms, preamble=pre, tag="c13key")
    for ix in bad:
        ctx.mismatch("nodemaker-cache-key-differs", "the _node_cache key of a real NodeMaker and Gen/NodeMakerKey.memokey differ", case=info[ix],
                     correspondence="nodemaker-cache-key-vs-model")
    ctx.trace(len(terms) - len(bad))


def grid_cases(ctx):
    """Concurrent directory edits and overwrites through ONE client on a real grid."""
    try:
        from core import grid as G
    except Exception as e:  # grid library unavailable: say so, claim nothing
        ctx.note("grid part skipped: %s" % e)
        return
    from twisted.internet import defer
    n = ctx.n(4, 24)
    for i in range(n):
        r = ctx.rng("grid", i)
        seed = r.getrandbits(30)
        nedits = r.choice([2, 3, 4, 4])
        with G.Grid(num_clients=1, num_servers=5, k=2, n=4, happy=1, seed=seed, timeout=120) as g:
            c = g.client(0)
            dirnode = g.run(c.create_dirnode())
            cap = dirnode.get_uri()
            # same cap string -> same node object (hence one serializer)
            n1 = c.create_node_from_uri(cap)
            n2 = c.create_node_from_uri(cap)
            ctx.case(("cache", seed), kind="grid-node-cache")
            if n1 is not n2 or n1._node is not n2._node:
                ctx.oracle_fail("nodemaker-cache-miss", "two lookups of the same directory cap gave different node objects", case={"seed": seed})
            # every way of resolving the same write cap -- directly, with its read cap alongside (what a parent directory's
            # child lookup does), through a parent directory -- must reach the SAME mutable node, hence one operation queue
            parent = g.run(c.create_dirnode())
            g.run(parent.set_node(u"sub", dirnode))
            mfile = g.run(g.create_mutable(b"", version=r.choice(["sdmf", "mdmf"])))
            g.run(parent.set_node(u"file", mfile))
            rocap = dirnode.get_readonly_uri()
            handles = {"direct": n1,
                       "direct+ro": c.create_node_from_uri(cap, rocap),
                       "nodemaker(rw,ro)": c.nodemaker.create_from_cap(cap, rocap),
                       "via-parent": g.run(parent.get(u"sub"))}
            for how, h in sorted(handles.items()):
                ctx.case(("cache", seed, how), kind="grid-node-cache:" + how)
                if h._node is not n1._node:
                    ctx.oracle_fail("nodemaker-cache-miss", "the directory write cap resolved %s gives a different mutable node than the direct lookup: "
                                    "two independent operation queues for one file" % how, case={"seed": seed, "lookup": how})
            fhandles = {"direct": c.create_node_from_uri(mfile.get_uri()),
                        "direct+ro": c.create_node_from_uri(mfile.get_uri(), mfile.get_readonly_uri()),
                        "via-parent": g.run(parent.get(u"file"))}
            for how, h in sorted(fhandles.items()):
                ctx.case(("cache-file", seed, how), kind="grid-node-cache-file:" + how)
                # (the object create_mutable_file returned is not "obtained through a capability string" and is in fact
                #  never entered into the cache; the property speaks of lookups, so lookups are compared with each other)
                if h is not fhandles["direct"]:
                    ctx.oracle_fail("nodemaker-cache-miss", "the mutable file write cap resolved %s gives a different node object than the direct "
                                    "lookup" % how, case={"seed": seed, "lookup": how, "file": True})
            # back-to-back modifications through the different handles: none may fail, none may be lost
            toks = [b"<%d>" % j for j in range(nedits)]
            hl = [fhandles[k_] for k_ in sorted(fhandles)]
            r.shuffle(hl)

            def appender(tok):
                return lambda old, servermap, first_time: (old or b"") + tok
            dsf = [hl[j % len(hl)].modify(appender(toks[j])) for j in range(nedits)]
            outf = g.run(defer.DeferredList(dsf, consumeErrors=True), outcome=True)
            final = g.run(g.mutable_read(mfile), outcome=True)
            ctx.case(("file-edits", seed, nedits), kind="grid-concurrent-file-edits")
            if outf.status != "ok" or not all(ok_ for ok_, _ in outf.value):
                ctx.oracle_fail("concurrent-edit-failed", "a modification issued back to back through handles of one mutable file failed: %r" % (outf,),
                                case={"seed": seed, "edits": nedits, "file": True})
            elif final.status != "ok" or sorted(final.value.replace(b">", b"> ").split()) != sorted(toks):
                ctx.oracle_fail("concurrent-edit-lost", "modifications through handles of one mutable file lost an update: file holds %r, expected the tokens %r" % (
                    final.value, toks), case={"seed": seed, "edits": nedits, "file": True})
            # and edits of the directory through all handles at once (below) use them too
            n2 = handles[r.choice(sorted(handles))]
            lits = [b"URI:LIT:" + bytes([97 + j]) * 2 for j in range(nedits)]
            from allmydata.util import base32
            lits = [b"URI:LIT:" + base32.b2a(b"child%d" % j) for j in range(nedits)]
            # issue all edits at once, through two handles of the same cap, without waiting
            ds = []
            for j in range(nedits):
                h = n1 if j % 2 == 0 else n2
                ds.append(h.set_uri(u"child%d" % j, lits[j], lits[j]))
            out = g.run(defer.DeferredList(ds, consumeErrors=True), outcome=True)
            children = g.run(n1.list())
            names = sorted(children.keys())
            want = sorted(u"child%d" % j for j in range(nedits))
            ctx.case(("edits", seed, nedits), kind="grid-concurrent-edits")
            ok_all = out.status == "ok" and all(s for s, _ in out.value)
            if not ok_all:
                ctx.oracle_fail("concurrent-edit-failed", "a concurrent directory edit through one client failed: %r" % (out,), case={"seed": seed, "edits": nedits})
            elif names != want:
                ctx.oracle_fail("concurrent-edit-lost", "concurrent edits through one client lost an update: directory has %r, expected %r" % (names, want),
                                case={"seed": seed, "edits": nedits}, expected=want, observed=names)
            else:
                ctx.trace(1)
            # ---- a mixed batch of directory edits requested back to back: the outcome of every request and the final
            # directory must be those of running the requests one after the other in request order (name -> cap map
            # with user metadata); an edit that is split into separately queued steps lets later requests slip in between
            from allmydata.interfaces import NoSuchChildError
            model = dict((nm, (lits[j], None)) for j, nm in enumerate(want))
            names_pool = want[:3] + [u"new-a", u"new-b"]
            ops, expect = [], []
            for j in range(r.choice([5, 6, 8])):
                kind = r.choice(["set_metadata_for", "set_metadata_for", "delete", "set_uri", "set_uri", "set_metadata_for", "list", "has_child", "list"])
                if j == 0:
                    kind = "list"           # a read is in flight while the edits behind it are requested
                nm = r.choice(names_pool)
                if j == 1:
                    kind, nm = "set_metadata_for", names_pool[0]     # an edit of one child ...
                elif j == 2:
                    kind, nm = ("delete" if seed % 2 == 0 else "set_uri"), names_pool[0]   # ... directly followed by another edit of it
                if kind == "list":
                    expect.append(("names", sorted(model)))
                    ops.append((kind, None, None))
                elif kind == "has_child":
                    expect.append(("bool", nm in model))
                    ops.append((kind, nm, None))
                elif kind == "delete":
                    expect.append("ok" if nm in model else "NoSuchChildError")
                    model.pop(nm, None)
                    ops.append((kind, nm, None))
                elif kind == "set_uri":
                    capj = b"URI:LIT:" + base32.b2a(b"v%d-%d" % (j, r.randrange(1000)))
                    model[nm] = (capj, model.get(nm, (None, None))[1])
                    expect.append("ok")
                    ops.append((kind, nm, capj))
                else:
                    md = {u"tag": u"m%d" % j}
                    expect.append("ok" if nm in model else "NoSuchChildError")
                    if nm in model:
                        model[nm] = (model[nm][0], md)
                    ops.append((kind, nm, md))
            hs = [handles[k_] for k_ in sorted(handles)]
            dsm = []
            for j, (kind, nm, arg) in enumerate(ops):
                h = hs[r.randrange(len(hs))]
                if kind == "list":
                    dsm.append(h.list())
                elif kind == "has_child":
                    dsm.append(h.has_child(nm))
                elif kind == "delete":
                    dsm.append(h.delete(nm))
                elif kind == "set_uri":
                    dsm.append(h.set_uri(nm, arg, arg))
                else:
                    dsm.append(h.set_metadata_for(nm, arg))
            outm = g.run(defer.DeferredList(dsm, consumeErrors=True), outcome=True)
            final = g.run(n1.list(), outcome=True)
            ctx.case(("mixed-edits", seed, tuple((k_, n_) for k_, n_, _a in ops)), kind="grid-mixed-directory-edits")
            case = {"seed": seed, "ops": [(k_, n_, repr(a_)) for k_, n_, a_ in ops]}
            if outm.status != "ok" or final.status != "ok":
                ctx.oracle_fail("concurrent-edit-failed", "a batch of directory edits did not finish: %r / %r" % (outm, final), case=case)
            else:
                got = []
                for (ok_, res_), exp_ in zip(outm.value, expect):
                    if not ok_:
                        got.append("NoSuchChildError" if res_.check(NoSuchChildError) else res_.type.__name__)
                    elif isinstance(exp_, tuple) and exp_[0] == "names":
                        got.append(("names", sorted(res_.keys())))       # a read answers with the state at ITS place in the request order
                    elif isinstance(exp_, tuple) and exp_[0] == "bool":
                        got.append(("bool", bool(res_)))
                    else:
                        got.append("ok")
                have = dict((nm, (ch[0].get_uri(), dict((k_, v_) for k_, v_ in ch[1].items() if k_ != "tahoe") or None)) for nm, ch in final.value.items())
                wantm = dict((nm, (c_, m_ or None)) for nm, (c_, m_) in model.items())
                # user metadata is only judged where the last word on it was a set_metadata_for
                def strip(d_):
                    return dict((nm, (c_, m_ if wantm.get(nm, (None, None))[1] else None)) for nm, (c_, m_) in d_.items())
                if got != expect:
                    ctx.oracle_fail("concurrent-edit-outcome-not-sequential", "directory edits requested back to back ended %r; run one after the other in request "
                                    "order they end %r" % (got, expect), case=case, expected=expect, observed=got)
                elif strip(have) != strip(wantm):
                    ctx.oracle_fail("concurrent-edit-lost", "directory edits requested back to back left %r; run one after the other in request order they leave %r" % (
                        sorted(strip(have).items()), sorted(strip(wantm).items())), case=case)
                else:
                    ctx.trace(1)


# ---------------------------------------------------------------------------
# Real whole-file operations issued concurrently on one mutable node (grid)
# ---------------------------------------------------------------------------
INNER = ["_download_best_version", "_overwrite", "_upload", "_modify", "_get_servermap"]


def real_ops_case(ctx, seed, r):
    from core import grid as G
    from twisted.internet import defer
    import allmydata.mutable.filenode as MF
    from allmydata.mutable.publish import MutableData
    from allmydata.mutable.common import MODE_READ
    log = []
    saved = {}

    def wrap(name):
        orig = getattr(MF.MutableFileNode, name)
        saved[name] = orig

        import functools

        @functools.wraps(orig)
        def wrapper(self, *a, **kw):
            tok = (name, len(log))
            log.append(("S", tok))
            d = defer.maybeDeferred(orig, self, *a, **kw)

            def done(res):
                log.append(("F", tok))
                return res
            d.addBoth(done)
            return d
        setattr(MF.MutableFileNode, name, wrapper)
    for nm in INNER:
        wrap(nm)
    try:
        with G.Grid(num_clients=1, num_servers=5, k=2, n=4, happy=1, seed=seed, timeout=180) as g:
            node = g.run(g.create_mutable(b"v0", version=r.choice(["sdmf", "mdmf"])))
            del log[:]
            # every case: a long first operation, then each kind of serialised operation
            # requested while it is still running (plus random extras)
            first = r.choice(["overwrite", "modify"])
            rest = ["servermap", "read", "modify", "overwrite"]
            r.shuffle(rest)
            kinds = [first] + rest[:r.choice([3, 4])] + [r.choice(["read", "modify"])]
            plan = []
            expect = b"v0"
            reads_expected = []
            ds = []
            for j, kind in enumerate(kinds):
                plan.append(kind)
                if kind == "overwrite":
                    data = b"ow%d-" % j + bytes([65 + j]) * r.randint(0, 40)
                    expect = data
                    ds.append(node.overwrite(MutableData(data)))
                elif kind == "modify":
                    suffix = b"+m%d" % j
                    # half of the modifiers hit the uncoordinated-write retry branch once (as
                    # allmydata's own tests provoke it): the retry must stay inside this operation
                    collide = r.random() < 0.5
                    state = {"calls": 0}

                    def modifier(old, servermap, first_time, suffix=suffix, collide=collide, state=state):
                        state["calls"] += 1
                        if collide and state["calls"] == 1:
                            from allmydata.mutable.common import UncoordinatedWriteError
                            raise UncoordinatedWriteError("simulated")
                        return old + suffix
                    expect = expect + suffix
                    ds.append(node.modify(modifier, backoffer=lambda n, f: defer.succeed(None)))
                elif kind == "read":
                    reads_expected.append((j, expect))
                    ds.append(node.download_best_version())
                else:
                    ds.append(node.get_servermap(MODE_READ))
            out = g.run(defer.DeferredList(ds, consumeErrors=True), outcome=True)
            clog = list(log)   # the concurrent phase only
            final = g.run(node.download_best_version(), outcome=True)
        case = {"seed": seed, "plan": plan}
        ctx.case(("realops", seed, tuple(plan)), kind="grid-real-ops")
        if out.status != "ok" or not all(s for s, _ in out.value):
            ctx.oracle_fail("serialized-op-failed", "a whole-file operation issued concurrently through one node failed: %r" % (out,), case=case)
            return
        # inner calls (only those made at top level by _do_serialized: nested helper calls are
        # contained in their parent) must not overlap
        depth = 0
        tops = []
        overlap = False
        open_tok = None
        for ev, tok in clog:
            if ev == "S":
                if open_tok is None:
                    open_tok = tok
                    tops.append(tok[0])
                else:
                    depth += 1   # nested call inside a serialized operation
            else:
                if tok == open_tok:
                    open_tok = None
                elif depth > 0:
                    depth -= 1
                else:
                    overlap = True
        # nested calls are legal only if they finish before their parent; an operation that
        # starts while another is open and outlives it is an overlap
        starts = {}
        intervals = []
        for ix, (ev, tok) in enumerate(clog):
            if ev == "S":
                starts[tok] = ix
            else:
                intervals.append((starts[tok], ix, tok[0]))
        for a in intervals:
            for b in intervals:
                if a[0] < b[0] < a[1] < b[1]:
                    overlap = True
        want_tops = {"overwrite": "_overwrite", "modify": "_modify", "read": "_download_best_version", "servermap": "_get_servermap"}
        want = [want_tops[k] for k in plan]
        top_level = [name for (s, e, name) in sorted(intervals) if not any(o[0] < s and e < o[1] for o in intervals)]
        if overlap:
            ctx.oracle_fail("serialized-ops-overlap", "whole-file operations on one node overlapped: %r" % (clog,), case=case, observed=repr(clog))
        elif top_level != want:
            ctx.oracle_fail("serialized-ops-order", "operations ran as %r, requested as %r" % (top_level, want), case=case, expected=want, observed=top_level)
        for (j, exp) in reads_expected:
            got = out.value[j][1]
            if got != exp:
                ctx.oracle_fail("serialized-read-sees-wrong-state", "read #%d returned %r, sequential semantics give %r" % (j, got, exp), case=case,
                                expected=exp, observed=got)
        if final.status != "ok" or final.value != expect:
            ctx.oracle_fail("serialized-lost-update", "final contents %r differ from the operations applied in request order %r" % (final.value, expect),
                            case=case, expected=expect, observed=final.value)
        else:
            ctx.trace(1)
    finally:
        for nm, orig in saved.items():
            setattr(MF.MutableFileNode, nm, orig)


_old_grid_cases = grid_cases


def grid_cases(ctx):  # noqa: F811
    _old_grid_cases(ctx)
    try:
        from core import grid as G  # noqa: F401
    except Exception:
        return
    n = ctx.n(6, 40)
    for i in range(n):
        r = ctx.rng("realops", i)
        real_ops_case(ctx, r.getrandbits(30), r)


# ---------------------------------------------------------------------------
# A read that takes the NotEnoughShares retry path must finish and must not block the node
# ---------------------------------------------------------------------------
def readonly_retry_case(ctx, seed, r):
    from core import grid as G
    from twisted.internet import defer
    from allmydata.storage.mutable import MutableShareFile
    import struct
    OFF = MutableShareFile.DATA_OFFSET
    k, N = 3, r.choice([6, 10])
    with G.Grid(num_clients=2, num_servers=N, k=k, n=N, happy=1, seed=seed, timeout=120) as g:
        node = g.run(g.create_mutable(b"some contents " * 3, version="sdmf"))
        rocap = node.get_readonly_uri()
        # damage the block data of all but k-1 shares: every download attempt runs out of good shares
        shs = g.find_shares(node.get_uri())
        r.shuffle(shs)
        for sh in shs[:N - (k - 1)]:
            raw = g.read_share(sh)
            offs = struct.unpack(">LLLLQQ", raw[OFF + 75:OFF + 107])
            pos = OFF + offs[3]
            g.write_share(sh, raw[:pos] + bytes([raw[pos] ^ 1]) + raw[pos + 1:])
        use_ro = r.random() < 0.7
        n2 = g.node(rocap if use_ro else node.get_uri(), client=1)
        ds = [n2.download_best_version(), n2.download_best_version(), n2.get_size_of_best_version()]
        out = g.run(defer.DeferredList(ds, consumeErrors=True), outcome=True)
        case = {"seed": seed, "N": N, "k": k, "readonly": use_ro}
        ctx.case(("retry", seed, use_ro), kind="grid-retry-path")
        if out.status in ("hung", "timeout"):
            ctx.oracle_fail("serialized-operation-never-finished",
                            "a read that ran out of shares on a %s node never finished (%s) and the operations queued behind it never started" % (
                                "read-only" if use_ro else "writeable", out.status), case=case)
            return
        # afterwards the node must still serve operations: heal the shares and read again
        for sh in g.find_shares(node.get_uri()):
            pass
        again = g.run(n2.get_size_of_best_version(), outcome=True)
        if again.status in ("hung", "timeout"):
            ctx.oracle_fail("node-blocked-after-failed-operation", "after failed reads the node no longer completes operations (%s)" % again.status, case=case)
        else:
            ctx.trace(1)


_prev_grid_cases = grid_cases


def grid_cases(ctx):  # noqa: F811
    _prev_grid_cases(ctx)
    try:
        from core import grid as G  # noqa: F401
    except Exception:
        return
    n = ctx.n(4, 24)
    for i in range(n):
        r = ctx.rng("retry", i)
        readonly_retry_case(ctx, r.getrandbits(30), r)
