"""C26  Garbage collection deletes exactly the expired shares.

Implementation under test: the real LeaseCheckingCrawler of a real StorageServer that is built by
the real _Client.get_anonymous_storage_server from a tahoe.cfg [storage] section (expire.* options),
over real immutable and mutable shares created through the server's own API (allocate_buckets,
slot_testv_and_readv_and_writev, add_lease) with a settable clock, carrying 0..5 leases whose renewal
times lie around the policy's threshold.  `time` inside allmydata.storage.expirer / lease / crawler
is substituted from here (module attributes) by a fixed clock; crawl cycles are driven by calling
start_slice() directly, in one slice, in several slices (the crawler's clock advances per call) and
with a restart (a new StorageServer on the same directory) between slices.  Configuration handling and
crawls are also run with the process's local time zone set to several non-UTC zones (TZ + time.tzset(),
restored afterwards): the cutoff handed to the lease checker must be midnight UTC whatever the zone.
Model: coq/Model/Expirer.v (process_share, policy_of_config) evaluated by vm_compute.
Oracle: the property's rule evaluated on the renewal times the leases were created with."""
import calendar
import os
import shutil
import time

from core import env
from core import term as T

ID = "C26"
GEN = ["crawlconsts"]
RULE = ("cases: one case = one share (immutable or mutable container, schema v1 or v2, 0..5 leases with renewal times at "
        "threshold-40d, -1d, -1s, exactly the threshold, +1s, +1d, +20d; some with a repeated cancel secret) under one of the "
        "84 policy configurations (expire.enabled true/false/absent x {age, age with override 7days / 2mo / 60 days / 0 days, cutoff-date x2} x "
        "immutable/mutable filters, written as tahoe.cfg text; every fourth server is also constructed directly with the same parameters), crawled in one slice, in several slices, or with a restart "
        "in mid-cycle, with the process time zone left alone or set to EST5 / CET-1 / PST8 / NZST-12 (every cutoff-date "
        "configuration is crawled under a non-UTC zone in some round), plus one case per (configuration text, time zone in "
        "{unchanged, EST5, JST-9}) for the option handling (valid and refused ones), judged against the documented meaning "
        "of the values (durations in days, dates as midnight UTC) written down in the driver; distinct = "
        "distinct (configuration, container type, schema, lease offsets, secret pattern, crawl style); non-trivial = a share "
        "with at least one lease under an enabled policy whose type is enabled (the deletion decision depends on the leases)")
META = {
    "title": "Garbage collection deletes exactly the expired shares",
    "level_text": ("Theorems in Coq over an executable model of LeaseCheckingCrawler.process_share/process_bucket, the lease age "
                   "accessors, cancel_lease and the expire.* option handling: with expiration disabled nothing is ever changed; a "
                   "share is unlinked only if expiration and its share type are enabled and every lease is expired under the "
                   "property's rule (age +/- override, cutoff), and then it is unlinked; surviving shares keep exactly their "
                   "unexpired leases; composed with C27's crawler model, such a share is gone before finished_cycle under any "
                   "interruptions and kills.  The model is run against the real lease checker on real shares for every policy "
                   "configuration, and the rule is evaluated directly on the files left after a cycle."),
    "level_note": ("Stated hypotheses: distinct cancel secrets on a share, at least one lease for `is deleted`, the clock does not "
                   "go back.  Outside them the code misbehaves (recorded findings: a lease-less share is never collected; a "
                   "repeated cancel secret lets an expired lease remove an unexpired one or crash the crawler).  Two defects were "
                   "repaired in /repo: the age rule without override, and the lease checker dying after a restart in mid-cycle.  "
                   "Space-recovered byte counters, the lease-age histogram and the history file are not modelled (share counters "
                   "are); duration/date parsing belongs to C48."),
    "technique": "Coq proof (all policies, all lease lists; composed with the C27 crawler model) + differential run vs the real lease checker over real shares with a controlled clock + direct oracle",
    "design_ref": "8/C26, 9",
    "trusted_base": ["hand-written model coq/Model/Expirer.v, tied to expirer.py/lease.py/immutable.py/mutable.py/client.py by AST fingerprints and the correspondence run",
                     "translator harness/translate/crawlconsts.py (31-day constants)",
                     "clock substitution in harness/props/c26.py"],
    "assumptions": ["leases on one share carry pairwise distinct cancel secrets", "nobody renews the leases during the cycle",
                    "the clock seen by the expirer does not go backwards"],
}

IMPORTS = ["Lib.Hex", "Model.Crawler", "Model.Expirer"]
DAY = 86400
D31 = 31 * DAY
NOW = 1700000000
OFFSETS = [-40 * DAY, -DAY, -1, 0, 1, DAY, 20 * DAY]
# What the documentation says the option values mean, written down here independently of
# util/time_format.py: durations in days (a month is 31 days, a year 365), dates as midnight UTC at
# the beginning of the given day (docs/garbage-collection.rst).
DURATIONS = {"7days": 7 * DAY, "2mo": 62 * DAY, "60 days": 60 * DAY, "1 year": 365 * DAY, "0 days": 0}
DATES = {d: calendar.timegm(tuple(int(x) for x in d.split("-")) + (0, 0, 0)) for d in ("2023-11-10", "2023-09-01")}
# POSIX TZ strings (no zoneinfo needed).  The node's local time zone must not matter.
ZONES = [None, "EST5", "JST-9"]
CRAWL_ZONES = ["EST5", "CET-1", None, "PST8", "NZST-12"]


class Zone(object):
    """Run a block with the process's local time zone set to a POSIX TZ string (None: leave it)."""

    def __init__(self, tz):
        self.tz = tz

    def __enter__(self):
        if self.tz is not None:
            self.saved = os.environ.get("TZ")
            os.environ["TZ"] = self.tz
            time.tzset()
        return self

    def __exit__(self, *a):
        if self.tz is not None:
            if self.saved is None:
                os.environ.pop("TZ", None)
            else:
                os.environ["TZ"] = self.saved
            time.tzset()


def expected_policy(c):
    """The policy the documentation promises for a configuration (None: the node refuses to start);
    same shape as observed_policy."""
    enabled = bool(c["enabled"])
    mode = c["mode"]
    if mode is None:
        if enabled:
            return None
        mode = "age"
    if mode not in ("age", "cutoff-date"):
        return None
    if mode == "cutoff-date" and c["cutoff"] is None:
        return None
    types = tuple(t for t, on in (("immutable", c["immutable"]), ("mutable", c["mutable"])) if on is None or on)
    return (enabled, mode, c["override"] if mode == "age" else None, c["cutoff"] if mode == "cutoff-date" else None, types)


class FixedTime(object):
    def __init__(self, now):
        self.now = now

    def time(self):
        return self.now


class CountingTime(object):
    """Crawler clock that advances by one per call: a slice of cpu_slice=S ends after about S calls."""

    def __init__(self):
        self.n = 0

    def time(self):
        self.n += 1
        return self.n


class Patched(object):
    def __init__(self, now, crawler_clock=None):
        self.now = now
        self.crawler_clock = crawler_clock

    def __enter__(self):
        from allmydata.storage import crawler, expirer, lease
        self.mods = (crawler, expirer, lease)
        self.saved = [m.time for m in self.mods]
        ft = FixedTime(self.now)
        crawler.time = self.crawler_clock or ft
        expirer.time = ft
        lease.time = ft
        return self

    def __exit__(self, *a):
        for m, t in zip(self.mods, self.saved):
            m.time = t


# ---- configurations ------------------------------------------------------------
def config_texts():
    """(text of the expire.* lines, model config term parts, parsed override, parsed cutoff)."""
    modes = [("age", None, None), ("age", "7days", None), ("age", "2mo", None), ("age", "60 days", None), ("age", "0 days", None),
             ("cutoff-date", None, "2023-11-10"), ("cutoff-date", None, "2023-09-01")]
    out = []
    for enabled in (True, False, None):       # None: expire.enabled absent
        for mode, ovr, cut in modes:
            for imm, mut in ((None, None), (True, False), (False, True), (False, False)):
                lines = []
                if enabled is not None:
                    lines.append("expire.enabled = %s" % ("true" if enabled else "false"))
                lines.append("expire.mode = %s" % mode)
                if ovr:
                    lines.append("expire.override_lease_duration = %s" % ovr)
                if cut:
                    lines.append("expire.cutoff_date = %s" % cut)
                if imm is not None:
                    lines.append("expire.immutable = %s" % ("true" if imm else "false"))
                    lines.append("expire.mutable = %s" % ("true" if mut else "false"))
                out.append({"text": "\n".join(lines) + "\n", "enabled": enabled,
                            "mode": mode, "override": DURATIONS[ovr] if ovr else None,
                            "cutoff": DATES[cut] if cut else None, "immutable": imm, "mutable": mut})
    return out


def odd_config_texts():
    return [
        {"text": "", "enabled": None, "mode": None, "override": None, "cutoff": None, "immutable": None, "mutable": None},
        {"text": "expire.enabled = true\n", "enabled": True, "mode": None, "override": None, "cutoff": None, "immutable": None, "mutable": None},
        {"text": "expire.enabled = true\nexpire.mode = bogus\n", "enabled": True, "mode": "bogus", "override": None, "cutoff": None, "immutable": None, "mutable": None},
        {"text": "expire.mode = cutoff-date\n", "enabled": None, "mode": "cutoff-date", "override": None, "cutoff": None, "immutable": None, "mutable": None},
        {"text": "expire.enabled = false\nexpire.mode = weekly\n", "enabled": False, "mode": "weekly", "override": None, "cutoff": None, "immutable": None, "mutable": None},
        {"text": "expire.enabled = true\nexpire.mode = cutoff-date\nexpire.cutoff_date = 2023-11-10\nexpire.override_lease_duration = 7days\n",
         "enabled": True, "mode": "cutoff-date", "override": DURATIONS["7days"], "cutoff": DATES["2023-11-10"],
         "immutable": None, "mutable": None},
        {"text": "expire.override_lease_duration = 1 year\nexpire.mutable = false\n", "enabled": None, "mode": None,
         "override": DURATIONS["1 year"], "cutoff": None, "immutable": None, "mutable": False},
    ]


def t_optbool(b):
    return T.opt(None if b is None else T.boolean(b))


def t_config(c):
    mode = {None: "None", "age": "(Some CfgAge)", "cutoff-date": "(Some CfgCutoff)"}.get(c["mode"], "(Some CfgOther)")
    return "(mk_config %s %s %s %s %s %s)" % (t_optbool(c["enabled"]), mode, T.opt(None if c["override"] is None else T.Z(c["override"])),
                                              T.opt(None if c["cutoff"] is None else T.Z(c["cutoff"])), t_optbool(c["immutable"]), t_optbool(c["mutable"]))


def t_policy(p):
    enabled, mode, override, cutoff, types = p
    m = "(ModeAge %s)" % T.opt(None if override is None else T.Z(override)) if mode == "age" else "(ModeCutoff %s)" % T.Z(cutoff)
    return "(mk_policy %s %s %s %s)" % (T.boolean(enabled), m, T.boolean("immutable" in types), T.boolean("mutable" in types))


class ServerFactory(object):
    """Builds the StorageServer the way a node does, from tahoe.cfg text."""

    def __init__(self, basedir, text, direct=None):
        self.basedir = basedir
        self.text = text
        self.direct = direct      # a policy tuple: construct the StorageServer directly with these parameters
        os.makedirs(basedir, exist_ok=True)

    def make(self, clock):
        if self.direct is not None:
            from allmydata.storage.server import StorageServer
            enabled, mode, override, cutoff, types = self.direct
            return StorageServer(os.path.join(self.basedir, "storage"), b"\x26" * 20, expiration_enabled=enabled, expiration_mode=mode,
                                 expiration_override_lease_duration=override, expiration_cutoff_date=cutoff,
                                 expiration_sharetypes=tuple(types), clock=clock)
        from twisted.application import service
        from allmydata import client, node

        class Stub(service.MultiService):
            STOREDIR = "storage"

            def __init__(self, config):
                service.MultiService.__init__(self)
                self.config = config
                self.nodeid = b"\x26" * 20
                self.stats_provider = None

            def get_config(self, *a, **k):
                return self.config.get_config(*a, **k)

        cfg = node.config_from_string(self.basedir, "portnum", "[node]\nnickname = c26\n[storage]\nenabled = true\n" + self.text,
                                      _valid_config=client._valid_config())
        ss = client._Client.get_anonymous_storage_server(Stub(cfg))
        ss._clock = clock
        return ss


def observed_policy(ss):
    lc = ss.lease_checker
    return (bool(lc.expiration_enabled), lc.mode, lc.override_lease_duration, lc.cutoff_date, tuple(lc.sharetypes_to_expire))


# ---- shares ----------------------------------------------------------------------
class ShareSpec(object):
    def __init__(self, kind, schema, renewals, secret_ids, prefix_byte):
        self.kind = kind                  # "immutable" | "mutable"
        self.schema = schema              # 1 | 2
        self.renewals = list(renewals)    # intended renewal times
        self.secret_ids = list(secret_ids)  # cancel secret identity per lease (repeats = same secret)
        self.prefix_byte = prefix_byte
        self.si = None
        self.path = None

    def has_dup(self):
        return len(set(self.secret_ids)) != len(self.secret_ids)


def secrets(tag, k):
    return (b"R%02d" % k + tag)[:32].ljust(32, b"r"), (b"C%02d" % k + tag)[:32].ljust(32, b"c")


def create_share(ss, clock, spec, serial):
    from allmydata.storage.common import storage_index_to_dir
    from allmydata.storage.immutable import ShareFile
    from allmydata.storage.lease import LeaseInfo
    from allmydata.storage.mutable import MutableShareFile
    from allmydata.storage import immutable_schema, mutable_schema
    si = bytes([spec.prefix_byte, serial & 0xff]) + b"%014d" % serial
    spec.si = si
    tag = b"%06d" % serial
    path = os.path.join(ss.sharedir, storage_index_to_dir(si), "0")
    spec.path = path
    lease_args = []
    for r, sid in zip(spec.renewals, spec.secret_ids):
        rs, _ = secrets(tag, len(lease_args))     # renew secrets always distinct
        _, cs = secrets(tag, sid)
        lease_args.append((r, rs, cs))
    spec.cancel_secrets = [cs for _, _, cs in lease_args]
    if spec.kind == "immutable":
        if spec.schema == 2 and lease_args:
            r, rs, cs = lease_args[0]
            clock.rightNow = r
            _, writers = ss.allocate_buckets(si, rs, cs, {0}, 5)
            writers[0].write(0, b"hello")
            writers[0].close()
            for r, rs, cs in lease_args[1:]:
                clock.rightNow = r
                ss.add_lease(si, rs, cs)
        else:
            # lease-less shares and old-format containers cannot be made through the server
            schema = immutable_schema.schema_from_version(spec.schema)
            sf = ShareFile(path, max_size=5, create=True, schema=schema)
            sf.write_share_data(0, b"hello")
            for r, rs, cs in lease_args:
                ShareFile(path).add_lease(LeaseInfo(1, rs, cs, r + D31, ss.my_nodeid))
    else:
        we = b"W" * 32
        if spec.schema == 2:
            if lease_args:
                r, rs, cs = lease_args[0]
                clock.rightNow = r
                ss.slot_testv_and_readv_and_writev(si, (we, rs, cs), {0: ([], [(0, b"mutable")], None)}, [])
                for r, rs, cs in lease_args[1:]:
                    clock.rightNow = r
                    ss.add_lease(si, rs, cs)
            else:
                clock.rightNow = NOW - 100 * DAY
                ss.slot_testv_and_readv_and_writev(si, (we, b"x" * 32, b"y" * 32), {0: ([], [(0, b"mutable")], None)}, [], renew_leases=False)
        else:
            schema = [s for s in mutable_schema.ALL_SCHEMAS if s.version == 1][0]
            os.makedirs(os.path.dirname(path), exist_ok=True)
            ms = MutableShareFile(path, ss, schema=schema)
            ms.create(ss.my_nodeid, we)
            ms = MutableShareFile(path, ss)
            ms.writev([(0, b"mutable")], None)
            for r, rs, cs in lease_args:
                ms.add_lease(10 ** 9, LeaseInfo(1, rs, cs, r + D31, ss.my_nodeid))


def read_leases(spec):
    """None if the share file is gone, else [(expiration time, cancel secret id)] in file order."""
    from allmydata.storage.shares import get_share_file
    if not os.path.exists(spec.path):
        return None
    out = []
    for li in get_share_file(spec.path).get_leases():
        sid = None
        for k, cs in zip(spec.secret_ids, spec.cancel_secrets):
            if li.is_cancel_secret(cs):
                sid = k
                break
        out.append((int(li.get_expiration_time()), sid))
    return out


def t_leases(ls):
    return T.lst(["(mk_lease %s %s)" % (T.Z(e), T.N(s if s is not None else 999)) for e, s in ls])


def t_state(ls):
    return "Gone" if ls is None else "(Present %s)" % t_leases(ls)


# ---- the property's rule -----------------------------------------------------------
def rule_expired(policy, now, renewal):
    enabled, mode, override, cutoff, types = policy
    if mode == "age":
        return renewal + (override if override is not None else D31) < now
    return renewal < cutoff


def threshold(policy, now):
    enabled, mode, override, cutoff, types = policy
    if mode == "age":
        return now - (override if override is not None else D31)
    return cutoff


def gen_specs(r, nshares, allow_dup):
    specs = []
    for k in range(nshares):
        kind = r.choice(["immutable", "mutable"])
        schema = r.choice([2, 2, 2, 1])
        style = r.choice(["all-expired", "all-expired", "mixed", "mixed", "boundary", "all-valid", "zero", "any"])
        n = 0 if style == "zero" else r.choice([1, 1, 2, 3, 4, 5])
        if style == "all-expired":
            offs = [r.choice([-40 * DAY, -DAY, -1]) for _ in range(n)]
        elif style == "all-valid":
            offs = [r.choice([0, 1, DAY, 20 * DAY]) for _ in range(n)]
        elif style == "boundary":
            offs = [r.choice([-1, 0, 1]) for _ in range(n)]
        else:
            offs = [r.choice(OFFSETS) for _ in range(n)]
        ids = list(range(n))
        if allow_dup and n >= 2 and r.random() < 0.5:
            a, b = r.sample(range(n), 2)
            ids[b] = ids[a]
        specs.append((kind, schema, offs, ids))
    return specs


def run_cycle(factory, clock, ss, style, now):
    """Drive one whole crawl cycle.  Returns (ss, cycle number, exception or None)."""
    lc = ss.lease_checker
    last = lc.state["last-cycle-finished"]
    target = 0 if last is None else last + 1
    if style == "one-slice":
        lc.cpu_slice = 10 ** 9
        with Patched(now):
            try:
                lc.start_slice()
            except Exception as e:
                return ss, target, e
        return ss, target, None
    cc = CountingTime()
    with Patched(now, crawler_clock=cc):
        for k in range(40):
            lc = ss.lease_checker
            lc.cpu_slice = 450
            try:
                lc.start_slice()
            except Exception as e:
                return ss, target, e
            if lc.state["last-cycle-finished"] == target:
                return ss, target, None
            if style == "restart" and k in (0, 2):
                ss = factory.make(clock)       # the node is restarted: a new lease checker reads the state file
    return ss, target, RuntimeError("cycle %d not finished after 40 slices" % target)


def run(ctx):
    from twisted.internet.task import Clock
    ctx.correspondence("expire-options-vs-policy-model")
    ctx.correspondence("lease-checker-vs-process-share-model")
    base = env.subdir("c26")
    terms, info = [], []

    # ---- option handling --------------------------------------------------------
    configs = config_texts()
    allconf = configs + odd_config_texts()
    cfg_terms, cfg_info = [], []
    good = []
    for ci, c in enumerate(allconf):
        want = expected_policy(c)
        if c in configs and want is not None:
            good.append((c, want))
        for tz in ZONES:
            factory = ServerFactory(os.path.join(base, "cfg%d" % ci), c["text"])
            with Zone(tz):
                try:
                    ss = factory.make(Clock())
                    pol = observed_policy(ss)
                except Exception:
                    pol = None
            ctx.case(("config", c["text"], tz), kind="config-" + ("accepted" if pol else "refused"))
            cfg_terms.append("opt_policy_eqb (policy_of_config %s) %s" % (t_config(c), T.opt(None if pol is None else t_policy(pol))))
            cfg_info.append((c["text"], tz, pol))
            # the documented reading of the options, whatever the node's local time zone
            cfgcase = {"config": c["text"], "tz": tz}
            if (pol is None) != (want is None):
                ctx.oracle_fail("gc-config-accepted-or-refused-wrongly", "configuration is %s, documented: %s" % (
                    "refused" if pol is None else "accepted", "refused" if want is None else "accepted"), case=cfgcase,
                    expected=want, observed=pol)
            elif pol is not None:
                if pol[0] != want[0]:
                    ctx.oracle_fail("gc-config-enabled-flag", "expire.enabled=%r gives a lease checker with expiration_enabled=%r" % (c["enabled"], pol[0]),
                                    case=cfgcase, expected=want[0], observed=pol[0])
                if pol[1] == "cutoff-date" and pol[3] != want[3]:
                    ctx.oracle_fail("gc-cutoff-date-not-utc-midnight",
                                    "expire.cutoff_date under TZ=%s: the lease checker uses cutoff %r, midnight UTC of that day is %r" % (tz, pol[3], want[3]),
                                    case=cfgcase, expected=want[3], observed=pol[3])
                if pol[1] == "age" and pol[2] != want[2]:
                    ctx.oracle_fail("gc-override-duration-differs", "expire.override_lease_duration gives %r seconds, documented %r" % (pol[2], want[2]),
                                    case=cfgcase, expected=want[2], observed=pol[2])
                if pol[1] != want[1] or set(pol[4]) != set(want[4]):
                    ctx.oracle_fail("gc-config-mode-or-sharetypes", "mode/share types %r, documented %r" % ((pol[1], pol[4]), (want[1], want[4])),
                                    case=cfgcase, expected=[want[1], list(want[4])], observed=[pol[1], list(pol[4])])
            shutil.rmtree(factory.basedir, ignore_errors=True)
    bad = ctx.coq_check(IMPORTS, cfg_terms, tag="c26cfg")
    for ix in bad:
        ctx.mismatch("expire-options-model-vs-impl", "policy_of_config and _Client.get_anonymous_storage_server disagree",
                     case={"config": cfg_info[ix][0], "tz": cfg_info[ix][1]}, observed=repr(cfg_info[ix][2]),
                     correspondence="expire-options-vs-policy-model")
    ctx.trace(len(cfg_terms) - len(bad))

    # ---- crawls -------------------------------------------------------------------
    # one server per (policy configuration, crawl style)
    state = {"serial": 0}

    def one_server(rnd, gi, c, pol, tz):
        r = ctx.rng("crawl", rnd, gi)
        style = ["one-slice", "slices", "restart"][(gi + rnd) % 3]
        now = NOW + r.choice([0, 12345, 5 * DAY])
        thr = threshold(pol, now)
        dup_round = (gi + rnd) % 4 == 0
        direct = pol if (gi + rnd) % 4 == 1 else None      # every fourth server is constructed without tahoe.cfg
        factory = ServerFactory(os.path.join(base, "s%d_%d" % (rnd, gi)), c["text"], direct=direct)
        clock = Clock()
        ss = factory.make(clock)
        specs = []
        for kind, schema, offs, ids in gen_specs(r, ctx.n(4, 8), False):
            state["serial"] += 1
            serial = state["serial"]
            sp = ShareSpec(kind, schema, [thr + o for o in offs], ids, r.choice([0, 1, 70, 140, 255]))
            create_share(ss, clock, sp, serial)
            specs.append(sp)
        before = [read_leases(sp) for sp in specs]
        for sp, b in zip(specs, before):
            if b is None or [e for e, _ in b] != [x + D31 for x in sp.renewals] or [s for _, s in b] != sp.secret_ids:
                ctx.mismatch("harness-share-setup", "share was not created with the intended leases", case={"kind": sp.kind, "schema": sp.schema},
                             expected=[x + D31 for x in sp.renewals], observed=b, correspondence="lease-checker-vs-process-share-model")
        ss, cycle, exc = run_cycle(factory, clock, ss, style, now)
        case0 = {"config": c["text"], "now": now, "style": style, "tz": tz, "documented_policy": [pol[0], pol[1], pol[2], pol[3], list(pol[4])], "constructed_directly": direct is not None}
        if exc is not None:
            ctx.oracle_fail("gc-lease-checker-dies-after-restart" if style == "restart" else "gc-crawl-raises",
                            "the lease checker raised %s: %s during a %s crawl" % (type(exc).__name__, exc, style), case=case0,
                            observed=type(exc).__name__)
            shutil.rmtree(factory.basedir, ignore_errors=True)
            return
        after = [read_leases(sp) for sp in specs]
        hist = ss.lease_checker.get_state()["history"].get(str(cycle))
        rec = hist["space-recovered"] if hist else {}
        judge(ctx, pol, now, specs, before, after, case0)
        xs = T.lst(["(%s, %s, %s)" % ("Immutable" if sp.kind == "immutable" else "Mutable", t_leases(b), t_state(a))
                    for sp, b, a in zip(specs, before, after)])
        terms.append("cycle_agrees %s %s %s %s %s %s" % (t_policy(pol), T.Z(now), xs, T.N(rec.get("original-shares", 0)),
                                                          T.N(rec.get("configured-shares", 0)), T.N(rec.get("actual-shares", 0))))
        info.append((case0, [(sp.kind, sp.schema, b, a) for sp, b, a in zip(specs, before, after)], rec.get("actual-shares")))
        if len(ctx.samples) < 3 and pol[0] and any(a is None for a in after):
            ctx.sample({"case": case0, "shares": [{"type": sp.kind, "schema": sp.schema, "renewal_minus_threshold": [x - thr for x in sp.renewals],
                                                  "deleted": a is None} for sp, a in zip(specs, after)]})
        # second cycle at a later time: leases that were valid have aged
        if rnd % 2 == 0 and gi % 5 == 0:
            now2 = now + 41 * DAY
            before2 = after
            ss, cycle2, exc2 = run_cycle(factory, clock, ss, style, now2)
            if exc2 is None:
                live = [(sp, b) for sp, b in zip(specs, before2) if b is not None]
                after2 = [read_leases(sp) for sp, _ in live]
                judge(ctx, pol, now2, [sp for sp, _ in live], [b for _, b in live], after2, dict(case0, now=now2, second_cycle=True),
                      renewals_from=[[e - D31 for e, _ in b] for _, b in live])
                hist2 = ss.lease_checker.get_state()["history"].get(str(cycle2))
                rec2 = hist2["space-recovered"] if hist2 else {}
                xs2 = T.lst(["(%s, %s, %s)" % ("Immutable" if sp.kind == "immutable" else "Mutable", t_leases(b), t_state(a))
                             for (sp, b), a in zip(live, after2)])
                terms.append("cycle_agrees %s %s %s %s %s %s" % (t_policy(pol), T.Z(now2), xs2, T.N(rec2.get("original-shares", 0)),
                                                                  T.N(rec2.get("configured-shares", 0)), T.N(rec2.get("actual-shares", 0))))
                info.append((dict(case0, now=now2), [(sp.kind, sp.schema, b, a) for (sp, b), a in zip(live, after2)], rec2.get("actual-shares")))
            else:
                ctx.oracle_fail("gc-crawl-raises", "second cycle raised %s: %s" % (type(exc2).__name__, exc2), case=case0, observed=type(exc2).__name__)
        shutil.rmtree(factory.basedir, ignore_errors=True)

        # repeated cancel secrets: one share per server (a raise ends the crawl)
        if dup_round:
            fixed = [(["immutable", "mutable"][(gi // 4) % 2], 2, [-DAY, DAY], [0, 0]),
                     (["mutable", "immutable"][(gi // 4) % 2], [2, 1][(gi // 8) % 2], [-DAY, -40 * DAY, 20 * DAY], [0, 0, 1])]
            for kind, schema, offs, ids in fixed + gen_specs(ctx.rng("dup", rnd, gi), 2, True):
                if len(set(ids)) == len(ids):
                    return
                state["serial"] += 1
                serial = state["serial"]
                dfac = ServerFactory(os.path.join(base, "d%d" % serial), c["text"])
                dclock = Clock()
                dss = dfac.make(dclock)
                sp = ShareSpec(kind, schema, [thr + o for o in offs], ids, 3)
                create_share(dss, dclock, sp, serial)
                b = read_leases(sp)
                dss, _, dexc = run_cycle(dfac, dclock, dss, "one-slice", now)
                a = read_leases(sp)
                dcase = dict(case0, style="one-slice", duplicate_cancel_secret=True)
                if dexc is None:
                    judge(ctx, pol, now, [sp], [b], [a], dcase)
                    terms.append("negb (sr_raised (process_share %s %s %s %s)) && file_state_eqb (sr_state (process_share %s %s %s %s)) %s" % (
                        t_policy(pol), T.Z(now), "Immutable" if kind == "immutable" else "Mutable", t_leases(b),
                        t_policy(pol), T.Z(now), "Immutable" if kind == "immutable" else "Mutable", t_leases(b), t_state(a)))
                else:
                    ctx.case(("dup-raise", c["text"], kind, schema, tuple(offs), tuple(ids)), kind="duplicate-secret-raises")
                    ctx.oracle_fail("gc-duplicate-cancel-secret-crashes-crawler",
                                    "two expired leases with one cancel secret: the lease checker raised %s" % type(dexc).__name__,
                                    case=dict(dcase, kind=kind, schema=schema, offsets=offs, secret_ids=ids), observed=type(dexc).__name__)
                    terms.append("raise_agrees %s %s %s %s %s" % (t_policy(pol), T.Z(now), "Immutable" if kind == "immutable" else "Mutable",
                                                                  t_leases(b), t_state(a)))
                info.append((dcase, [(kind, schema, b, a)], None))
                shutil.rmtree(dfac.basedir, ignore_errors=True)


    rounds = ctx.n(1, 6)
    ncut = 0
    for rnd in range(rounds):
        for gi, (c, pol) in enumerate(good):
            if pol[1] == "cutoff-date":
                tz = CRAWL_ZONES[(ncut + rnd) % len(CRAWL_ZONES)]
                ncut += 1
            else:
                tz = [None, "PST8", None, "CET-1"][(gi + rnd) % 4]
            with Zone(tz):
                one_server(rnd, gi, c, pol, tz)
    bad = ctx.coq_check(IMPORTS, terms, tag="c26")
    for ix in bad:
        case0, shares, actual = info[ix]
        ctx.mismatch("lease-checker-model-vs-impl", "Model/Expirer.v process_share and the real lease checker leave different share files or counters",
                     case=case0, observed={"shares": shares, "actual-shares": actual}, correspondence="lease-checker-vs-process-share-model")
    ctx.trace(len(terms) - len(bad))


def judge(ctx, pol, now, specs, before, after, case0, renewals_from=None):
    """The property statement on what is left on disk."""
    enabled, mode, override, cutoff, types = pol
    for k, (sp, b, a) in enumerate(zip(specs, before, after)):
        renewals = renewals_from[k] if renewals_from is not None else sp.renewals
        ids = [s for _, s in b]
        dup = len(set(ids)) != len(ids)
        n = len(b)
        type_on = sp.kind in types
        all_expired = all(rule_expired(pol, now, x) for x in renewals)
        should_delete = enabled and type_on and all_expired
        deleted = a is None
        thr = threshold(pol, now)
        case = dict(case0, share={"type": sp.kind, "schema": sp.schema, "renewal_minus_threshold": [x - thr for x in renewals],
                                  "cancel_secret_ids": ids}, policy=list(pol))
        key = (case0["config"], case0["style"], sp.kind, sp.schema, tuple(x - thr for x in renewals), tuple(ids), now - NOW)
        ctx.case(key if (enabled and type_on and n >= 1) else None,
                 kind="%s-%d-leases%s" % (sp.kind, n, "-dup-secret" if dup else ""))
        if deleted and not enabled:
            ctx.oracle_fail("gc-deleted-although-disabled", "a %s share was deleted although expire.enabled is false" % sp.kind, case=case,
                            expected="kept", observed="deleted")
        elif deleted and not type_on:
            ctx.oracle_fail("gc-deleted-disabled-share-type", "a %s share was deleted although expire.%s is false" % (sp.kind, sp.kind), case=case,
                            expected="kept", observed="deleted")
        elif deleted and not all_expired:
            ctx.oracle_fail("gc-duplicate-cancel-secret-deletes-unexpired-lease" if dup else "gc-deleted-share-with-unexpired-lease",
                            "a share was deleted although a lease renewed at threshold%+d s is not expired" % max(x - thr for x in renewals),
                            case=case, expected="kept", observed="deleted")
        elif should_delete and not deleted:
            ctx.oracle_fail("gc-zero-lease-share-not-deleted" if n == 0 else "gc-expired-share-not-deleted",
                            "a %s share with %d leases, all expired under the policy, is still there after a whole crawl cycle" % (sp.kind, n),
                            case=case, expected="deleted", observed="kept")
        if not deleted and not dup:
            # surviving shares keep exactly the unexpired leases (nothing is removed when disabled or filtered)
            want = [(e, s) for (e, s), x in zip(b, renewals) if not (enabled and type_on and rule_expired(pol, now, x))]
            if a != want:
                ctx.oracle_fail("gc-surviving-share-lease-set", "the leases left on a surviving share are not the unexpired ones", case=case,
                                expected=want, observed=a)


def replay(ctx, rec):
    from twisted.internet.task import Clock
    case = rec["case"]
    tz = case.get("tz")
    with Zone(tz):
        return _replay(ctx, case, tz, Clock)


def _replay(ctx, case, tz, Clock):
    base = env.subdir("c26-replay")
    doc0 = case.get("documented_policy")
    direct = (doc0[0], doc0[1], doc0[2], doc0[3], tuple(doc0[4])) if (doc0 and case.get("constructed_directly")) else None
    factory = ServerFactory(os.path.join(base, "r"), case["config"], direct=direct)
    clock = Clock()
    try:
        ss = factory.make(clock)
        observed = observed_policy(ss)
    except Exception as e:
        return {"tz": tz, "configuration_refused": type(e).__name__}
    doc = case.get("documented_policy")
    pol = (doc[0], doc[1], doc[2], doc[3], tuple(doc[4])) if doc else observed
    if observed != pol and observed[1] == "cutoff-date" and observed[3] != pol[3]:
        ctx.oracle_fail("gc-cutoff-date-not-utc-midnight", "under TZ=%s the lease checker uses cutoff %r, midnight UTC of that day is %r" % (tz, observed[3], pol[3]),
                        case=case, expected=pol[3], observed=observed[3])
    now = case.get("now", NOW)
    thr = threshold(pol, now)
    sh = case.get("share")
    if not sh:
        return {"tz": tz, "note": "no share in this record", "policy_in_use": observed, "documented_policy": pol}
    sp = ShareSpec(sh["type"], sh["schema"], [thr + o for o in sh["renewal_minus_threshold"]],
                   [0 if s is None else s for s in sh["cancel_secret_ids"]], 3)
    create_share(ss, clock, sp, 1)
    b = read_leases(sp)
    style = case.get("style", "one-slice")
    ss, _, exc = run_cycle(factory, clock, ss, style, now)
    a = read_leases(sp)
    if exc is not None:
        ctx.oracle_fail("gc-crawl-raises", "lease checker raised %s: %s" % (type(exc).__name__, exc), case=case)
    else:
        judge(ctx, pol, now, [sp], [b], [a], {"config": case["config"], "now": now, "style": style, "tz": tz})
    return {"tz": tz, "policy_in_use": observed, "documented_policy": pol, "leases_before": b, "leases_after": a,
            "raised": None if exc is None else type(exc).__name__}
