"""C32  Servers are ordered consistently and upload permission is enforced."""
import contextlib
import hashlib
import io
from datetime import datetime, timedelta, timezone

from core import env
from core import term as T
from props import c33

ID = "C32"
GEN = ["hashutil"]
RULE = ("cases: (server set with seeds / connection state / certificates, preferred list, grid-manager keys, clock, storage index, "
        "for_upload), each evaluated on two brokers that learned the servers in different orders; the immutable uploader's server "
        "selection and Publish.update_goal on such brokers; and long-lived brokers (same NativeStorageServer objects) queried again "
        "while the clock walks forward across every certificate expiry (one microsecond before / at / after); non-trivial = at "
        "least two candidate servers (the sort decides); distinct = distinct (server ids, seeds, preferred, permitted, storage "
        "index, instant); and tahoe.cfg texts with a [grid_managers] section (well-formed, unusable entries only, good + bad, absent) "
        "taken through config_from_string / from_node_config to a broker; and real in-process grids (upload, lost shares, check-and-repair, "
        "mutable publish, later upload) whose servers answer upload_permitted() from real certificates; and (forced, every run) brokers on "
        "the DEFAULT clock under 9 process time zones with certificates expiring -30h..+30h from the true UTC now")
META = {
    "title": "Servers are ordered consistently and upload permission is enforced",
    "level_text": ("Theorems in Coq over a model of StorageFarmBroker.get_servers_for_psi (stable sort by (unpreferred, SHA-1(psi ++ "
                   "seed)) with the SHA-1 of the regenerated hashutil module), the uploader's use of it and Publish.update_goal: the "
                   "result is a sorted rearrangement; with pairwise distinct keys it is the same for every enumeration of the server "
                   "set; preferred servers come first; upload lists, upload trackers and newly placed mutable shares only involve "
                   "servers whose upload_permitted() is True, which (composed with C33) means a valid unexpired certificate.  The "
                   "model, fed by the C33 certificate model, is run against real StorageFarmBroker / Tahoe2ServerSelector / Publish "
                   "objects with real Ed25519 certificates."),
    "level_note": ("Connection management, the frozenset enumeration order and share placement after server selection are outside the "
                   "model; ties between equal sort keys are resolved by enumeration order (stated as the distinct-keys hypothesis)."),
    "technique": "Coq proof over an executable model regenerated in part from source + differential run vs implementation",
    "design_ref": "8/C32",
    "trusted_base": ["translator harness/translate/hashutil.py (permute_server_hash)", "Lib/SHA256.v SHA-1 validated against hashlib",
                     "driver's mapping of servers/certificates to model records (harness/props/c32.py, c33.py)"],
    "assumptions": ["sort keys pairwise distinct (hypothesis of order_input_independent; SHA-1 collisions / duplicate seeds excluded)"],
}

IMPORTS = ["Lib.Hex", "Lib.Sig", "Model.GridManager", "Model.Permute"]
FURL = "pb://62ubehyunnyhzs7r6vdonnm2hpi52w6y@127.0.0.1:1/x"
US = timedelta(microseconds=1)


def rbytes(r, n):
    return bytes(r.getrandbits(8) for _ in range(n))


def gen_world(r, nmax=12, gm=None, allow_raise=False, horizon=None):
    """A set of servers + client configuration, as pure data."""
    from allmydata.util import base32
    n = r.choice([0, 1, 2, 3, 3, 4, 5, 6, 8, 10, nmax])
    w = c33.World()
    use_gm = (r.random() < 0.6) if gm is None else gm
    keys = [r.randrange(c33.NGM) for _ in range(r.choice([1, 1, 2]))] if use_gm else []
    now = datetime(2025, 6, 1, tzinfo=timezone.utc) + timedelta(seconds=r.randrange(10 ** 7), microseconds=r.randrange(10 ** 6))
    servers = []
    dup_seed = rbytes(r, 20)
    for i in range(n):
        if r.random() < 0.8:
            sid = b"v0-" + base32.b2a(rbytes(r, 32))
        else:
            sid = base32.b2a(rbytes(r, 20))                   # old-style tubid server id
        pub = b"pub-" + sid
        seedmode = r.choice(["ann", "ann", "ann", "default", "dup"])
        seed = rbytes(r, r.choice([1, 20, 20, 32])) if seedmode == "ann" else dup_seed if seedmode == "dup" else None
        certs = []
        for _ in range(r.choice([0, 1, 1, 1, 2]) if use_gm else r.choice([0, 0, 1])):
            kind = r.choice(["valid", "valid", "valid", "valid", "expired", "at-expiry", "other-server", "wrong-signer", "tampered-sig"]
                            + (["signed-garbage"] if allow_raise else []))
            g = r.choice(keys) if keys else r.randrange(c33.NGM)
            exp = now + timedelta(seconds=r.randrange(1, 10 ** 6))
            pk = pub
            ok = True                      # everything but the expiry
            if horizon is not None:
                exp = now + timedelta(seconds=r.randrange(1, horizon), microseconds=r.randrange(10 ** 6))
            if kind == "expired":
                exp = now - timedelta(seconds=r.randrange(1, 10 ** 6))
            elif kind == "at-expiry":
                exp = now + r.choice([timedelta(0), US, -US])
            elif kind == "other-server":
                pk = b"pub-v0-" + base32.b2a(rbytes(r, 32))
                ok = False
            elif kind == "wrong-signer":
                others = [x for x in range(c33.NGM) if x not in keys]
                if others:
                    g = r.choice(others)
                    ok = False
            data = c33.cert_bytes(pk, exp.isoformat())
            if kind == "signed-garbage":
                # valid JSON that validate() cannot read: upload_permitted() raises when called
                # (bytes that are not JSON make create_grid_manager_verifier raise while the server object is built: C33)
                data = r.choice([b"[1]", b'{"expires": 5, "public_key": "x"}', b'{"public_key": "x"}'])
                ok = False
            sig = w.sign(g, data)
            if kind == "tampered-sig":
                b = bytearray(sig)
                b[r.randrange(64)] ^= 1 << r.randrange(8)
                sig = bytes(b)
                ok = False
            certs.append(dict(kind=kind, data=data, sig=sig, exp=exp, static_ok=ok and g in keys, ok=ok and g in keys and exp > now,
                              garbage=(kind == "signed-garbage" and g in keys)))
        raw_bad = None
        if r.random() < 0.1:
            # one entry of "grid-manager-certificates" that SignedCertificate.load cannot parse: the announcement is
            # unusable as a whole (the server object is never built), whatever else the list holds
            good = {"certificate": c33.cert_bytes(pub, (now + timedelta(days=30)).isoformat()).decode(), "signature": "aaaa"}
            raw_bad = (r.randrange(len(certs) + 1),
                       r.choice([dict(good, signature="!!not base32!!"), dict(good, signature=good["signature"].upper() + "1"),
                                 {"certificate": good["certificate"]}, {"signature": "aaaa"}, "a string, not a dict", 17, None,
                                 dict(good, certificate=5), dict(good, signature=["aaaa"]), ["certificate", "signature"]]))
        servers.append(dict(id=sid, seed=seed, connected=r.random() < 0.85, certs=certs, unparseable=raw_bad))
    ids = [s["id"] for s in servers]
    preferred = tuple(x for x in ids if r.random() < 0.3)
    if r.random() < 0.3:
        preferred = preferred + (b"v0-" + base32.b2a(rbytes(r, 32)),)      # a preferred id nobody has
    psi = rbytes(r, r.choice([16, 16, 16, 16, 0, 1, 20, 32]))
    return dict(world=w, keys=keys, now=now, servers=servers, preferred=preferred, psi=psi)


def set_time(W, t):
    """Move the (patched) clock: a certificate is valid at t iff it is valid apart from time and t < expires."""
    W["now"] = t
    for s in W["servers"]:
        for c in s["certs"]:
            c["ok"] = c["static_ok"] and c["exp"] > t


def rule_outcome(W, s):
    """The property's rule, from how the certificates were made: 'permit' iff no keys are configured or the
    server presents a valid unexpired certificate; 'raise' only for the excluded inputs (a certificate signed
    by a configured grid manager whose content cannot be read, met before any valid one)."""
    if not W["keys"]:
        return "permit"
    for c in s["certs"]:
        if c["garbage"]:
            return "raise"
        if c["ok"]:
            return "permit"
    return "deny"


def rule_permitted(W, s):
    return rule_outcome(W, s) == "permit"


def rule_raises(W, s):
    return rule_outcome(W, s) == "raise"


def build_broker(W, order, cfg, preferred=None, scc=None):
    from allmydata.storage_client import StorageFarmBroker, StorageClientConfig
    from allmydata.util import base32
    if scc is None:
        scc = StorageClientConfig(preferred_peers=W["preferred"] if preferred is None else preferred,
                                  grid_manager_keys=[c33.key("G%d" % g)[1] for g in W["keys"]])
    sb = StorageFarmBroker(True, None, cfg, scc)
    for i in order:
        s = W["servers"][i]
        ann = {"anonymous-storage-FURL": FURL}
        if s["seed"] is not None:
            ann["permutation-seed-base32"] = base32.b2a(s["seed"]).decode("ascii")
        if s["certs"] or s.get("unparseable"):
            ann["grid-manager-certificates"] = [{"certificate": c["data"].decode("utf-8"), "signature": base32.b2a(c["sig"]).decode("ascii")}
                                                for c in s["certs"]]
            if s.get("unparseable"):
                ann["grid-manager-certificates"].insert(*s["unparseable"])
        try:
            sb.test_add_rref(s["id"], FakeRref(s["id"]), ann)
        except Exception:
            continue                      # the announcement is refused: the broker does not know this server
        if not s["connected"]:
            sb.servers[s["id"]]._is_connected = False
    return sb


def usable(s):
    """Can a server object be built from this server's announcement at all?"""
    return not s.get("unparseable")


class FakeBucket(object):
    def callRemote(self, *a, **kw):
        from twisted.internet import defer
        return defer.succeed(None)

    def callRemoteOnly(self, *a, **kw):
        return None


class FakeRref(object):
    """Stands for the RemoteReference to a storage server; records the calls it receives."""
    log = None

    def __init__(self, sid):
        self.sid = sid
        self.version = {b"http://allmydata.org/tahoe/protocols/storage/v1": {b"maximum-immutable-share-size": 2 ** 40,
                                                                             b"maximum-mutable-share-size": 2 ** 40,
                                                                             b"available-space": 2 ** 40},
                        b"application-version": b"verif-fake"}

    def callRemote(self, meth, *a, **kw):
        from twisted.internet import defer
        if FakeRref.log is not None:
            FakeRref.log.append((self.sid, meth))
        if meth == "get_buckets":
            return defer.succeed({})
        if meth == "allocate_buckets":
            return defer.succeed((set(), dict((sh, FakeBucket()) for sh in a[3])))
        return defer.succeed(None)

    def notifyOnDisconnect(self, *a, **kw):
        return None


def expected_order(W, for_upload, seeds):
    """Independent oracle: sorted by (not preferred, SHA-1(psi + seed)); returns (list of ids, has_ties) or 'raise'."""
    cand = [s for s in W["servers"] if s["connected"] and usable(s)]
    if for_upload:
        if any(rule_raises(W, s) for s in cand):
            return "raise", False
        cand = [s for s in cand if rule_permitted(W, s)]
    keyed = [((s["id"] not in W["preferred"], hashlib.sha1(W["psi"] + seeds[s["id"]]).digest()), s["id"]) for s in cand]
    ks = [k for k, _ in keyed]
    return [sid for _, sid in sorted(keyed)], len(set(ks)) != len(ks)


def srv_term(W, s, idx, seed, spk_ids, bad=False):
    tbl, cs = c33.sym_parts(W["world"], s["certs"], spk_ids)
    pid = spk_ids.setdefault(b"pub-" + s["id"], 100 + len(spk_ids))
    perm = "(sym_permitted %s %s %s %s %s)" % (T.lst(tbl), T.lst([T.N(g) for g in W["keys"]]), T.lst(cs), T.N(pid), T.Z(c33.micros(W["now"])))
    return "(Build_srv %s %s %s %s %s)" % (
        T.N(idx), T.bytes_(seed), T.boolean(s["id"] in W["preferred"]), perm, T.boolean(bad))


def describe(W):
    return {"keys": W["keys"], "now": W["now"].isoformat(), "psi": W["psi"].hex(), "preferred": [p.decode() for p in W["preferred"]],
            "servers": [{"id": s["id"].decode(), "seed": None if s["seed"] is None else s["seed"].hex(), "connected": s["connected"],
                         "certs": [c["kind"] + (":ok" if c["ok"] else "") for c in s["certs"]],
                         "unparseable_certificate_entry": repr(s["unparseable"]) if s.get("unparseable") else None} for s in W["servers"]]}


@contextlib.contextmanager
def clock(W):
    import allmydata.grid_manager as gm
    saved = gm.current_datetime_with_zone
    gm.current_datetime_with_zone = lambda: W["now"]
    try:
        with contextlib.redirect_stdout(io.StringIO()):        # default bad_cert callback print()s
            yield
    finally:
        gm.current_datetime_with_zone = saved


def node_config():
    from allmydata.node import config_from_string
    return config_from_string(env.subdir("c32-node"), "tub.port", "")


def order_case(ctx, i, cfg, terms, info, stream="order"):
    r = ctx.rng(stream, i)
    W = gen_world(r, allow_raise=(stream == "order-raise"))
    n = len(W["servers"])
    order1 = list(range(n))
    order2 = list(range(n))
    r.shuffle(order2)
    idx = dict((s["id"], k) for k, s in enumerate(W["servers"]))
    with clock(W):
        sb1 = build_broker(W, order1, cfg)
        sb2 = build_broker(W, order2, cfg)
        seeds = dict((sid, srv.get_permutation_seed()) for sid, srv in sb1.servers.items())
        for s in W["servers"]:
            srv = sb1.servers.get(s["id"])
            if s.get("unparseable") and srv is not None and W["keys"] and not any(c["ok"] for c in s["certs"]):
                try:
                    ok = srv.upload_permitted()
                except Exception:
                    ok = False
                if ok:
                    ctx.oracle_fail("upload-permitted-with-unparseable-certificates",
                                    "grid-manager keys are configured and server %s announces a certificate list with an entry that cannot be parsed (%s) and no valid "
                                    "certificate; the broker nevertheless holds a server object for it whose upload_permitted() is True"
                                    % (s["id"].decode(), repr(s["unparseable"][1])[:80]),
                                    case=dict(describe(W), stream=stream, index=i), expected="not an upload candidate", observed="upload_permitted() = True")
        for s in W["servers"]:
            if s["seed"] is not None and s["id"] in seeds and seeds[s["id"]] != s["seed"]:
                ctx.oracle_fail("permutation-seed-not-from-announcement", "server %r: get_permutation_seed() differs from the announced seed" % s["id"],
                                case=dict(describe(W), stream=stream, index=i), expected=s["seed"].hex(), observed=seeds[s["id"]].hex())
        both = []
        for for_upload in (False, True):
            res = []
            enum = []
            for sb in (sb1, sb2):
                enum.append([srv.get_serverid() for srv in sb.get_connected_servers()])
                try:
                    res.append([srv.get_serverid() for srv in sb.get_servers_for_psi(W["psi"], for_upload=for_upload)])
                except Exception as e:
                    res.append("raise")
            want, ties = expected_order(W, for_upload, seeds)
            cinfo = dict(describe(W), stream=stream, index=i, for_upload=for_upload)
            ctx.case((tuple(sorted(seeds.items())), W["preferred"], W["psi"], for_upload, tuple(res[0]) if res[0] != "raise" else None)
                     if (res[0] != "raise" and len(res[0]) >= 2) else None, kind=stream + (":upload" if for_upload else ":any"))
            for k, got in enumerate(res):
                if want == "raise" or got == "raise":
                    if got != want:
                        ctx.oracle_fail("server-order-raises-unexpectedly" if got == "raise" else "server-order-no-raise",
                                        "get_servers_for_psi(for_upload=%s) %s" % (for_upload, "raised" if got == "raise" else "did not raise although upload_permitted raises"),
                                        case=cinfo, expected=want if want == "raise" else [x.decode() for x in want], observed=got if got == "raise" else [x.decode() for x in got])
                    continue
                if for_upload and W["keys"]:
                    bad = [x for x in got if not rule_permitted(W, W["servers"][idx[x]])]
                    if bad:
                        ctx.oracle_fail("upload-list-contains-unpermitted-server",
                                        "get_servers_for_psi(for_upload=True) lists %s which holds no valid unexpired certificate from a configured grid manager" % bad[0].decode(),
                                        case=cinfo, expected=[x.decode() for x in want], observed=[x.decode() for x in got])
                        continue
                if sorted(got) != sorted(want):
                    ctx.oracle_fail("server-order-wrong-server-set", "get_servers_for_psi(for_upload=%s) returns a different set of servers than the connected%s ones"
                                    % (for_upload, " and permitted" if for_upload else ""), case=cinfo,
                                    expected=[x.decode() for x in want], observed=[x.decode() for x in got])
                elif not ties and got != want:
                    npref = len([x for x in got if x in W["preferred"]])
                    kind = "preferred-servers-not-first" if any(x not in W["preferred"] for x in got[:npref]) else "server-order-not-by-permuted-hash"
                    ctx.oracle_fail(kind, "get_servers_for_psi(for_upload=%s) order differs from (preferred first, then SHA-1(psi+seed))" % for_upload,
                                    case=cinfo, expected=[x.decode() for x in want], observed=[x.decode() for x in got])
            if "raise" not in res and not ties and res[0] != res[1]:
                ctx.oracle_fail("server-order-depends-on-enumeration", "two brokers that learned the same servers in different orders disagree",
                                case=cinfo, expected=[x.decode() for x in res[0]], observed=[x.decode() for x in res[1]])
            both.append((enum, res, cinfo))
        # model, on the enumeration each broker actually iterates (both flags in one term)
        for k in (0, 1):
            spk_ids = {}
            srvs = [srv_term(W, W["servers"][idx[sid]], idx[sid], seeds[sid], spk_ids) for sid in both[0][0][k]]
            parts = []
            for fu, (enum, res, cinfo) in zip((False, True), both):
                obs = "None" if res[k] == "raise" else "(Some %s)" % T.lst([T.N(idx[x]) for x in res[k]])
                parts.append("opt_ids_eqb (run_get_servers l psi %s) %s" % (T.boolean(fu), obs))
            terms.append("(let l := %s in let psi := %s in %s)" % (T.lst(srvs), T.bytes_(W["psi"]), " && ".join(parts)))
            info.append((stream, i, dict(both[1][2], for_upload="both"), [both[0][1][k], both[1][1][k]]))
    if i < 2:
        ctx.sample({"case": describe(W), "order": [x.decode() for x in res[0]] if res[0] != "raise" else "raise"})
    return W


def run(ctx):
    ctx.correspondence("get_servers_for_psi-vs-model")
    ctx.correspondence("uploader-candidates-vs-model")
    ctx.correspondence("publish-update_goal-vs-model")
    ctx.correspondence("grid-manager-config-vs-model")
    cfg = node_config()
    terms, info = [], []
    for i in range(ctx.n(56, 900)):
        order_case(ctx, i, cfg, terms, info)
    for i in range(ctx.n(10, 120)):
        order_case(ctx, i, cfg, terms, info, stream="order-raise")
    info = [("order", x) for x in info]
    known_answers(ctx, cfg)
    configured_preference(ctx)
    uploader(ctx, cfg, terms, info)
    publisher(ctx, cfg, terms, info)
    aging(ctx, cfg, terms, info)
    gm_config(ctx, terms, info)
    repair_grid(ctx, terms, info)
    default_clock(ctx, cfg, terms, info)
    # one evaluation for all three correspondences (loading the SHA-1 development dominates small batches)
    bad = ctx.coq_check(IMPORTS, terms, tag="c32", shard=max(20, (len(terms) + 7) // 8))
    for ix in bad:
        which, rec = info[ix]
        if which == "order":
            stream, i, cinfo, got = rec
            ctx.mismatch("server-order-model-vs-impl", "Coq model of get_servers_for_psi and StorageFarmBroker differ", case=cinfo,
                         observed=[g if g == "raise" else [x.decode() for x in g] for g in got], correspondence="get_servers_for_psi-vs-model")
        elif which == "upload":
            i, cinfo, contacted, out = rec
            ctx.mismatch("upload-candidates-model-vs-impl", "Coq model of the uploader's server selection and Tahoe2ServerSelector differ", case=cinfo,
                         observed={"contacted": [x.decode() for x in contacted], "outcome": out}, correspondence="uploader-candidates-vs-model")
        elif which == "repair":
            i, cinfo, what = rec
            ctx.mismatch("grid-placement-model-vs-impl", "a real grid %s placed a share outside the model's upload list" % what, case=cinfo,
                         observed=cinfo.get("new_shares"), correspondence="uploader-candidates-vs-model")
        elif which == "gmconfig":
            i, cinfo, result = rec
            ctx.mismatch("grid-manager-config-model-vs-impl", "Coq model of the [grid_managers] section (an unusable entry refuses the configuration) and "
                         "StorageClientConfig.from_node_config differ", case=cinfo, observed=result, correspondence="grid-manager-config-vs-model")
        else:
            i, cinfo, result = rec
            ctx.mismatch("update-goal-model-vs-impl", "Coq model of Publish.update_goal and the implementation differ", case=cinfo,
                         observed=result if not isinstance(result, list) else [(a.decode(), b) for a, b in result],
                         correspondence="publish-update_goal-vs-model")
    ctx.trace(len(terms) - len(bad))


def known_answers(ctx, cfg):
    """test_client.py test_permute / test_permute_with_preferred (also Examples in Props/C32.v)."""
    from allmydata.storage_client import StorageFarmBroker, StorageClientConfig
    from allmydata.util import base32
    for pref, psi, want in (((), b"one", b"31042"), ((), b"two", b"04213"), ((b"1", b"4"), b"one", b"14302"), ((b"1", b"4"), b"two", b"41023")):
        sb = StorageFarmBroker(True, None, cfg, StorageClientConfig(preferred_peers=pref))
        for k in [b"%d" % i for i in range(5)]:
            sb.test_add_rref(k, "rref", {"anonymous-storage-FURL": FURL, "permutation-seed-base32": base32.b2a(k)})
        got = b"".join(s.get_longname() for s in sb.get_servers_for_psi(psi))
        ctx.case(("known", pref, psi), kind="known-answer")
        if got != want:
            ctx.oracle_fail("server-order-known-answer", "permutation for %r with preferred %r is %r, published answer %r" % (psi, pref, got, want),
                            case={"psi": psi.decode(), "preferred": [p.decode() for p in pref]}, expected=want.decode(), observed=got.decode())


def configured_preference(ctx):
    """[client]peers.preferred in tahoe.cfg must have the documented effect (docs/configuration.rst)."""
    from allmydata.client import _valid_config
    from allmydata.node import config_from_string
    from allmydata.storage_client import StorageClientConfig
    for i in range(ctx.n(10, 100)):
        r = ctx.rng("cfgpref", i)
        W = gen_world(r, nmax=8, gm=False)
        conn = [s for s in W["servers"] if s["connected"]]
        if len(conn) < 2:
            continue
        W["preferred"] = tuple(s["id"] for s in conn if r.random() < 0.5) or (conn[-1]["id"],)
        text = "[client]\npeers.preferred = %s\n" % r.choice([",", " , ", ", "]).join(p.decode() for p in W["preferred"])
        cfg = config_from_string(env.subdir("c32-node"), "tub.port", text, _valid_config=_valid_config())
        scc = StorageClientConfig.from_node_config(cfg)
        with clock(W):
            sb = build_broker(W, list(range(len(W["servers"]))), cfg, scc=scc)
            seeds = dict((sid, srv.get_permutation_seed()) for sid, srv in sb.servers.items())
            got = [srv.get_serverid() for srv in sb.get_servers_for_psi(W["psi"])]
        want, ties = expected_order(W, False, seeds)
        ctx.case(("cfgpref", W["preferred"], tuple(got)), kind="configured-preference")
        npref = len([x for x in got if x in W["preferred"]])
        if any(x not in W["preferred"] for x in got[:npref]):
            ctx.oracle_fail("preferred-peers-from-node-config-not-first",
                            "with tahoe.cfg [client]peers.preferred = %s the preferred servers are not placed first" % ",".join(p.decode() for p in W["preferred"]),
                            case=dict(describe(W), stream="cfgpref", index=i, config=text), expected=[x.decode() for x in want], observed=[x.decode() for x in got])
        elif not ties and got != want:
            ctx.oracle_fail("server-order-not-by-permuted-hash", "order with configured preference differs from the rule",
                            case=dict(describe(W), stream="cfgpref", index=i, config=text), expected=[x.decode() for x in want], observed=[x.decode() for x in got])


def uploader(ctx, cfg, terms, info):
    """immutable/upload.py Tahoe2ServerSelector.get_shareholders: which servers does an upload talk to?"""
    for i in range(ctx.n(24, 400)):
        r = ctx.rng("upload", i)
        W = gen_world(r, gm=True if r.random() < 0.8 else False)
        W["psi"] = rbytes(r, 16)
        total = r.choice([1, 2, 3, 4, 10])
        needed = r.randrange(1, total + 1)
        with clock(W):
            sb = build_broker(W, list(range(len(W["servers"]))), cfg)
            happy = r.choice([0, 0, 1, 1, needed])          # 0 is what the immutable repairer asks for
            upload_step(ctx, sb, W, total, needed, dict(describe(W), stream="upload", index=i, total_shares=total, min_happiness=happy), terms, info, i,
                        happy=happy)


def upload_step(ctx, sb, W, total, needed, cinfo, terms, info, i, kind="uploader", happy=1):
    """One upload's server selection on an existing broker, at the current (patched) time."""
    from twisted.internet.task import Clock
    from allmydata.client import SecretHolder
    from allmydata.immutable import upload
    idx = dict((s["id"], k) for k, s in enumerate(W["servers"]))
    seeds = dict((sid, srv.get_permutation_seed()) for sid, srv in sb.servers.items())
    enum = [srv.get_serverid() for srv in sb.get_connected_servers()]
    FakeRref.log = calls = []
    outcome = []
    try:
        sel = upload.Tahoe2ServerSelector(b"verif", None, upload.UploadStatus(), reactor=Clock())
        d = sel.get_shareholders(sb, SecretHolder(b"lease", b"conv"), W["psi"], 1000, 100, 1, total, needed, happy, 500)
        d.addCallbacks(lambda res: outcome.append(("ok", res)), lambda f: outcome.append(("err", f.type.__name__)))
    except Exception as e:
        outcome.append(("err", type(e).__name__))
    finally:
        FakeRref.log = None
    contacted = []
    for sid, meth in calls:
        if sid not in contacted:
            contacted.append(sid)
    if not outcome:
        ctx.mismatch("harness-upload-did-not-complete", "get_shareholders did not complete synchronously", case=cinfo, correspondence="uploader-candidates-vs-model")
        return
    want, ties = expected_order(W, True, seeds)
    ctx.case((kind, tuple(sorted(seeds.items())), W["psi"], total, W["now"], tuple(contacted)) if len(contacted) >= 2 else None, kind=kind)
    unperm = [x for x in contacted if W["keys"] and not rule_permitted(W, W["servers"][idx[x]])]
    if unperm:
        ctx.oracle_fail("upload-contacts-unpermitted-server",
                        "at %s the immutable uploader sent %s to server %s, which holds no certificate from a configured grid manager that is valid at that time"
                        % (W["now"].isoformat(), [m for s, m in calls if s == unperm[0]][0], unperm[0].decode()),
                        case=cinfo, expected=[x.decode() for x in want], observed=[x.decode() for x in contacted])
    elif not ties and contacted != want[:2 * total]:
        ctx.oracle_fail("upload-candidates-not-first-2n-of-order", "the immutable uploader did not contact exactly the first 2*N servers of the permuted upload list, in order",
                        case=cinfo, expected=[x.decode() for x in want[:2 * total]], observed=[x.decode() for x in contacted])
    if (outcome[0] == ("err", "NoServersError")) != (not want):
        ctx.oracle_fail("upload-no-servers-error-mismatch", "NoServersError raised=%s but %d permitted servers are connected" % (outcome[0] == ("err", "NoServersError"), len(want)),
                        case=cinfo, expected=len(want), observed=repr(outcome[0][1]))
    spk_ids = {}
    srvs = [srv_term(W, W["servers"][idx[sid]], idx[sid], seeds[sid], spk_ids) for sid in enum]
    obs = "ICNoServers" if outcome[0] == ("err", "NoServersError") else "(ICServers %s)" % T.lst([T.N(idx[x]) for x in contacted])
    terms.append("cand_eqb (run_upload_candidates %s %s %s) %s" % (T.lst(srvs), T.bytes_(W["psi"]), T.nat(total), obs))
    info.append(("upload", (i, cinfo, contacted, outcome[0][0] if outcome[0][0] == "ok" else outcome[0][1])))


def publisher(ctx, cfg, terms, info):
    """mutable/publish.py Publish.update_goal on a bare Publish object."""
    for i in range(ctx.n(30, 600)):
        r = ctx.rng("publish", i)
        W = gen_world(r, nmax=8, gm=True if r.random() < 0.8 else False)
        W["psi"] = rbytes(r, 16)
        total = r.choice([1, 2, 3, 5, 10])
        with clock(W):
            sb = build_broker(W, list(range(len(W["servers"]))), cfg)
            publish_step(ctx, sb, W, r, total, dict(describe(W), stream="publish", index=i, total_shares=total), terms, info, i)


def publish_step(ctx, sb, W, r, total, cinfo, terms, info, i, kind="publisher"):
    """One Publish.update_goal on an existing broker, at the current (patched) time."""
    from allmydata.mutable.publish import Publish
    from allmydata.mutable.common import NotEnoughServersError
    idx = dict((s["id"], k) for k, s in enumerate(W["servers"]))
    full = list(sb.get_servers_for_psi(W["psi"]))
    allsrv = list(sb.servers.values())
    goal = set()
    for _ in range(r.choice([0, 0, 1, 2, 3, total])):
        if allsrv:
            goal.add((r.choice(allsrv), r.randrange(total)))
    bad = set(s for s in allsrv if r.random() < 0.2)
    p = Publish.__new__(Publish)
    p.goal = set(goal)
    p.bad_servers = set(bad)
    p.total_shares = total
    p.full_serverlist = full
    p._first_write_error = None
    p._new_seqnum = 1
    p.log = lambda *a, **k: None
    try:
        p.update_goal()
        result = sorted((srv.get_serverid(), sh) for srv, sh in p.goal)
    except NotEnoughServersError:
        result = "not-enough"
    except Exception as e:
        result = "raise:" + type(e).__name__
    cinfo = dict(cinfo, bad=sorted(s.get_serverid().decode() for s in bad),
                 goal=sorted((s.get_serverid().decode(), sh) for s, sh in goal), full=[s.get_serverid().decode() for s in full])
    old = set((s.get_serverid(), sh) for s, sh in goal)
    badids = set(s.get_serverid() for s in bad)
    ctx.case((kind, tuple(sorted(old)), tuple(sorted(badids)), total, W["now"], tuple(result) if isinstance(result, list) else result)
             if isinstance(result, list) and len(result) > len(old) else None, kind=kind)
    if isinstance(result, list):
        for sid, sh in result:
            if (sid, sh) in old:
                continue
            if W["keys"] and not rule_permitted(W, W["servers"][idx[sid]]):
                ctx.oracle_fail("publish-places-share-on-unpermitted-server",
                                "at %s Publish.update_goal assigns share %d to %s, which holds no certificate from a configured grid manager that is valid at that time"
                                % (W["now"].isoformat(), sh, sid.decode()),
                                case=cinfo, expected="a permitted server", observed=[(a.decode(), b) for a, b in result])
                break
            if sid in badids:
                ctx.oracle_fail("publish-places-share-on-bad-server", "Publish.update_goal assigns share %d to bad server %s" % (sh, sid.decode()),
                                case=cinfo, expected="a non-bad server", observed=[(a.decode(), b) for a, b in result])
                break
        missing = set(range(total)) - set(sh for _, sh in result)
        if missing:
            ctx.oracle_fail("publish-goal-misses-shares", "after update_goal shares %s have no server" % sorted(missing), case=cinfo,
                            expected=list(range(total)), observed=[(a.decode(), b) for a, b in result])
    elif result == "not-enough":
        able = [s for s in full if s.get_serverid() not in badids and rule_permitted(W, W["servers"][idx[s.get_serverid()]])]
        homeless = set(range(total)) - set(sh for (sid, sh) in old if sid not in badids)
        if able and homeless:
            ctx.oracle_fail("publish-refuses-permitted-server", "at %s Publish.update_goal raised NotEnoughServersError although %s is connected, not bad and holds a valid certificate"
                            % (W["now"].isoformat(), able[0].get_serverid().decode()), case=cinfo, expected="a goal", observed=result)
    spk_ids = {}
    recs = {}
    for s in W["servers"]:
        recs[s["id"]] = srv_term(W, s, idx[s["id"]], b"", spk_ids, bad=s["id"] in badids)
    fullt = T.lst([recs[s.get_serverid()] for s in full])
    goalt = T.lst(["(%s, %s)" % (recs[sid], T.N(sh)) for sid, sh in sorted(old)])
    if isinstance(result, list):
        obs = "(IGGoal %s)" % T.lst(["(%s, %s)" % (T.N(idx[sid]), T.N(sh)) for sid, sh in result])
    else:
        obs = "IGNotEnough" if result == "not-enough" else "IGRaise"
    terms.append("id_goal_eqb (run_update_goal %s %s %s) %s" % (fullt, goalt, T.nat(total), obs))
    info.append(("publish", (i, cinfo, result)))


def aging(ctx, cfg, terms, info, only=None):
    """A long-lived client: ONE StorageFarmBroker and its NativeStorageServer objects are kept while the clock walks
    forward across every certificate expiry.  At each instant the upload list, every server's upload_permitted(), the
    uploader's and the publisher's selections must reflect the certificates valid at THAT instant."""
    for i in (range(ctx.n(14, 140)) if only is None else [only]):
        r = ctx.rng("aging", i)
        for _ in range(30):
            W = gen_world(r, nmax=6, gm=True, horizon=r.choice([5, 100, 10 ** 5]))
            if any(c["static_ok"] and c["exp"] > W["now"] for s in W["servers"] if s["connected"] for c in s["certs"]):
                break
        W["psi"] = rbytes(r, 16)
        t0 = W["now"]
        exps = sorted(set(c["exp"] for s in W["servers"] for c in s["certs"] if c["static_ok"] and c["exp"] > t0))
        times = [t0]
        for e in exps[:3]:
            times += [e - US, e] if r.random() < 0.5 else [e, e + US]
        times.append((exps[-1] if exps else t0) + timedelta(days=r.randrange(1, 1000)))
        times = sorted(set(t for t in times if t >= t0))
        idx = dict((s["id"], k) for k, s in enumerate(W["servers"]))
        total = r.choice([1, 2, 3])
        with clock(W):
            sb = build_broker(W, list(range(len(W["servers"]))), cfg)
            seeds = dict((sid, srv.get_permutation_seed()) for sid, srv in sb.servers.items())
            for step, t in enumerate(times):
                set_time(W, t)
                cinfo = dict(describe(W), stream="aging", index=i, step=step, times=[x.isoformat() for x in times])
                try:
                    got = [srv.get_serverid() for srv in sb.get_servers_for_psi(W["psi"], for_upload=True)]
                except Exception as e:
                    got = "raise"
                perm = dict((sid, srv.upload_permitted()) for sid, srv in sb.servers.items())
                want, ties = expected_order(W, True, seeds)
                ctx.case(("aging", tuple(sorted(seeds.items())), W["psi"], t, tuple(got)), kind="aging")
                stale = [s["id"] for s in W["servers"] if s["id"] in perm and usable(s) and perm[s["id"]] is not rule_permitted(W, s)]
                if stale:
                    sid = stale[0]
                    ctx.oracle_fail("upload-permission-stale" if perm[sid] else "upload-permission-denied-despite-valid-certificate",
                                    "the same server object %s asked again at %s (step %d of a clock walking across certificate expiries) answers upload_permitted()=%r; "
                                    "the certificates valid at that instant say %r" % (sid.decode(), t.isoformat(), step, perm[sid], not perm[sid]),
                                    case=cinfo, expected=not perm[sid], observed=perm[sid])
                if got == "raise" or sorted(got) != sorted(want):
                    ctx.oracle_fail("upload-list-not-the-servers-valid-now",
                                    "at %s (step %d, same broker) get_servers_for_psi(for_upload=True) does not list exactly the connected servers holding a certificate valid at that instant"
                                    % (t.isoformat(), step), case=cinfo, expected=[x.decode() for x in want], observed=got if got == "raise" else [x.decode() for x in got])
                elif not ties and got != want:
                    ctx.oracle_fail("server-order-not-by-permuted-hash", "upload list order differs from (preferred first, then SHA-1(psi+seed))",
                                    case=cinfo, expected=[x.decode() for x in want], observed=[x.decode() for x in got])
                enum = [srv.get_serverid() for srv in sb.get_connected_servers()]
                spk_ids = {}
                srvs = [srv_term(W, W["servers"][idx[sid]], idx[sid], seeds[sid], spk_ids) for sid in enum]
                obs = "None" if got == "raise" else "(Some %s)" % T.lst([T.N(idx[x]) for x in got])
                terms.append("opt_ids_eqb (run_get_servers %s %s true) %s" % (T.lst(srvs), T.bytes_(W["psi"]), obs))
                info.append(("order", ("aging", i, cinfo, [got])))
                if step % 2 == 1 or step == len(times) - 1:
                    upload_step(ctx, sb, W, total, 1, dict(cinfo, total_shares=total, min_happiness=step % 2), terms, info, i, kind="aging-uploader",
                                happy=step % 2)
                    publish_step(ctx, sb, W, r, total, dict(cinfo, total_shares=total), terms, info, i, kind="aging-publisher")
        if i < 1:
            ctx.sample({"aging": describe(W), "times": [x.isoformat() for x in times]})


def gm_config(ctx, terms, info, only=None):
    """tahoe.cfg text -> config_from_string -> StorageClientConfig.from_node_config -> broker.  A [grid_managers] entry
    that cannot be used is an error; it must never shrink the key list, least of all to the empty list that means
    "no grid manager configured, every server is permitted"."""
    from allmydata.client import config_from_string
    from allmydata.storage_client import StorageClientConfig
    for i in (range(ctx.n(24, 240)) if only is None else [only]):
        r = ctx.rng("gmconfig", i)
        W = gen_world(r, nmax=5, gm=True)
        W["psi"] = rbytes(r, 16)
        W["preferred"] = ()                    # the configuration text below names no preferred peers
        scenario = r.choice(["wellformed", "wellformed", "unusable-only", "unusable-only", "unusable-only", "good+bad", "good+bad", "no-section"])
        good = [c33.key("G%d" % g)[2].decode("ascii") for g in W["keys"]]

        def spoil(text):
            how = r.choice(["char-lost", "upper-case", "node-id", "private-key", "two-lines", "empty", "garbage"])
            if how == "char-lost":
                p = r.randrange(8, len(text))
                return how, text[:p] + text[p + 1:]
            if how == "upper-case":
                return how, r.choice([text.upper(), text[:7] + text[7:].upper()])
            if how == "node-id":
                return how, text[len("pub-"):]
            if how == "private-key":
                from allmydata.crypto import ed25519
                return how, ed25519.string_from_signing_key(c33.key("G%d" % W["keys"][0])[0]).decode("ascii")
            if how == "two-lines":
                return how, text[:30] + "\n    " + text[30:]
            if how == "empty":
                return how, ""
            return how, r.choice(["yes", "pub-v0-", "pub-v1-" + text[7:], "http://example.com/gm.pub"])

        entries = []                           # (name, value text, grid-manager index or None, note)
        if scenario == "wellformed":
            entries = [("gm%d" % n, t, W["keys"][n], "ok") for n, t in enumerate(good)]
        elif scenario == "unusable-only":
            for n, t in enumerate(good[:r.choice([1, 1, 2])]):
                how, bad = spoil(t)
                entries.append(("gm%d" % n, bad, None, how))
        elif scenario == "good+bad":
            entries = [("gm0", good[0], W["keys"][0], "ok")]
            how, bad = spoil(good[-1])
            entries.append(("gm1", bad, None, how))
            if r.random() < 0.5:
                entries.reverse()
        text = "[client]\nshares.needed = 1\n"
        if scenario != "no-section":
            text += "[grid_managers]\n" + "".join("%s = %s\n" % (n, v) for n, v, _, _ in entries)
        usable = [g for _, _, g, _ in entries if g is not None]
        unusable = [note for _, _, g, note in entries if g is None]
        try:
            cfg = config_from_string(env.subdir("c32-node"), "tub.port", text)
            scc = StorageClientConfig.from_node_config(cfg)
            refused = None
        except Exception as e:
            refused = type(e).__name__
        cinfo = dict(describe(W), stream="gmconfig", index=i, scenario=scenario, config=text, unusable_entries=unusable)
        W["keys"] = usable                      # the keys in force if the configuration is accepted
        for s_ in W["servers"]:
            for c in s_["certs"]:
                c["static_ok"] = c["static_ok"] and (c33.World.signer_of(W["world"], c["data"], c["sig"]) or (None,))[0] in usable
                c["garbage"] = False
        set_time(W, W["now"])
        ctx.case(("gmconfig", scenario, tuple(unusable), refused is None), kind="gmconfig:" + scenario)
        ents = T.lst(["(Some %s)" % T.N(g) if g is not None else "None" for _, _, g, _ in entries])
        if refused is not None:
            if not unusable:
                ctx.oracle_fail("grid-manager-config-wellformed-refused", "a well-formed [grid_managers] section is refused with %s" % refused, case=cinfo,
                                expected="accepted", observed=refused)
            terms.append("opt_keys_eqb (grid_manager_keys_from_config %s) None" % ents)
            info.append(("gmconfig", (i, cinfo, "refused:" + refused)))
            continue
        idx = dict((s_["id"], k) for k, s_ in enumerate(W["servers"]))
        with clock(W):
            sb = build_broker(W, list(range(len(W["servers"]))), cfg, scc=scc)
            seeds = dict((sid, srv.get_permutation_seed()) for sid, srv in sb.servers.items())
            enum = [srv.get_serverid() for srv in sb.get_connected_servers()]
            got = {}
            for fu in (False, True):
                got[fu] = [srv.get_serverid() for srv in sb.get_servers_for_psi(W["psi"], for_upload=fu)]
        nkeys = len(scc.grid_manager_keys)
        if entries and not usable:
            # nothing usable is configured although the operator configured a grid manager
            uncert = [x.decode() for x in got[True]]
            ctx.oracle_fail("grid-manager-config-fails-open",
                            "tahoe.cfg has a [grid_managers] section whose %d entr%s unusable (%s); the configuration is accepted with %d grid-manager keys and "
                            "get_servers_for_psi(for_upload=True) lists %d server(s) -- uploads go to servers no grid manager certified"
                            % (len(entries), "y is" if len(entries) == 1 else "ies are", ", ".join(unusable), nkeys, len(uncert)),
                            case=cinfo, expected="configuration refused (or no server permitted)", observed=uncert)
        else:
            want, ties = expected_order(W, True, seeds)
            bad = [x for x in got[True] if usable and not rule_permitted(W, W["servers"][idx[x]])]
            if bad:
                ctx.oracle_fail("upload-list-contains-unpermitted-server",
                                "with [grid_managers] from tahoe.cfg, get_servers_for_psi(for_upload=True) lists %s which holds no valid certificate from a configured grid manager"
                                % bad[0].decode(), case=cinfo, expected=[x.decode() for x in want], observed=[x.decode() for x in got[True]])
            elif sorted(got[True]) != sorted(want) or (not ties and got[True] != want):
                ctx.oracle_fail("server-order-wrong-server-set", "upload list with [grid_managers] from tahoe.cfg differs from the rule", case=cinfo,
                                expected=[x.decode() for x in want], observed=[x.decode() for x in got[True]])
        terms.append("opt_keys_eqb (grid_manager_keys_from_config %s) (Some %s)" % (ents, T.lst([T.N(g) for g in usable] if nkeys == len(usable) else [T.N(99)] * nkeys)))
        info.append(("gmconfig", (i, cinfo, "accepted with %d keys" % nkeys)))
        spk_ids = {}
        srvs = [srv_term(W, W["servers"][idx[sid]], idx[sid], seeds[sid], spk_ids) for sid in enum]
        parts = ["opt_ids_eqb (run_get_servers l psi %s) (Some %s)" % (T.boolean(fu), T.lst([T.N(idx[x]) for x in got[fu]])) for fu in (False, True)]
        if not (entries and not usable):
            terms.append("(let l := %s in let psi := %s in %s)" % (T.lst(srvs), T.bytes_(W["psi"]), " && ".join(parts)))
            info.append(("order", ("gmconfig", i, cinfo, [got[False], got[True]])))


def repair_grid(ctx, terms, info, only=None):
    """A real in-process grid (allmydata.test.no_network) whose client selects servers with the real
    StorageFarmBroker.get_servers_for_psi and whose servers answer upload_permitted() with real grid-manager verifiers over
    real certificates and a clock we control: upload a file, lose shares, (let a certificate run out,) check-and-repair,
    publish a mutable file.  No operation may ever put a NEW share on a server without a certificate valid at that time."""
    from core import grid as G
    from allmydata.grid_manager import create_grid_manager_verifier, SignedCertificate
    from allmydata.monitor import Monitor
    from allmydata.storage_client import StorageFarmBroker
    from allmydata.util import base32
    for i in (range(ctx.n(5, 40)) if only is None else [only]):
        r = ctx.rng("repair", i)
        ns = r.choice([5, 6, 7])
        n = r.choice([4, 5, 6])
        with G.Grid(num_servers=ns, k=2, n=n, happy=1, seed=r.randrange(2 ** 30)) as g:
            c0 = g.client(0)
            sb = c0.storage_broker

            class RealSelection(sb.__class__):
                permute_peers = True
                preferred_peers = ()
                get_servers_for_psi = StorageFarmBroker.get_servers_for_psi
            sb.__class__ = RealSelection
            w = c33.World()
            gk = r.randrange(c33.NGM)
            base = datetime(2025, 6, 1, tzinfo=timezone.utc) + timedelta(seconds=r.randrange(10 ** 7))
            W = dict(world=w, keys=[gk], now=base, preferred=(), psi=b"", servers=[])
            byidx = {}
            kinds = ["valid"] * 3 + [r.choice(["expired", "none", "other-gm", "soon"]) for _ in range(ns - 3)]
            r.shuffle(kinds)
            for srv, kind in zip(sorted(c0._servers, key=lambda x: g.server_index(x.get_serverid())), kinds):
                pub = b"pub-v0-" + base32.b2a(rbytes(r, 32))
                exp = base + timedelta(days=r.randrange(2, 400))
                signer = gk
                if kind == "expired":
                    exp = base - timedelta(hours=r.randrange(1, 1000))
                elif kind == "soon":
                    exp = base + timedelta(hours=1)              # runs out before the repair
                elif kind == "other-gm":
                    signer = (gk + 1) % c33.NGM
                certs = []
                if kind != "none":
                    data = c33.cert_bytes(pub, exp.isoformat())
                    certs.append(dict(kind=kind, data=data, sig=w.sign(signer, data), exp=exp, static_ok=(signer == gk), ok=False, garbage=False))
                srv.upload_permitted = create_grid_manager_verifier(
                    [c33.key("G%d" % gk)[1]], [SignedCertificate(certificate=c["data"], signature=c["sig"]) for c in certs], pub,
                    now_fn=lambda: W["now"], bad_cert=lambda k_, c_: None)
                rec = dict(id=pub[len(b"pub-"):], seed=srv.get_permutation_seed(), connected=True, certs=certs, unparseable=None, kind=kind)
                byidx[g.server_index(srv.get_serverid())] = len(W["servers"])
                W["servers"].append(rec)
            set_time(W, base)

            def holders_ok(what, cap_or_si, placed, step):
                """placed: {grid server number: [new share numbers]}"""
                W["psi"] = g._si(cap_or_si)
                cinfo = dict(describe(W), stream="repair", index=i, step=step, operation=what, server_kinds=[s_["kind"] for s_ in W["servers"]],
                             new_shares=dict((str(byidx[k_]), v) for k_, v in sorted(placed.items())))
                ctx.case(("repair", what, tuple(sorted(placed.items())), tuple(s_["kind"] for s_ in W["servers"]), W["now"]), kind="grid-" + what)
                for num, shs in sorted(placed.items()):
                    s_ = W["servers"][byidx[num]]
                    if shs and not rule_permitted(W, s_):
                        ctx.oracle_fail("share-placed-on-unpermitted-server:" + what,
                                        "%s at %s wrote new share(s) %s to server #%d, whose certificate state is '%s' (no certificate from the configured grid "
                                        "manager that is valid at that time)" % (what, W["now"].isoformat(), shs, byidx[num], s_["kind"]),
                                        case=cinfo, expected="only servers with a valid certificate receive shares", observed={str(byidx[num]): shs})
                        break
                spk_ids = {}
                srvs = [srv_term(W, s_, k_, s_["seed"], spk_ids) for k_, s_ in enumerate(W["servers"])]
                got = T.lst([T.N(byidx[num]) for num, shs in sorted(placed.items()) if shs])
                terms.append("(let ok := match run_get_servers %s %s true with Some l => l | None => [] end in forallb (fun x => existsb (N.eqb x) ok) %s)"
                             % (T.lst(srvs), T.bytes_(W["psi"]), got))
                info.append(("repair", (i, cinfo, what)))

            data = rbytes(r, r.randrange(200, 3000))
            cap = g.run(g.upload(data, convergence=b""))
            m1 = g.share_map(cap)
            holders_ok("upload", cap, m1, 0)
            lost = r.sample(range(n), r.choice([1, 2, 3]))
            g.delete_shares(cap, shnums=lost)
            if r.random() < 0.6:
                set_time(W, base + timedelta(hours=r.randrange(2, 48)))         # 'soon' certificates have run out by now
            before = g.share_map(cap)
            out = g.run(g.node(cap).check_and_repair(Monitor()), outcome=True)
            after = g.share_map(cap)
            new = dict((num, sorted(set(shs) - set(before.get(num, [])))) for num, shs in after.items())
            holders_ok("check-and-repair", cap, new, 1)
            if out.status != "ok":
                ctx.count("repair-outcome:" + str(out.error))
            mnode = g.run(g.create_mutable(rbytes(r, 100)), outcome=True)
            if mnode.status == "ok":
                holders_ok("mutable-publish", mnode.value.get_uri(), g.share_map(mnode.value.get_uri()), 2)
            cap2 = g.run(g.upload(rbytes(r, 500), convergence=b""), outcome=True)
            if cap2.status == "ok":
                holders_ok("later-upload", cap2.value, g.share_map(cap2.value), 3)


def default_clock(ctx, cfg, terms, info):
    """Forced cases, every run: a real StorageFarmBroker whose server objects use the verifier's DEFAULT clock (nothing
    patched, no now_fn), certificates really signed and expiring -30h, -6h, -1.5h, +1.5h, +6h, +30h from the true UTC
    present, under several process time zones.  Expiry is an absolute instant: uploads are permitted exactly for the servers
    whose certificate expires after the true UTC now, whatever TZ says; the read order is unaffected."""
    import os
    import time
    from allmydata.util import base32
    # pin: the model takes "now" as the true UTC instant; that is what this function's body must say
    import ast
    import inspect
    import allmydata.grid_manager as gm
    ctx.correspondence("default-clock-is-utc-now")
    fn = ast.parse(inspect.getsource(gm.current_datetime_with_zone)).body[0]
    body = [n for n in fn.body if not (isinstance(n, ast.Expr) and isinstance(getattr(n, "value", None), ast.Constant))]
    if [ast.dump(n) for n in body] != [ast.dump(n) for n in ast.parse("return datetime.now(timezone.utc)").body]:
        ctx.mismatch("default-clock-source-changed", "grid_manager.current_datetime_with_zone is no longer `return datetime.now(timezone.utc)`",
                     case={"stream": "default-clock"}, observed=ast.unparse(fn), correspondence="default-clock-is-utc-now")
    saved = os.environ.get("TZ")
    zones = ["UTC", "Etc/GMT+8", "Etc/GMT-9", "Asia/Kolkata", "PST8", "JST-9", "IST-5:30", "HST10", "NZST-12"]
    try:
        for zi, tz in enumerate(zones):
            r = ctx.rng("default-clock", zi)
            os.environ["TZ"] = tz
            time.tzset()
            real = datetime.fromtimestamp(time.time(), timezone.utc)        # independent of TZ
            w = c33.World()
            gk = r.randrange(c33.NGM)
            servers = []
            offsets = [-30, -6, -1.5, 1.5, 6, 30]
            r.shuffle(offsets)
            for off in offsets:
                sid = b"v0-" + base32.b2a(rbytes(r, 32))
                exp = real + timedelta(hours=off)
                data = c33.cert_bytes(b"pub-" + sid, exp.isoformat() if r.random() < 0.5 else exp.astimezone(timezone(timedelta(hours=5, minutes=30))).isoformat())
                servers.append(dict(id=sid, seed=rbytes(r, 20), connected=True, unparseable=None, offset_hours=off,
                                    certs=[dict(kind="expires%+gh" % off, data=data, sig=w.sign(gk, data), exp=exp, static_ok=True, ok=off > 0, garbage=False)]))
            W = dict(world=w, keys=[gk], now=real, servers=servers, preferred=(), psi=rbytes(r, 16))
            set_time(W, real)
            idx = dict((s_["id"], k) for k, s_ in enumerate(servers))
            with contextlib.redirect_stdout(io.StringIO()):
                sb = build_broker(W, list(range(len(servers))), cfg)                # default clock: nothing patched here
                seeds = dict((sid, srv.get_permutation_seed()) for sid, srv in sb.servers.items())
                enum = [srv.get_serverid() for srv in sb.get_connected_servers()]
                got = dict((fu, [srv.get_serverid() for srv in sb.get_servers_for_psi(W["psi"], for_upload=fu)]) for fu in (False, True))
                perm = dict((sid, srv.upload_permitted()) for sid, srv in sb.servers.items())
            cinfo = dict(describe(W), stream="default-clock", index=zi, TZ=tz, true_utc_now=real.isoformat(),
                         expiry_offsets_hours=dict((s_["id"].decode(), s_["offset_hours"]) for s_ in servers))
            ctx.case(("default-clock", tz, tuple(got[True])), kind="default-clock:" + ("UTC" if tz == "UTC" else "non-UTC"))
            wrong = [s_ for s_ in servers if perm[s_["id"]] is not (s_["offset_hours"] > 0)]
            if wrong:
                s_ = wrong[0]
                ctx.oracle_fail("upload-permission-depends-on-time-zone",
                                "process time zone TZ=%s, true UTC now %s: server %s, whose certificate expire%s %g hours %s now, answers upload_permitted()=%r "
                                "with the default clock" % (tz, real.isoformat(), s_["id"].decode(), "s" if s_["offset_hours"] > 0 else "d",
                                                            abs(s_["offset_hours"]), "from" if s_["offset_hours"] > 0 else "before", perm[s_["id"]]),
                                case=cinfo, expected=s_["offset_hours"] > 0, observed=perm[s_["id"]])
            for fu in (False, True):
                want, ties = expected_order(W, fu, seeds)
                if got[fu] != want:
                    ctx.oracle_fail("upload-list-depends-on-time-zone" if fu else "server-order-not-by-permuted-hash",
                                    "TZ=%s, true UTC now %s: get_servers_for_psi(for_upload=%s) is not the permuted list of %s"
                                    % (tz, real.isoformat(), fu, "the servers whose certificate expires after the true UTC now" if fu else "connected servers"),
                                    case=cinfo, expected=[x.decode() for x in want], observed=[x.decode() for x in got[fu]])
            spk_ids = {}
            srvs = [srv_term(W, servers[idx[sid]], idx[sid], seeds[sid], spk_ids) for sid in enum]
            parts = ["opt_ids_eqb (run_get_servers l psi %s) (Some %s)" % (T.boolean(fu), T.lst([T.N(idx[x]) for x in got[fu]])) for fu in (False, True)]
            terms.append("(let l := %s in let psi := %s in %s)" % (T.lst(srvs), T.bytes_(W["psi"]), " && ".join(parts)))
            info.append(("order", ("default-clock", zi, cinfo, [got[False], got[True]])))
    finally:
        if saved is None:
            os.environ.pop("TZ", None)
        else:
            os.environ["TZ"] = saved
        time.tzset()


def replay(ctx, rec):
    c = rec.get("case") or {}
    stream, i = c.get("stream"), c.get("index")
    if stream in ("order", "order-raise"):
        terms, info = [], []
        W = order_case(ctx, i, node_config(), terms, info, stream=stream)
        return {"case": describe(W), "model_vs_impl_disagreements": ctx.coq_check(IMPORTS, terms, tag="c32r")}
    if stream == "repair":
        terms, info = [], []
        repair_grid(ctx, terms, info, only=i)
        return {"operations": [x[1][2] for x in info], "model_vs_impl_disagreements": ctx.coq_check(IMPORTS, terms, tag="c32r")}
    if stream == "gmconfig":
        terms, info = [], []
        gm_config(ctx, terms, info, only=i)
        return {"config": c.get("config"), "model_vs_impl_disagreements": ctx.coq_check(IMPORTS, terms, tag="c32r")}
    if stream == "aging":
        terms, info = [], []
        aging(ctx, node_config(), terms, info, only=i)
        return {"steps": c.get("times"), "model_vs_impl_disagreements": ctx.coq_check(IMPORTS, terms, tag="c32r")}
    return {"note": "stream %r is replayed by running the property check with the recorded seed" % stream}
