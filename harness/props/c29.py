"""C29  Share containers survive a server crash.

The real storage code (allmydata.storage.{immutable,mutable,server},
allmydata.util.fileutil) runs on a scratch directory with the low-level file
functions those modules call replaced *as module attributes* by counting
wrappers (`open` as seen by the module -> unbuffered file objects whose
write/truncate/flush/close are counted; the module's `os` -> a proxy whose
rename/unlink/remove/rmdir/makedirs/mkdir are counted).  For every n the n+1-th
low-level call of an operation raises a private BaseException ("the process
dies"); afterwards every further low-level call raises too, all objects are
dropped, a fresh StorageServer is created on the same directory ("restart") and
the share state is read back through the public API.

Compared per crash point: (a) the direct oracle = the property statements
evaluated against the pre-operation snapshot, (b) the Coq model's prediction
for the same prefix (Model/Crash.v via ctx.coq_check), (c) on the uncrashed run
the exact list of low-level calls against the model's list.
"""
import io
import os
import re
import shutil

from core import env
from core import term as T

ID = "C29"
GEN = []
RULE = ("cases: (workload, operation index j, crash point n) for EVERY n in 0..(number of low-level calls of operation j) "
        "of every operation of seeded workloads (immutable upload with partial/complete writes, close, abort, lease add and "
        "renew on 1-3 shares, allocate_buckets over existing shares, mutable create/writev incl. container growth with more "
        "than four leases, holes, truncation, test-vector failure, deletion) plus crash points inside the restart itself; "
        "non-trivial = the crash run reached the operation and the restarted server answered; distinct = distinct "
        "(operation kind, completed-call prefix, post-restart state)")
META = {
    "title": "Share containers survive a server crash",
    "level_text": ("Theorems in Coq over a byte-level file-system model in which every storage operation is the exact list of "
                   "low-level file calls the code issues: for EVERY prefix of every operation's call list (= every crash point at "
                   "system-call granularity) shares the operation does not name keep their bytes, lease-only operations keep every "
                   "share's data except at the one point between the two writes of the immutable ShareFile.add_lease (refutation "
                   "witness proved and replayed), an uploaded immutable share is absent or equal to the incoming file at close, "
                   "and nothing under incoming/ survives a restart.  The call lists and the post-crash states are compared with "
                   "the real code for every crash point of seeded workloads."),
    "level_note": ("Granularity: one file-object write()/truncate()/rename/unlink = one atomic system call issued in program order "
                   "(the wrappers use unbuffered files; CPython's buffered files delay a write until the next seek/flush/close and "
                   "may coalesce neighbours, which yields a subset of the crash states considered).  The kill model is process "
                   "death: what a completed system call wrote survives; power loss / page-cache reordering below the system-call "
                   "boundary is outside the model.  Not modelled: directories (mkdir/rmdir are crash points in the driver but "
                   "change no model state), NoSpace, MAX_MUTABLE_SHARE_SIZE, BucketWriter's in-memory conflicting-write check, "
                   "lease cancellation (not reachable through the server API).  The share being written by a mutable writev is "
                   "excluded by the property; the model states what holds for it (Props/C29.v, mutable_*)."),
    "technique": "Coq proof over all crash prefixes of modelled call lists + exhaustive crash-point injection on the real code, differential vs model",
    "design_ref": "8/C29, A.5, 9",
    "trusted_base": ["crash-injection wrappers in harness/props/c29.py (module-attribute substitution of open/os in the storage modules)",
                     "Model/Crash.v as a reading of immutable.py/mutable.py/server.py call order (checked call-by-call on every run)"],
    "assumptions": ["a single write()/truncate()/rename()/unlink() system call is atomic with respect to a crash",
                    "completed system calls survive the crash (process kill, not power loss)",
                    "the disk has room (NoSpace not raised); share sizes far below MAX_MUTABLE_SHARE_SIZE"],
}

IMPORTS = ["Lib.Hex", "Lib.FileSys", "Model.Crash"]
# configurations a crashed node may be restarted with; the cleanup of incoming/ and
# everything read back afterwards must not depend on them
RESTART_CONFIGS = [
    {},
    {"readonly_storage": True},
    {"reserved_space": 10 ** 6},
    {"readonly_storage": True, "reserved_space": 10 ** 6},
    {"discard_storage": True},
]


def restart_config(j, n):
    return RESTART_CONFIGS[(3 * j + n) % len(RESTART_CONFIGS)]


KNOWN_KIND = "immutable-add-lease-crash-between-record-and-count-extends-data"

NSI = 4            # storage indexes 0,1 immutable; 2,3 mutable
NSH = 4            # share numbers 0..3
NODEID = b"\x11" * 20
T0 = 1000000


def SI(i):
    return bytes([i + 1]) * 16


def is_mutable_si(i):
    return i >= 2


def secrets(j):
    return (bytes([0x40 + j]) * 32, bytes([0x80 + j]) * 32)


def write_enabler(i):
    return bytes([0xE0 + i]) * 32


# ---------------------------------------------------------------------------
# crash injection
# ---------------------------------------------------------------------------
class Crash(BaseException):
    """The server process dies here."""


class Injector(object):
    def __init__(self):
        self.log = []
        self.limit = None
        self.count = 0
        self.dead = False

    def point(self, *ev):
        """Called immediately BEFORE a low-level mutating call is performed."""
        if self.dead:
            raise Crash()
        if self.limit is not None and self.count >= self.limit:
            self.dead = True
            raise Crash()
        self.count += 1
        self.log.append(ev)

    def arm(self, n):
        self.log = []
        self.count = 0
        self.limit = n


_cur = [None]      # the injector in force
_saved = {}
_saved_misc = {}


class CrashFile(object):
    """A writable binary file as the storage modules use it (seek/read/write/
    truncate/flush/close, context manager), unbuffered so that one write() is
    one system call."""

    def __init__(self, path, mode, chunk=None):
        self.path = path
        self.chunk = chunk       # library copy loops: a big copy is many write(2) calls
        if "w" in mode:
            _cur[0].point("create", path)
        self._f = io.open(path, mode, buffering=0)

    def read(self, n=-1):
        if n is None or n < 0:
            return self._f.readall()
        out = b""
        while len(out) < n:
            chunk = self._f.read(n - len(out))
            if not chunk:
                break
            out += chunk
        return out

    def seek(self, *a):
        return self._f.seek(*a)

    def tell(self):
        return self._f.tell()

    def write(self, b):
        b = bytes(b)
        if self.chunk and len(b) > self.chunk:
            for i in range(0, len(b), self.chunk):
                self.write(b[i:i + self.chunk])
            return len(b)
        _cur[0].point("write", self.path, self._f.tell(), b)
        mv = memoryview(b)
        done = 0
        while done < len(b):
            done += self._f.write(mv[done:])
        return len(b)

    def truncate(self, size=None):
        if size is None:
            size = self._f.tell()
        _cur[0].point("truncate", self.path, size)
        return self._f.truncate(size)

    def flush(self):
        _cur[0].point("flush", self.path)

    def close(self):
        # unbuffered: nothing is pending, closing changes nothing on disk and is
        # therefore not a crash point of its own (the state "after close" is the
        # state before the next counted call)
        if not self._f.closed:
            self._f.close()

    @property
    def closed(self):
        return self._f.closed

    def __enter__(self):
        return self

    def __exit__(self, *a):
        self.close()


class RawCrash(io.FileIO):
    """Raw file under CPython's own BufferedRandom/BufferedWriter: every write
    that reaches it is a real write(2).  Used to confirm that the add_lease
    witness state is reachable with the interpreter's buffering in place."""

    def write(self, b):
        _cur[0].point("write", self.name, self.tell(), bytes(b))
        return io.FileIO.write(self, b)

    def truncate(self, size=None):
        _cur[0].point("truncate", self.name, self.tell() if size is None else size)
        return io.FileIO.truncate(self, size)


_buffered = [False]


def _wrapped_open(path, mode="r", *a, **k):
    if "b" in mode and ("w" in mode or "+" in mode or "a" in mode or "x" in mode):
        if "a" in mode or "x" in mode:
            raise AssertionError("storage code opened %r with unexpected mode %r" % (path, mode))
        if _buffered[0]:
            if "w" in mode:
                _cur[0].point("create", path)
            raw = RawCrash(path, mode.replace("b", ""))
            return io.BufferedRandom(raw) if "+" in mode else io.BufferedWriter(raw)
        return CrashFile(path, mode)
    if "w" in mode or "+" in mode or "a" in mode or "x" in mode:
        raise AssertionError("storage code opened %r in text write mode %r" % (path, mode))
    return io.open(path, mode, *a, **k)


_fault = {"exdev": False}     # environment fault: shares/incoming is on another file system
WATCH_CHUNK = 16


def _watched_open(path, mode="r", *a, **k):
    """builtins.open while the driver runs: binary writes to files below the
    scratch store by code OUTSIDE the storage modules (library helpers such as
    shutil.copyfile) are crash points too; a large library write is split into
    WATCH_CHUNK-byte write calls (a real share is copied in many write(2)s)."""
    try:
        if (isinstance(path, str) and isinstance(mode, str) and "b" in mode and ("w" in mode or "+" in mode)
                and "a" not in mode and "x" not in mode and _cur[0] is not None
                and os.path.abspath(path).startswith(_watch_root())):
            return CrashFile(path, mode, chunk=WATCH_CHUNK)
    except Crash:
        raise
    return io.open(path, mode, *a, **k)


def _watch_root():
    return os.path.join(env.scratch(), "c29") + os.sep


class TimeProxy(object):
    """`time` inside fileutil: the rename/remove retry kludge sleeps 0.1+0.2+0.4 s."""

    def __getattr__(self, name):
        import time
        return getattr(time, name)

    def sleep(self, s):
        return None


class OsProxy(object):
    """Stands in for the `os` module inside the storage modules."""

    def __getattr__(self, name):
        return getattr(os, name)

    def rename(self, a, b):
        if _fault["exdev"] and ("incoming" in a.split(os.sep)) != ("incoming" in b.split(os.sep)):
            import errno
            _cur[0].point("rename-exdev", a, b)
            raise OSError(errno.EXDEV, "Invalid cross-device link", a)
        _cur[0].point("rename", a, b)
        return os.rename(a, b)

    def replace(self, a, b):
        _cur[0].point("rename", a, b)
        return os.replace(a, b)

    def unlink(self, a):
        _cur[0].point("unlink", a)
        return os.unlink(a)

    def remove(self, a):
        _cur[0].point("unlink", a)
        return os.remove(a)

    def rmdir(self, a):
        _cur[0].point("rmdir", a)
        return os.rmdir(a)

    def makedirs(self, a, mode=0o777, exist_ok=False):
        _cur[0].point("makedirs", a)
        return os.makedirs(a, mode, exist_ok)

    def mkdir(self, a, mode=0o777):
        _cur[0].point("mkdir", a)
        return os.mkdir(a, mode)

    def truncate(self, a, n):
        _cur[0].point("truncate", a, n)
        return os.truncate(a, n)


def _modules():
    from allmydata.storage import immutable, mutable, server
    from allmydata.util import fileutil
    return (immutable, mutable, server, fileutil)


def install():
    if _saved:
        return
    import functools
    from allmydata.storage import crawler
    proxy = OsProxy()
    for m in _modules():
        _saved[m] = (m.__dict__.get("open", None), m.os)
        m.open = _wrapped_open
        m.os = proxy
    import builtins
    from allmydata.util import fileutil
    _saved_misc["builtins.open"] = builtins.open
    builtins.open = _watched_open
    _saved_misc["fileutil.time"] = fileutil.time
    fileutil.time = TimeProxy()
    # speed only: ShareCrawler.__init__ base32-encodes 1024 prefixes for each of
    # the two crawlers of every StorageServer; same function, memoised
    _saved_misc["si_b2a"] = crawler.si_b2a
    crawler.si_b2a = functools.lru_cache(maxsize=None)(crawler.si_b2a)


def uninstall():
    for m, (o, osmod) in list(_saved.items()):
        if o is None:
            try:
                del m.open
            except AttributeError:
                pass
        else:
            m.open = o
        m.os = osmod
    _saved.clear()
    if "builtins.open" in _saved_misc:
        import builtins
        builtins.open = _saved_misc.pop("builtins.open")
    if "fileutil.time" in _saved_misc:
        from allmydata.util import fileutil
        fileutil.time = _saved_misc.pop("fileutil.time")
    if "si_b2a" in _saved_misc:
        from allmydata.storage import crawler
        crawler.si_b2a = _saved_misc.pop("si_b2a")


VISIBLE = ("create", "write", "truncate", "rename", "unlink")


# ---------------------------------------------------------------------------
# a server on a scratch directory, workload execution
# ---------------------------------------------------------------------------
class World(object):
    def __init__(self, base):
        from twisted.internet.task import Clock
        from allmydata.storage.server import StorageServer
        self.base = base
        self.clock = Clock()
        self.clock.advance(T0)
        self.inj = Injector()
        _cur[0] = self.inj
        self.ss = StorageServer(base, NODEID, clock=self.clock)
        self.sharedir = os.path.join(base, "shares")
        self.bws = {}
        self.last_finished = None
        self.inprogress = {}        # (si, sh) -> {"size": n, "writes": [(off, data)]}

    # -- helpers -----------------------------------------------------------
    def order(self, si):
        """Share numbers of the bucket in os.listdir order (the order in which
        the real code visits them)."""
        from allmydata.storage.common import storage_index_to_dir
        d = os.path.join(self.sharedir, storage_index_to_dir(SI(si)))
        try:
            return [int(x) for x in os.listdir(d) if re.match(r"^[0-9]+$", x)]
        except OSError:
            return []

    def key_of(self, path):
        """shares/incoming/ab/<si>/<n> or shares/ab/<si>/<n> -> model path term."""
        from allmydata.storage.common import si_b2a
        rel = os.path.relpath(path, self.sharedir).split(os.sep)
        inc = rel[0] == "incoming"
        if inc:
            rel = rel[1:]
        if len(rel) != 3:
            raise ValueError("unexpected path " + path)
        for i in range(NSI):
            if si_b2a(SI(i)).decode() == rel[1]:
                return ("Incoming" if inc else "Final", i, int(rel[2]))
        raise ValueError("unexpected storage index in " + path)

    def now_exp(self):
        from allmydata.storage.server import DEFAULT_RENEWAL_TIME
        return int(self.clock.seconds()) + DEFAULT_RENEWAL_TIME

    def lease_recs(self, owner, j):
        from allmydata.storage.lease import LeaseInfo
        from allmydata.storage import immutable_schema, mutable_schema
        rs, cs = secrets(j)
        li = LeaseInfo(owner, rs, cs, self.now_exp(), NODEID)
        return (immutable_schema.NEWEST_SCHEMA_VERSION.lease_serializer.serialize(li),
                mutable_schema.NEWEST_SCHEMA_VERSION.lease_serializer.serialize(li))

    # -- the model-side description of an operation, taken BEFORE it runs ----
    def sop_term(self, op):
        return _I[0].named("o", "sop", self._sop_term(op))

    def _sop_term(self, op):
        k = op["op"]
        if k == "allocate":
            rec = self.lease_recs(0, op["secret"])[0]
            return "(ImmAllocate %s %s %s %s %s true)" % (
                T.N(op["si"]), nlist(self.order(op["si"])), nlist(list(set(op["shnums"]))), T.N(op["size"]), Bx(rec))
        if k == "write":
            size = self.inprogress[(op["si"], op["sh"])]["size"]
            return "(ImmWrite %s %s %s %s %s)" % (T.N(op["si"]), T.N(op["sh"]), T.N(size), T.N(op["off"]), Bx(bytes.fromhex(op["data"])))
        if k == "hwrite":
            u = self.inprogress[(op["si"], op["sh"])]
            prev = T.lst(["(%s, %s)" % (T.N(o), T.N(len(d))) for (o, d) in reversed(u["writes"])])
            return "(ImmWriteHttp %s %s %s %s %s %s)" % (T.N(op["si"]), T.N(op["sh"]), T.N(u["size"]), prev, T.N(op["off"]),
                                                          Bx(bytes.fromhex(op["data"])))
        if k == "close":
            return "(ImmClose %s %s)" % (T.N(op["si"]), T.N(op["sh"]))
        if k == "close_exdev":
            return "(ImmCloseFailed %s %s)" % (T.N(op["si"]), T.N(op["sh"]))
        if k == "abort":
            return "(ImmAbort %s %s)" % (T.N(op["si"]), T.N(op["sh"]))
        if k == "add_lease":
            ri, rm = self.lease_recs(1, op["secret"])
            return "(AddLease %s %s %s %s)" % (T.N(op["si"]), nlist(self.order(op["si"])), Bx(ri), Bx(rm))
        if k == "renew":
            from allmydata.storage.lease_schema import HashedLeaseSerializer
            hs = HashedLeaseSerializer._hash_secret(secrets(op["secret"])[0])
            return "(RenewLease %s %s %s %s)" % (T.N(op["si"]), nlist(self.order(op["si"])), Bx(hs), T.N(self.now_exp()))
        if k == "writev":
            rm = self.lease_recs(1, op["secret"])[1]
            tw = []
            for sh, (testv, datav, newlen) in op["tw"]:
                tv = T.lst(["(%s, %s, %s)" % (T.N(o), T.N(ln), Bx(bytes.fromhex(sp))) for (o, ln, sp) in testv])
                dv = T.lst(["(%s, %s)" % (T.N(o), Bx(bytes.fromhex(d))) for (o, d) in datav])
                tw.append("(%s, %s, %s, %s)" % (T.N(sh), tv, dv, T.opt(None if newlen is None else T.N(newlen))))
            return "(MutWritev %s %s %s %s %s %s)" % (
                T.N(op["si"]), nlist(self.order(op["si"])), Bx(NODEID), Bx(write_enabler(op["si"])),
                T.lst(tw), T.opt(Bx(rm) if op.get("renew", True) else None))
        raise ValueError(k)

    # -- run one API call ------------------------------------------------------
    def execute(self, op):
        k = op["op"]
        ss = self.ss
        if k == "advance":
            # stays far below BucketWriter's 30-minute upload timeout (which would
            # abort the uploads in progress: an operation of its own, see "abort")
            self.clock.advance(op["dt"])
            if any(bw.closed for bw in self.bws.values()):
                raise AssertionError("workload advanced the clock past the upload timeout")
            return
        if k == "allocate":
            rs, cs = secrets(op["secret"])
            shnums = set(op["shnums"])
            got, bws = ss.allocate_buckets(SI(op["si"]), rs, cs, shnums, op["size"])
            for sh in bws:
                self.bws[(op["si"], sh)] = bws[sh]
                self.inprogress[(op["si"], sh)] = {"size": op["size"], "writes": []}
            return
        if k in ("write", "hwrite"):
            key = (op["si"], op["sh"])
            data = bytes.fromhex(op["data"])
            u = self.inprogress[key]
            self.last_finished = None
            finished = self.bws[key].write(op["off"], data)        # raises when refused
            u["writes"].append((op["off"], data))
            # what BucketWriter.write() answered / what the union of the written ranges says
            self.last_finished = (bool(finished), covered_py(u["size"], u["writes"]), key, u["size"], list(u["writes"]))
            if k == "hwrite" and finished:
                # HTTPServer.write_share_data: "if finished: bucket.close()"
                self.bws[key].close()
                del self.bws[key]
                del self.inprogress[key]
            return
        if k == "close":
            key = (op["si"], op["sh"])
            self.bws[key].close()
            del self.bws[key]
            del self.inprogress[key]
            return
        if k == "close_exdev":
            # close() while rename(2) from incoming/ to the final place answers EXDEV
            key = (op["si"], op["sh"])
            bw = self.bws.pop(key)          # whatever happens, this writer is not used again
            _fault["exdev"] = True
            try:
                bw.close()
            finally:
                _fault["exdev"] = False
                if key in self.inprogress and os.path.exists(bw.finalhome):
                    del self.inprogress[key]
            return
        if k == "abort":
            key = (op["si"], op["sh"])
            self.bws[key].abort()
            del self.bws[key]
            del self.inprogress[key]
            return
        if k == "add_lease":
            rs, cs = secrets(op["secret"])
            ss.add_lease(SI(op["si"]), rs, cs)
            return
        if k == "renew":
            ss.renew_lease(SI(op["si"]), secrets(op["secret"])[0])
            return
        if k == "writev":
            rs, cs = secrets(op["secret"])
            tw = {}
            for sh, (testv, datav, newlen) in op["tw"]:
                tw[sh] = ([(o, ln, b"eq", bytes.fromhex(sp)) for (o, ln, sp) in testv],
                          [(o, bytes.fromhex(d)) for (o, d) in datav], newlen)
            ss.slot_testv_and_readv_and_writev(SI(op["si"]), (write_enabler(op["si"]), rs, cs), tw, [],
                                               renew_leases=op.get("renew", True))
            return
        raise ValueError(k)

    def try_execute(self, op):
        """Returns the exception class name the API call ended with, or None."""
        try:
            self.execute(op)
            return None
        except Crash:
            raise
        except Exception as e:
            return type(e).__name__

    def visible_log(self):
        out = []
        for ev in self.inj.log:
            if ev[0] in VISIBLE:
                out.append(ev)
        return out

    def drop(self):
        self.ss = None
        self.bws = {}


def covered_py(size, writes):
    """Union of the accepted (offset, data) writes = every byte of the share."""
    have = bytearray(size)
    for off, d in writes:
        for i in range(off, min(size, off + len(d))):
            have[i] = 1
    return all(have)


def applicable(w, op):
    """write/close/abort need the BucketWriter an earlier allocate returned
    (a generated workload may name one the server did not grant)."""
    if op["op"] in ("write", "hwrite", "close", "close_exdev", "abort"):
        return (op["si"], op["sh"]) in w.bws
    return True


def nlist(xs):
    return T.lst([T.N(x) for x in xs])


class Interner(object):
    """Byte strings, views and operation descriptions occur in many case terms
    (every crash point repeats the history and most of the state): each distinct
    one becomes a named definition in the preamble of the generated case files."""

    def __init__(self):
        self.names = {}
        self.defs = []

    def bytes_(self, b):
        b = bytes(b)
        if len(b) < 6:
            return T.bytes_(b)
        key = ("b", b)
        if key not in self.names:
            name = "c29b%d" % len(self.names)
            self.names[key] = name
            self.defs.append("Definition %s : list N := Eval vm_compute in %s." % (name, T.bytes_(b)))
        return self.names[key]

    def named(self, prefix, ty, term):
        key = (prefix, term)
        if key not in self.names:
            name = "c29%s%d" % (prefix, len(self.names))
            self.names[key] = name
            self.defs.append("Definition %s : %s := %s." % (name, ty, term))
        return self.names[key]

    def state(self, hist):
        """Name of the model state after the operations `hist` (a tuple of named
        sop terms), computed once per prefix as a finite table."""
        hist = tuple(hist)
        if not hist:
            return "(@empty_fs path)"
        key = ("s", hist)
        if key not in self.names:
            prev = self.state(hist[:-1])
            n = len(self.names)
            self.names[key] = "c29s%d" % n
            self.defs.append("Definition c29t%d : list (path * file) := Eval vm_compute in (step_table %s %s)." % (n, prev, hist[-1]))
            self.defs.append("Definition c29s%d : state := state_of_table c29t%d." % (n, n))
        return self.names[key]

    NAME = re.compile(r"\bc29[bvost]\d+\b")

    def preamble_for(self, terms):
        """Only the definitions the given terms (transitively) refer to, in
        definition order."""
        index = {}
        for pos, d in enumerate(self.defs):
            index[d.split()[1]] = (pos, d)
        need = set()
        todo = [n for t_ in terms for n in self.NAME.findall(t_)]
        while todo:
            n = todo.pop()
            if n in need or n not in index:
                continue
            need.add(n)
            body = index[n][1].split(":=", 1)[1]
            todo += self.NAME.findall(body)
        return "\n".join(d for _, d in sorted(index[n] for n in need))

    def order_key(self, term):
        ss = [int(x[4:]) for x in self.NAME.findall(term) if x.startswith("c29s")]
        if ss:
            return min(ss)
        xs = [int(re.sub(r"\D", "", x)) for x in self.NAME.findall(term)]
        return min(xs) if xs else -1

    def preamble(self):
        return "\n".join(self.defs)


_I = [Interner()]


def Bx(b):
    return _I[0].bytes_(b)


def op_term(world, ev):
    k = ev[0]
    p = lambda x: "(%s %d %d)" % world.key_of(x)
    if k == "create":
        return "(Create %s)" % p(ev[1])
    if k == "write":
        return "(WriteAt %s %s %s)" % (p(ev[1]), T.N(ev[2]), Bx(ev[3]))
    if k == "truncate":
        return "(Truncate %s %s)" % (p(ev[1]), T.N(ev[2]))
    if k == "rename":
        return "(Rename %s %s)" % (p(ev[1]), p(ev[2]))
    if k == "unlink":
        return "(Unlink %s)" % p(ev[1])
    raise ValueError(k)


# ---------------------------------------------------------------------------
# observation through the public API
# ---------------------------------------------------------------------------
ABSENT = ("absent",)
BAD = ("bad",)


def observe(ss):
    """(si, sh) -> view, for every share slot of the universe."""
    from allmydata.storage.immutable import ShareFile
    from allmydata.storage.mutable import MutableShareFile
    out = {}
    problems = []
    for i in range(NSI):
        si = SI(i)
        shares = dict(ss.get_shares(si))
        first = None
        for sh in range(NSH):
            if sh not in shares:
                out[(i, sh)] = ABSENT
                continue
            fn = shares[sh]
            if is_mutable_si(i):
                try:
                    d = ss.slot_readv(si, [sh], [(0, 10 ** 6)])[sh][0]
                except Exception:
                    out[(i, sh)] = BAD
                    continue
                try:
                    leases = tuple(l.to_mutable_data() for l in MutableShareFile(fn).get_leases())
                except Exception:
                    leases = None
                out[(i, sh)] = ("mut", d, leases)
            else:
                try:
                    br = ss.get_buckets(si)[sh]
                    d = br.read(0, 10 ** 6)
                    if br.get_length() != len(d):
                        problems.append("get_length %d != len(read) %d for %r" % (br.get_length(), len(d), (i, sh)))
                    leases = tuple(l.to_immutable_data() for l in ShareFile(fn).get_leases())
                except Exception:
                    out[(i, sh)] = BAD
                    continue
                out[(i, sh)] = ("imm", d, leases)
        for sh in sorted(shares):
            if sh >= NSH:
                problems.append("unexpected share number %d" % sh)
        # the server-level lease listing agrees with the first share's
        try:
            order = [s for s, _ in ss.get_shares(si)]
            if order:
                v = out.get((i, order[0]))
                if v and v[0] == "imm":
                    got = tuple(l.to_immutable_data() for l in ss.get_leases(si))
                    if got != v[2]:
                        problems.append("get_leases differs from the first share's lease list")
                if v and v[0] == "mut" and v[2] is not None:
                    got = tuple(l.to_mutable_data() for l in ss.get_slot_leases(si))
                    if got != v[2]:
                        problems.append("get_slot_leases differs from the first share's lease list")
        except Exception as e:
            problems.append("lease listing raised %s" % type(e).__name__)
    return out, problems


def view_term(v):
    if v == ABSENT:
        return "VAbsent"
    if v == BAD:
        return "VBad"
    if v[0] == "imm":
        return _I[0].named("v", "view", "(VImm %s %s)" % (Bx(v[1]), T.lst([Bx(x) for x in v[2]])))
    return _I[0].named("v", "view", "(VMut %s %s)" % (Bx(v[1]), T.opt(None if v[2] is None else T.lst([Bx(x) for x in v[2]]))))


def obs_term(obs):
    return T.lst(["((Final %d %d), %s)" % (i, sh, view_term(obs[(i, sh)])) for (i, sh) in sorted(obs)])


def data_of(v):
    return v[1] if v[0] in ("imm", "mut") else None


def jview(v):
    if v in (ABSENT, BAD):
        return v[0]
    return {"kind": v[0], "data": v[1].hex(), "leases": None if v[2] is None else [x.hex() for x in v[2]]}


# ---------------------------------------------------------------------------
# workloads
# ---------------------------------------------------------------------------
def hx(b):
    return bytes(b).hex()


def directed_workloads():
    w_imm = [
        {"op": "allocate", "si": 0, "shnums": [0, 1], "size": 30, "secret": 0},
        {"op": "write", "si": 0, "sh": 0, "off": 0, "data": hx(b"a" * 10)},
        {"op": "write", "si": 0, "sh": 0, "off": 10, "data": hx(b"b" * 20)},
        {"op": "close", "si": 0, "sh": 0},
        {"op": "write", "si": 0, "sh": 1, "off": 5, "data": hx(b"c" * 7)},
        {"op": "add_lease", "si": 0, "secret": 1},
        {"op": "advance", "dt": 100},
        {"op": "add_lease", "si": 0, "secret": 1},
        {"op": "advance", "dt": 100},
        {"op": "renew", "si": 0, "secret": 0},
        {"op": "allocate", "si": 0, "shnums": [0, 2], "size": 30, "secret": 2},
        {"op": "close", "si": 0, "sh": 1},
        {"op": "add_lease", "si": 0, "secret": 3},
        {"op": "abort", "si": 0, "sh": 2},
        {"op": "renew", "si": 0, "secret": 5},
    ]
    w_mut = [
        {"op": "writev", "si": 2, "secret": 0, "tw": [[0, [[], [[0, hx(b"x" * 20)]], None]], [1, [[], [[5, hx(b"y" * 5)]], None]]]},
        {"op": "add_lease", "si": 2, "secret": 1},
        {"op": "add_lease", "si": 2, "secret": 2},
        {"op": "add_lease", "si": 2, "secret": 3},
        {"op": "add_lease", "si": 2, "secret": 4},
        {"op": "add_lease", "si": 2, "secret": 5},
        {"op": "advance", "dt": 50},
        {"op": "add_lease", "si": 2, "secret": 4},
        {"op": "writev", "si": 2, "secret": 0, "tw": [[0, [[], [[30, hx(b"z" * 10)]], None]]]},
        {"op": "writev", "si": 2, "secret": 6, "tw": [[1, [[[5, 5, hx(b"y" * 5)]], [[40, hx(b"w" * 3)], [2, hx(b"v")]], None]]]},
        {"op": "writev", "si": 2, "secret": 0, "tw": [[0, [[], [], 7]]]},
        {"op": "writev", "si": 2, "secret": 0, "tw": [[0, [[[0, 3, hx(b"nop")]], [[0, hx(b"q")]], None]]]},
        {"op": "advance", "dt": 50},
        {"op": "renew", "si": 2, "secret": 5},
        {"op": "writev", "si": 2, "secret": 0, "tw": [[1, [[], [], 0]], [2, [[], [[0, hx(b"n" * 4)]], None]]], "renew": False},
        {"op": "writev", "si": 2, "secret": 0, "tw": [[0, [[], [], 0]], [2, [[], [], 0]]]},
    ]
    def ch(sh, i, n=3, si=1):
        return {"op": "hwrite", "si": si, "sh": sh, "off": i * n, "data": hx(bytes([65 + i]) * n)}
    # uploads the way the HTTP protocol drives them: no close, chunks re-sent with
    # identical bytes (a lost response), out of order, overlapping; the byte total
    # of the accepted writes reaches the share size before the union does
    w_http = [
        {"op": "allocate", "si": 1, "shnums": [0, 1], "size": 9, "secret": 0},
        ch(0, 0), ch(0, 0), ch(0, 1),
        ch(1, 2), ch(1, 0), ch(1, 2),
        {"op": "hwrite", "si": 1, "sh": 1, "off": 2, "data": hx(b"A" + b"BB")},
        ch(0, 2),
        {"op": "add_lease", "si": 1, "secret": 1},
        ch(1, 1),
        {"op": "allocate", "si": 1, "shnums": [2, 0], "size": 4, "secret": 2},
        {"op": "hwrite", "si": 1, "sh": 2, "off": 0, "data": hx(b"zz")},
        {"op": "hwrite", "si": 1, "sh": 2, "off": 0, "data": hx(b"zz")},
        {"op": "hwrite", "si": 1, "sh": 2, "off": 2, "data": hx(b"yy")},
    ]
    # shares/incoming on another file system: rename(2) into the final place answers
    # EXDEV.  Whatever close() does then, a kill at any point inside it must leave the
    # share absent or complete.
    w_exdev = [
        {"op": "allocate", "si": 0, "shnums": [0, 1], "size": 40, "secret": 0},
        {"op": "write", "si": 0, "sh": 0, "off": 0, "data": hx(bytes(range(100, 140)))},
        {"op": "write", "si": 0, "sh": 1, "off": 3, "data": hx(b"p" * 30)},
        {"op": "close_exdev", "si": 0, "sh": 0},
        {"op": "close", "si": 0, "sh": 1},
        {"op": "allocate", "si": 0, "shnums": [0, 2], "size": 40, "secret": 1},
        {"op": "write", "si": 0, "sh": 2, "off": 0, "data": hx(b"q" * 40)},
        {"op": "close_exdev", "si": 0, "sh": 2},
        {"op": "add_lease", "si": 0, "secret": 2},
    ]
    return [w_imm, w_mut, w_http, w_exdev]


def growth_workload(nleases, si=3, amounts=None):
    """A mutable share with `nleases` leases (4 header slots + extras), then writes
    that grow the container by amounts around multiples of the lease-record sizes
    times the number of extra leases (92*e-1, 92*e, 92*e+1, 72*e, 4, 4+92*e): the
    extra-lease block is moved by exactly / almost its own size."""
    e = nleases - 4
    ops = [{"op": "writev", "si": si, "secret": 0, "tw": [[0, [[], [[0, hx(b"g" * 10)]], None]]]}]
    for j in range(1, nleases):
        ops.append({"op": "add_lease", "si": si, "secret": j})
    size = 10
    for g in (amounts or ("92e", "92e-1", "72e", "4", "92e+1", "92e+4")):
        g = {"92e": 92 * e, "92e-1": 92 * e - 1, "72e": 72 * e, "4": 4, "92e+1": 92 * e + 1, "92e+4": 92 * e + 4}[g]
        size += g
        ops.append({"op": "writev", "si": si, "secret": 0, "renew": False,
                    "tw": [[0, [[], [[size - 1, hx(b"G")]], None]]]})
    return ops


def random_workload(r):
    """Mostly-valid op sequence over two immutable and two mutable storage
    indexes, weighted to reach: several leases per immutable share, more than
    four leases on a mutable share followed by container growth."""
    ops = []
    inprog = {}        # (si, sh) -> size
    http = {}          # (si, sh) -> (chunk length, set of chunk indexes sent) for HTTP-style uploads
    final = set()      # immutable shares known to exist
    mshares = {}       # si -> {sh: approx container data size}
    mleases = {}       # si -> number of distinct lease secrets used
    focus_mut = r.random() < 0.5
    nops = r.choice([8, 10, 12, 14])
    while len(ops) < nops:
        x = r.random()
        if (not focus_mut and x < 0.75) or (focus_mut and x < 0.2):
            si = r.choice([0, 0, 1])
            c = r.random()
            mine = [k for k in inprog if k[0] == si]
            if c < 0.25 or (not mine and not [k for k in final if k[0] == si]):
                shn = r.sample([0, 1, 2, 3], r.choice([1, 1, 2, 3]))
                size = r.choice([0, 1, 7, 12, 30, 72, 73, 100])
                ops.append({"op": "allocate", "si": si, "shnums": shn, "size": size, "secret": r.choice([0, 1, 2, 3])})
                use_http = size >= 2 and r.random() < 0.5
                for sh in shn:
                    if (si, sh) not in inprog and (si, sh) not in final:
                        inprog[(si, sh)] = size
                        if use_http:
                            http[(si, sh)] = (-(-size // r.choice([2, 3, 4])), set())
            elif c < 0.72 and mine and [k for k in mine if k in http]:
                # HTTP-style: chunks on a grid, re-sent and out of order; closed by the server
                key = r.choice([k for k in mine if k in http])
                size = inprog[key]
                clen, sent = http[key]
                nch = -(-size // clen)
                i = r.choice(sorted(sent)) if sent and r.random() < 0.45 else r.randrange(nch)
                off = i * clen
                ln = min(clen, size - off)
                ops.append({"op": "hwrite", "si": key[0], "sh": key[1], "off": off,
                            "data": hx(bytes([97 + (off + q) % 26 for q in range(ln)]))})
                sent.add(i)
                if len(sent) == nch:
                    del inprog[key]
                    del http[key]
                    final.add(key)
            elif c < 0.5 and mine:
                key = r.choice(mine)
                size = inprog[key]
                off = r.choice([0, 0, size // 2, max(0, size - 3), size])
                ln = r.choice([0, 1, size - off, max(0, size - off), 3, size + 1 - off])
                ln = max(0, ln)
                ops.append({"op": "write", "si": key[0], "sh": key[1], "off": off, "data": hx(bytes([97 + (off + q) % 26 for q in range(ln)]))})
            elif c < 0.68 and mine:
                key = r.choice(mine)
                if r.random() < 0.2:
                    ops.append({"op": "close_exdev", "si": key[0], "sh": key[1]})
                    del inprog[key]
                    http.pop(key, None)
                    continue
                ops.append({"op": "close", "si": key[0], "sh": key[1]})
                del inprog[key]
                http.pop(key, None)
                final.add(key)
            elif c < 0.73 and mine:
                key = r.choice(mine)
                ops.append({"op": "abort", "si": key[0], "sh": key[1]})
                del inprog[key]
                http.pop(key, None)
            elif c < 0.9:
                if r.random() < 0.4:
                    ops.append({"op": "advance", "dt": r.choice([1, 50, 100])})
                ops.append({"op": "add_lease", "si": si, "secret": r.choice([0, 1, 2, 3, 4, 5])})
            else:
                ops.append({"op": "advance", "dt": r.choice([1, 100])})
                ops.append({"op": "renew", "si": si, "secret": r.choice([0, 1, 2, 6])})
        else:
            si = r.choice([2, 2, 3])
            shs = mshares.setdefault(si, {})
            c = r.random()
            if c < 0.2 or not shs:
                tw = []
                for sh in r.sample([0, 1, 2], r.choice([1, 2])):
                    off = r.choice([0, 0, 3])
                    ln = r.choice([1, 10, 40])
                    tw.append([sh, [[], [[off, hx(bytes([65 + sh]) * ln)]], None]])
                    shs[sh] = max(shs.get(sh, 0), off + ln)
                ops.append({"op": "writev", "si": si, "secret": 0, "tw": tw})
            elif c < 0.55:
                j = mleases.get(si, 0) + 1
                mleases[si] = j
                if r.random() < 0.25:
                    ops.append({"op": "advance", "dt": 10})
                    j = r.randrange(0, j + 1)
                ops.append({"op": "add_lease", "si": si, "secret": j % 8})
            elif c < 0.8:
                sh = r.choice(sorted(shs))
                cur = shs[sh]
                off = r.choice([cur, cur + 4, cur + 1, max(0, cur - 2), 0])
                ln = r.choice([1, 5, 20, 0])
                dv = [[off, hx(bytes([48 + sh]) * ln)]]
                if r.random() < 0.3:
                    dv.append([off + ln + 2, hx(b"!")])
                tv = []
                if r.random() < 0.2:
                    tv = [[0, 2, hx(b"zz")]]       # fails unless the share starts with zz
                newlen = None
                if r.random() < 0.15:
                    newlen = r.choice([1, off + ln, 10 ** 3])
                ops.append({"op": "writev", "si": si, "secret": r.choice([0, 0, 7]), "tw": [[sh, [tv, dv, newlen]]],
                            "renew": r.random() < 0.8})
                if not tv:
                    shs[sh] = max(cur, off + ln + (3 if len(dv) > 1 else 0))
            elif c < 0.9:
                sh = r.choice(sorted(shs))
                ops.append({"op": "writev", "si": si, "secret": 0, "tw": [[sh, [[], [], r.choice([0, 1, 3, 7])]]]})
            else:
                tw = [[sh, [[], [], 0]] for sh in sorted(shs)]
                ops.append({"op": "writev", "si": si, "secret": 0, "tw": tw})
                mshares[si] = {}
            for sh in [s for s in shs]:
                pass
    # deletions above may have used new_length 0 on a share: forget it
    return ops


def opkind(op):
    k = op["op"]
    if k == "writev":
        kinds = set()
        for sh, (tv, dv, nl) in op["tw"]:
            if nl == 0:
                kinds.add("delete")
            elif nl is not None and not dv:
                kinds.add("truncate")
            else:
                kinds.add("write")
        return "mutable-" + "+".join(sorted(kinds))
    return {"allocate": "immutable-allocate", "write": "immutable-write", "hwrite": "immutable-write-http", "close": "immutable-close", "close_exdev": "immutable-close-rename-fails-exdev",
            "abort": "immutable-abort", "add_lease": "lease-add-or-renew", "renew": "lease-renew"}[k]


# ---------------------------------------------------------------------------
# one workload: reference run, then every crash point of every operation
# ---------------------------------------------------------------------------
class Runner(object):
    def __init__(self, ctx):
        self.ctx = ctx
        self.seq = 0
        self.ops_terms = []      # (term, info)
        self.state_groups = {}   # (hist terms tuple, op term) -> {k: (obs, info)}
        self.window_terms = []   # (term, info)
        self.extra_terms = []    # (term, info)

    def fresh_dir(self):
        self.seq += 1
        return os.path.join(env.subdir("c29"), "w%d" % self.seq)

    def play(self, ops, upto):
        """New server, run ops[0:upto] without a crash; returns (world, hist terms)."""
        base = self.fresh_dir()
        w = World(base)
        hist = []
        for op in ops[:upto]:
            if not applicable(w, op):
                continue
            if op["op"] != "advance":
                hist.append(w.sop_term(op))
            w.try_execute(op)
        return w, hist

    def restart(self, w, config=None):
        """Drop everything, create a fresh server on the same directory; returns
        (server, low-level calls of the restart).  `config`: the configuration the
        operator restarts the node with (it need not be the one it crashed with)."""
        from allmydata.storage.server import StorageServer
        clock = w.clock
        base = w.base
        w.drop()
        inj = Injector()
        _cur[0] = inj
        ss = StorageServer(base, NODEID, clock=clock, **(config or {}))
        return ss, inj.log

    def run_workload(self, wname, ops, restart_crashes=False):
        ctx = self.ctx
        # ---- reference run: call lists, pre-operation snapshots ------------
        w = World(self.fresh_dir())
        ref = []
        hist = []
        for j, op in enumerate(ops):
            if op["op"] == "advance":
                w.execute(op)
                ref.append(None)
                continue
            if not applicable(w, op):
                ref.append(None)
                ctx.count("skipped-inapplicable-operation")
                continue
            pre, problems = observe(w.ss)
            for p in problems:
                ctx.oracle_fail("public-api-inconsistent", p, case={"workload": ops, "j": j})
            term = w.sop_term(op)
            inprog = {k: {"size": v["size"], "writes": list(v["writes"])} for k, v in w.inprogress.items()}
            w.inj.arm(None)
            w.last_finished = None
            exc = w.try_execute(op)
            total = w.inj.count
            vis = w.visible_log()
            if op["op"] in ("write", "hwrite") and w.last_finished is not None:
                said, is_cov, key, size, writes = w.last_finished
                ctx.count("write-answers:finished" if said else "write-answers:not-finished")
                if said != is_cov:
                    ctx.oracle_fail("write-reports-finished-differently-from-bytes-written",
                                    "BucketWriter.write() on share %d/%d (%d bytes) answered finished=%s but the distinct ranges written so far %s the share"
                                    % (key[0], key[1], size, said, "cover" if is_cov else "do NOT cover"),
                                    case={"workload": ops, "j": j, "n": total, "op": op},
                                    expected={"finished": is_cov}, observed={"finished": said, "writes": [[o, d.hex()] for o, d in writes]})
            try:
                log_terms = [op_term(w, ev) for ev in vis]
            except ValueError as e:
                ctx.oracle_fail("operation-touches-unexpected-path", str(e), case={"workload": ops, "j": j})
                log_terms = []
            self.ops_terms.append(("check_ops_at %s %s %s" % (_I[0].state(hist), term, T.lst(log_terms)),
                                   {"workload": wname, "j": j, "op": op, "calls": [jev(w, e) for e in vis], "exception": exc}))
            ref.append({"pre": pre, "term": term, "hist": list(hist), "total": total, "exc": exc, "inprog": inprog,
                        "nvis": len(vis), "calls": list(w.inj.log)})
            hist.append(term)
            ctx.count("api-calls:" + opkind(op))
        shutil.rmtree(w.base, ignore_errors=True)

        # ---- every crash point of every operation ---------------------------
        for j, op in enumerate(ops):
            if ref[j] is None:
                continue
            kind = opkind(op)
            R = ref[j]
            seen_k = {}
            for n in range(R["total"] + 1):
                w, hist = self.play(ops, j)
                term = w.sop_term(op)
                w.inj.arm(n)
                crashed = False
                try:
                    w.try_execute(op)
                except Crash:
                    crashed = True
                if crashed != (n < R["total"]):
                    ctx.mismatch("crash-run-not-deterministic", "crash run of operation %d diverged from the reference run" % j,
                                 case={"workload": ops, "j": j, "n": n}, correspondence="post-crash-state-vs-model-prefix")
                k = len(w.visible_log())
                last = w.inj.log[-1][0] if w.inj.log else "start"
                inprog_after = {kk: dict(v) for kk, v in w.inprogress.items()}
                # crash points inside the restart itself (sampled workloads)
                cfg = restart_config(j, n)
                ss, rlog = self.restart(w, cfg)
                post, problems = observe(ss)
                ctx.count("restart-config:" + (",".join(sorted(cfg)) or "default"))
                case = {"workload": ops, "j": j, "n": n, "completed_calls": k, "after": last, "op": op, "restart_config": cfg}
                for p in problems:
                    ctx.oracle_fail("public-api-inconsistent", p, case=case)
                self.oracle(op, R, post, rlog, w, case, crashed)
                self.note_windows(R["pre"], post, kind)
                ctx.count("crash-points:" + kind)
                ctx.count("crash-after:" + last)
                ctx.case((kind, k, tuple(sorted((kk, repr(v)) for kk, v in post.items() if v != ABSENT))), kind=kind)
                if n in (0, R["total"]) and len(ctx.samples) < 6 and kind in ("lease-add-or-renew", "mutable-write", "immutable-close"):
                    ctx.sample({"workload": wname, "op": op, "crash_after_call": n, "of": R["total"],
                                "state": {"%d/%d" % kk: jview(v) for kk, v in post.items() if v != ABSENT}})
                # model comparison: group by (history, operation), one observation per k
                if k in seen_k and seen_k[k] != post:
                    ctx.mismatch("same-prefix-different-state",
                                 "two crash points with the same completed file calls left different states",
                                 case=case, correspondence="post-crash-state-vs-model-prefix")
                seen_k[k] = post
                g = self.state_groups.setdefault((tuple(hist), term), {})
                g.setdefault(k, (post, case))
                if (restart_crashes and any(ev[0] == "unlink" for ev in rlog)
                        and (ctx.tier == "thorough" or ctx.stats["crash-points:restart"] < 120)):
                    # the restart had something to clean: crash it too
                    self.restart_crashes(ops, j, n, post, rlog, cfg)
                shutil.rmtree(w.base, ignore_errors=True)
                del ss

    def note_windows(self, pre, post, kind):
        """Crash states of the share being written that the property excludes
        but the model describes (Props/C29.v mutable_*): counted, not judged."""
        for key, v in post.items():
            if v[0] != "mut":
                continue
            if v[2] is None:
                self.ctx.count("observed:mutable-lease-list-unreadable-after-crash")
            elif pre[key][0] == "mut" and pre[key][2] is not None and len(v[2]) < len(pre[key][2]) and kind.startswith("mutable"):
                self.ctx.count("observed:mutable-extra-leases-missing-after-crash-in-container-growth")
            if pre[key][0] == "mut" and kind == "mutable-write" and v[1] != pre[key][1]:
                self.ctx.count("observed:mutable-written-share-data-differs-after-crash")

    def restart_crashes(self, ops, j, n, clean_post, rlog, cfg=None):
        """Crash the restart itself after each of its low-level calls, restart
        again, compare with the clean restart."""
        from allmydata.storage.server import StorageServer
        ctx = self.ctx
        for m in range(len(rlog)):
            w, _ = self.play(ops, j)
            w.inj.arm(n)
            try:
                w.try_execute(ops[j])
            except Crash:
                pass
            clock, base = w.clock, w.base
            w.drop()
            inj = Injector()
            inj.arm(m)
            _cur[0] = inj
            cfg2 = restart_config(j, n + 1 + m)       # the second restart may use yet another configuration
            try:
                StorageServer(base, NODEID, clock=clock, **(cfg or {}))
            except Crash:
                pass
            _cur[0] = Injector()
            ss = StorageServer(base, NODEID, clock=clock, **cfg2)
            post, _ = observe(ss)
            ctx.count("crash-points:restart")
            ctx.case(("restart", j, n, m), kind="restart")
            inc = os.path.join(base, "shares", "incoming")
            if post != clean_post or (os.path.isdir(inc) and os.listdir(inc)):
                ctx.oracle_fail("crash-during-restart-changes-outcome",
                                "a crash after call %d of the restart, followed by another restart, differs from a clean restart" % m,
                                case={"workload": ops, "j": j, "n": n, "m": m, "restart_config": cfg, "second_restart_config": cfg2},
                                expected={"%d/%d" % kk: jview(v) for kk, v in clean_post.items() if v != ABSENT},
                                observed={"%d/%d" % kk: jview(v) for kk, v in post.items() if v != ABSENT})
            shutil.rmtree(base, ignore_errors=True)

    # ---- the property statements, evaluated directly -------------------------
    def oracle(self, op, R, post, rlog, w, case, crashed):
        ctx = self.ctx
        pre = R["pre"]
        k = op["op"]
        si = op.get("si")
        if k in ("allocate", "add_lease", "renew"):
            written = set((si, sh) for sh in range(NSH))
        elif k in ("write", "hwrite", "close", "close_exdev", "abort"):
            written = {(si, op["sh"])}
        else:
            written = set((si, sh) for sh, _ in op["tw"])

        def show(v):
            return jview(v)

        # (1) every share not being written keeps its data and leases
        for key in sorted(pre):
            if key in written:
                continue
            if post[key] != pre[key]:
                ctx.oracle_fail("other-share-changed",
                                "share %d/%d is not written by %s yet differs after crash point %d + restart" % (key[0], key[1], k, case["n"]),
                                case=case, expected=show(pre[key]), observed=show(post[key]))
        # (2) an operation that only adds or renews leases never changes any share's data
        if k in ("allocate", "add_lease", "renew"):
            window_hit = False
            for key in sorted(pre):
                if pre[key] == ABSENT and k == "allocate":
                    continue      # a share being uploaded: clause (3)
                if data_of(post[key]) == data_of(pre[key]) and post[key][0] == pre[key][0]:
                    continue
                v0, v1 = pre[key], post[key]
                if (k in ("allocate", "add_lease") and v0[0] == "imm" and v1[0] == "imm" and v0[2]
                        and v1[1] == v0[1] + v0[2][0] and crashed and between_add_lease_writes(R.get("calls") or [], case["n"])):
                    window_hit = True
                    ctx.oracle_fail(KNOWN_KIND,
                                    "crash between the lease-record write and the lease-count write of ShareFile.add_lease: on restart share "
                                    "%d/%d reads %d data bytes instead of %d (the first lease record is exposed as data, the lease list is shifted)"
                                    % (key[0], key[1], len(v1[1]), len(v0[1])),
                                    case=case, expected=show(v0), observed=show(v1))
                else:
                    ctx.oracle_fail("lease-operation-changed-share-data",
                                    "%s changed the data of share %d/%d (crash point %d + restart)" % (k, key[0], key[1], case["n"]),
                                    case=case, expected=show(v0), observed=show(v1))
            self.window_terms.append(("Bool.eqb (check_window_at %s %s %s) %s" % (_I[0].state(R["hist"]), R["term"], T.nat(case["completed_calls"]),
                                                                               T.boolean(window_hit)), case))
        # a completed mutable write keeps the leases of the shares it wrote ("keeps its
        # leases"; at the crash points inside _change_container_size the code itself
        # documents a window, see Props/C29.v mutable_growth_window)
        if k == "writev" and not crashed and R.get("exc") is None:
            for sh, (tv, dv, nl) in op["tw"]:
                key = (si, sh)
                v0, v1 = pre[key], post[key]
                if nl == 0 or v0[0] != "mut" or v1[0] != "mut" or v0[2] is None:
                    continue
                had = [x[8:40] for x in v0[2]]
                has = None if v1[2] is None else [x[8:40] for x in v1[2]]
                if has is None or any(x not in has for x in had):
                    lost = len(had) if has is None else len([x for x in had if x not in has])
                    ctx.oracle_fail("mutable-write-lost-leases",
                                    "a completed slot_testv_and_readv_and_writev on share %d/%d (container grown to hold offset %s) lost %d of its %d leases"
                                    % (si, sh, max([o + len(d) // 2 for o, d in dv] or [0]), lost, len(had)),
                                    case=case, expected={"leases": len(had)}, observed={"leases": None if has is None else len(has)})
        # (3) an immutable share is either absent or complete; (4) uploads in progress are discarded
        inc = os.path.join(w.base, "shares", "incoming")
        left = []
        for root, dirs, files in os.walk(inc):
            left += [os.path.join(root, f) for f in files] + [os.path.join(root, d) for d in dirs]
        if left:
            ctx.oracle_fail("incoming-not-discarded-at-restart", "after the restart shares/incoming still holds %r" % ([os.path.relpath(x, inc) for x in left][:4],),
                            case=case, expected=[], observed=[os.path.relpath(x, inc) for x in left])
        for ev in rlog:
            if ev[0] in VISIBLE:
                try:
                    key = w.key_of(ev[1])
                except ValueError:
                    key = None
                if key is None or key[0] != "Incoming" or ev[0] != "unlink":
                    ctx.oracle_fail("restart-touches-non-incoming-file", "the restart issued %s on %s" % (ev[0], ev[1]), case=case)
        uploads = dict(R["inprog"])
        if k == "allocate":
            for sh in set(op["shnums"]):
                if pre[(si, sh)] == ABSENT and (si, sh) not in uploads:
                    uploads[(si, sh)] = {"size": op["size"], "writes": []}
        for key, u in sorted(uploads.items()):
            closing = (k in ("close", "close_exdev") and key == (si, op["sh"]))
            writes = list(u["writes"])
            v = post[key]
            if k == "hwrite" and key == (si, op["sh"]):
                # HTTP protocol: no explicit close.  A share visible to readers must be
                # byte-complete; an upload that never wrote every byte leaves nothing visible.
                d = bytes.fromhex(op["data"])
                if op["off"] + len(d) <= u["size"]:
                    writes.append((op["off"], d))
                full = covered_py(u["size"], writes)
                want = bytearray(u["size"])
                for off, dd in writes:
                    want[off:off + len(dd)] = dd
                if v != ABSENT and not full:
                    holes = [i for i in range(u["size"]) if not any(o <= i < o + len(dd) for o, dd in writes)]
                    ctx.oracle_fail("visible-share-not-byte-complete",
                                    "share %d/%d is served after the restart although the upload never wrote bytes %d..%d of %d (writes so far: %s)"
                                    % (key[0], key[1], holes[0], holes[-1], u["size"], [(o, len(dd)) for o, dd in writes]),
                                    case=case, expected="absent", observed=show(v))
                elif v != ABSENT and (v[0] != "imm" or v[1] != bytes(want) or len(v[2]) != 1):
                    ctx.oracle_fail("immutable-share-neither-absent-nor-complete",
                                    "share %d/%d is served after the restart but does not hold what the uploader wrote" % key,
                                    case=case, expected={"data": bytes(want).hex(), "leases": 1}, observed=show(v))
                elif v == ABSENT and full and not crashed and R.get("exc") is None:
                    ctx.oracle_fail("closed-share-missing",
                                    "the write that completed share %d/%d returned but the share is absent after a restart" % key, case=case)
                continue
            if v == ABSENT:
                continue
            if not closing:
                ctx.oracle_fail("upload-in-progress-visible-after-restart",
                                "share %d/%d was still being uploaded (no close issued) but is served after the restart" % key,
                                case=case, expected="absent", observed=show(v))
                continue
            want = bytearray(u["size"])
            for off, d in writes:
                want[off:off + len(d)] = d
            if v[0] != "imm" or v[1] != bytes(want) or len(v[2]) != 1:
                ctx.oracle_fail("immutable-share-neither-absent-nor-complete",
                                ("after a crash inside close() share %d/%d " % key)
                                + ("cannot be read (get_buckets raises) and is in the final place, so it is neither discarded nor complete"
                                   if v == BAD else "is served but does not hold what the uploader wrote")
                                + (" [rename(2) answered EXDEV: incoming/ on another file system]" if k == "close_exdev" else ""),
                                case=case, expected={"data": bytes(want).hex(), "leases": 1}, observed=show(v))
        # a share that was complete and served before stays (covered by (1)/(2)); a
        # closed share whose close completed must be present
        if k == "close" and not crashed and R.get("exc") is None and post[(si, op["sh"])] == ABSENT:
            ctx.oracle_fail("closed-share-missing", "close() returned but share %d/%d is absent after a restart" % (si, op["sh"]), case=case)


def between_add_lease_writes(calls, n):
    """Is crash point n (n calls completed) exactly between the 72-byte lease
    record append and the 4-byte lease-count write at 0x08 of the same file?"""
    if not (0 < n < len(calls)):
        return False
    a, b = calls[n - 1], calls[n]
    return (a[0] == "write" and b[0] == "write" and a[1] == b[1] and len(a[3]) == 72
            and b[2] == 8 and len(b[3]) == 4 and "incoming" not in a[1].split(os.sep))


def jev(w, ev):
    out = [ev[0]]
    for x in ev[1:]:
        if isinstance(x, str):
            out.append(os.path.relpath(x, w.sharedir))
        elif isinstance(x, bytes):
            out.append(x.hex())
        else:
            out.append(x)
    return out


# ---------------------------------------------------------------------------
# the refutation witness of Props/C29.v replayed on the implementation
# ---------------------------------------------------------------------------
WITNESS = [
    {"op": "allocate", "si": 0, "shnums": [0], "size": 5, "secret": 0},
    {"op": "write", "si": 0, "sh": 0, "off": 0, "data": hx(b"hello")},
    {"op": "close", "si": 0, "sh": 0},
    {"op": "add_lease", "si": 0, "secret": 1},
]


def witness(runner):
    """Same history as Model.Crash.wit_hist / wit_op: the model's named
    constants must be exactly what the implementation produces."""
    ctx = runner.ctx
    w, hist = runner.play(WITNESS, 3)
    term = w.sop_term(WITNESS[3])
    w.inj.arm(1)
    try:
        w.try_execute(WITNESS[3])
        crashed = False
    except Crash:
        crashed = True
    vis = [op_term(w, ev) for ev in w.visible_log()]
    ss, _ = runner.restart(w)
    post, _ = observe(ss)
    shutil.rmtree(w.base, ignore_errors=True)
    info = {"workload": WITNESS, "j": 3, "n": 1}
    runner.extra_terms.append(("check_state wit_hist wit_op 1%%nat %s" % obs_term(post), dict(info, what="state predicted by the Coq witness")))
    runner.extra_terms.append(("pops_eqb (firstn 1 (plain_ops wit_op (run_sops wit_hist empty_fs))) %s" % T.lst(vis),
                               dict(info, what="first call of the witness operation")))
    runner.extra_terms.append(("check_ops [] (ImmAllocate 0 [] [0] 5 wit_rec0 true) (plain_ops %s empty_fs)" % hist[0],
                               dict(info, what="witness history: the allocate step issues the same calls")))
    runner.extra_terms.append(("check_state (%s) %s 1%%nat %s" % (T.lst(hist), term, obs_term(post)), dict(info, what="driver-rendered history agrees too")))
    if not crashed:
        ctx.mismatch("witness-replay", "the witness add_lease issued fewer than two low-level calls", case=info,
                     correspondence="refutation-witness-replayed")
    # the same crash point with CPython's buffered file objects over a counting
    # raw file: one raw write(2) completed, then the process dies
    w2, _ = runner.play(WITNESS, 3)
    _buffered[0] = True
    try:
        w2.inj.arm(1)
        try:
            w2.try_execute(WITNESS[3])
        except Crash:
            pass
        raw_calls = [jev(w2, e) for e in w2.inj.log]
    finally:
        _buffered[0] = False
    import gc
    w2.drop()
    gc.collect()
    ss2, _ = runner.restart(w2)
    post2, _ = observe(ss2)
    shutil.rmtree(w2.base, ignore_errors=True)
    if post2 == post:
        ctx.count("witness-reproduced-with-cpython-buffered-files")
    else:
        ctx.note("with CPython's buffered files the crash after the first raw write of add_lease leaves %r (raw calls %r)" % (
            jview(post2[(0, 0)]), raw_calls))
    v = post[(0, 0)]
    if v[0] == "imm" and len(v[1]) == 5 + 72:
        ctx.count("witness-reproduced")
    else:
        ctx.note("the add_lease refutation witness is NOT reproduced by this tree: share 0/0 reads %r" % (jview(v),))
    ctx.sample({"refutation_witness": {"ops": WITNESS, "crash_after_call": 1, "share_0/0_after_restart": jview(v)}})


# ---------------------------------------------------------------------------
# the same upload histories through the real HTTP storage server and client
# ---------------------------------------------------------------------------
HTTP_HISTORIES = [
    # (share size, chunk length, chunk indexes sent before the server is killed)
    (9, 3, [0, 0, 1]), (9, 3, [2, 2, 0]), (9, 3, [0, 1, 2]), (9, 3, [1, 1, 1]), (9, 3, [0, 0, 1, 2]),
    (12, 4, [0, 0, 1, 1]), (8, 2, [3, 0, 3, 0]), (4, 2, [0, 0]), (4, 2, [1, 1, 0]), (10, 4, [2, 0, 0, 2]),
    (6, 6, [0]), (6, 3, [1]),
]


def http_history(ctx, hist, tag):
    """One immutable share uploaded over HTTP (StorageClientImmutables ->
    HTTPServer -> BucketWriter) as the given chunk sequence, re-sent chunks
    carrying identical bytes; then the server is dropped and restarted.  After
    every request and after the restart: a share handed out by get_buckets is
    byte-complete, an upload that has not written every byte shows nothing."""
    from props.c30 import HttpStore
    from allmydata.storage.http_client import StorageClientImmutables, ClientException
    from allmydata.storage.server import StorageServer
    from twisted.internet.task import Clock
    size, clen, seq = hist
    data = bytes([97 + q % 26 for q in range(size)])
    si, sh = SI(1), 3
    base = os.path.join(env.subdir("c29"), "http-%s" % tag)
    shutil.rmtree(base, ignore_errors=True)
    _cur[0] = Injector()
    store = HttpStore(base, b"swissnum", nodeid=NODEID)
    imm = StorageClientImmutables(store.client)
    rs, cs = secrets(0)
    case = {"http_history": {"size": size, "chunk": clen, "sequence": list(seq)}}
    created = store.run(imm.create(si, {sh}, size, b"U" * 32, rs, cs))
    if created.allocated != {sh}:
        ctx.note("HTTP history %r: share not allocated" % (hist,))
        return
    sent = []

    def judge(ss, when, closed_ok):
        full = covered_py(size, sent)
        try:
            buckets = ss.get_buckets(si)
        except Exception as e:
            ctx.oracle_fail("visible-share-unreadable", "get_buckets raises %s %s" % (type(e).__name__, when), case=case)
            return
        if sh in buckets:
            got = buckets[sh].read(0, size + 100)
            if not full:
                holes = [i for i in range(size) if not any(o <= i < o + len(d) for o, d in sent)]
                ctx.oracle_fail("visible-share-not-byte-complete",
                                "over HTTP, %s: share 1/%d is served although the upload never wrote bytes %d..%d of %d (chunks sent: %s)"
                                % (when, sh, holes[0], holes[-1], size, [(o, len(d)) for o, d in sent]),
                                case=dict(case, when=when), expected="absent", observed={"data": got.hex()})
            elif got != data:
                ctx.oracle_fail("immutable-share-neither-absent-nor-complete",
                                "over HTTP, %s: share 1/%d is served but does not hold what the uploader sent" % (when, sh),
                                case=dict(case, when=when), expected=data.hex(), observed=got.hex())
        elif full and closed_ok:
            ctx.oracle_fail("closed-share-missing", "over HTTP, %s: every byte was written and acknowledged but the share is not served" % when,
                            case=dict(case, when=when))

    finished_seen = False
    for step, i in enumerate(seq):
        off = i * clen
        chunk = data[off:off + clen]
        try:
            up = store.run(imm.write_share_chunk(si, sh, b"U" * 32, off, chunk))
        except ClientException:
            ctx.count("http:chunk-refused-after-completion" if finished_seen else "http:chunk-refused")
            continue
        sent.append((off, chunk))
        full = covered_py(size, sent)
        ctx.count("http:chunks-acknowledged")
        if bool(up.finished) != full:
            ctx.oracle_fail("write-reports-finished-differently-from-bytes-written",
                            "over HTTP the server answered finished=%s to chunk #%d of %r but the distinct ranges written so far %s the share"
                            % (up.finished, step, list(seq), "cover" if full else "do NOT cover"),
                            case=dict(case, step=step), expected={"finished": full}, observed={"finished": bool(up.finished)})
        finished_seen = finished_seen or bool(up.finished)
        judge(store.ss, "after request %d" % step, True)
    # the server process is killed; restart on the same directory
    clock = store.clock
    del store, imm
    _cur[0] = Injector()
    cfg = RESTART_CONFIGS[(len(seq) + size) % len(RESTART_CONFIGS)]
    case["restart_config"] = cfg
    ss2 = StorageServer(base, NODEID, clock=Clock(), **cfg)
    judge(ss2, "after kill + restart", True)
    inc = os.path.join(base, "shares", "incoming")
    left = [os.path.join(r_, f) for r_, _, fs in os.walk(inc) for f in fs]
    if left:
        ctx.oracle_fail("incoming-not-discarded-at-restart", "over HTTP: after the restart shares/incoming still holds files", case=case,
                        observed=[os.path.relpath(x, inc) for x in left])
    ctx.case(("http", hist, covered_py(size, sent)), kind="http-upload-history")
    ctx.count("http:histories-complete" if covered_py(size, sent) else "http:histories-incomplete-at-kill")
    shutil.rmtree(base, ignore_errors=True)


def http_histories(ctx):
    try:
        import props.c30  # noqa: F401  (HttpStore: StorageServer + HTTPServer + StubTreq + StorageClient)
        from allmydata.storage import http_client  # noqa: F401
    except Exception as e:
        ctx.note("HTTP storage stack not usable here (%s: %s): HTTP upload histories skipped, BucketWriter-level histories cover the same rule" % (type(e).__name__, e))
        return
    hists = list(HTTP_HISTORIES)
    for i in range(ctx.n(6, 120)):
        r = ctx.rng("http", i)
        size = r.choice([4, 6, 9, 10, 12])
        clen = r.choice([2, 3, 4, 5])
        nch = -(-size // clen)
        seq = []
        for _ in range(r.choice([2, 3, 4, 6])):
            seq.append(r.choice(seq) if seq and r.random() < 0.5 else r.randrange(nch))
        hists.append((size, clen, seq))
    for n, h in enumerate(hists):
        try:
            http_history(ctx, h, str(n))
        except Exception as e:
            ctx.mismatch("harness-error", "HTTP history %r raised %s: %s" % (h, type(e).__name__, e), case={"http_history": list(h)},
                         correspondence="low-level-call-list-vs-model")


# ---------------------------------------------------------------------------
def run(ctx):
    ctx.correspondence("low-level-call-list-vs-model")
    ctx.correspondence("post-crash-state-vs-model-prefix")
    ctx.correspondence("add-lease-window-points-vs-model")
    ctx.correspondence("refutation-witness-replayed")
    install()
    _I[0] = Interner()
    try:
        runner = Runner(ctx)
        _run(ctx, runner)
    finally:
        uninstall()
        shutil.rmtree(env.subdir("c29"), ignore_errors=True)


def corpus_workloads():
    import glob
    import json
    out = []
    for p in sorted(glob.glob(os.path.join(env.CORPUS, "C29", "*.json"))):
        try:
            out.append((os.path.basename(p), json.load(open(p))["workload"]))
        except Exception:
            pass
    return out


def _run(ctx, runner):
    for name, wl in corpus_workloads():
        runner.run_workload("corpus:" + name, wl)
    witness(runner)
    http_histories(ctx)
    for i, wl in enumerate(directed_workloads()):
        runner.run_workload("directed-%d" % i, wl, restart_crashes=(i == 0 or ctx.tier == "thorough"))
    for nl in ((6, 7) if ctx.tier == "quick" and not ctx.search else (5, 6, 7, 8)):
        quick = ctx.tier == "quick" and not ctx.search
        runner.run_workload("growth-%d-leases" % nl, growth_workload(nl, amounts=("92e", "72e", "92e+1") if quick else None))
    n = ctx.n(6, 150)
    base = 1000 if ctx.search else 0
    for i in range(n):
        r = ctx.rng("workload", base + i)
        wl = random_workload(r)
        runner.run_workload("random-%d" % (base + i), wl)
        if ctx.search and any(f["source"] == "oracle" and f["kind"] != KNOWN_KIND for f in ctx.failures):
            return
        if ctx.elapsed() > (30 if ctx.tier == "quick" and not ctx.search else 700):
            ctx.note("workload budget cut at %d of %d by the time limit" % (i + 1, n))
            break

    # ---- model comparison: one batch, shared preamble of named constants ------
    if not ctx.search:
        compare_with_model(ctx, runner)


def compare_with_model(ctx, runner):
    batch = []      # (term, handler)

    def ops_bad(info):
        ctx.mismatch("call-list-differs-from-model",
                     "the low-level calls issued by operation %d (%s) differ from the model's list" % (info["j"], info["op"]["op"]),
                     case=info, observed=info["calls"], correspondence="low-level-call-list-vs-model")

    for term, info in runner.ops_terms:
        batch.append((term, lambda info=info: ops_bad(info)))

    regroup = []

    def group_bad(key):
        regroup.append(key)

    nstates = 0
    for key in runner.state_groups:
        hist, term = key
        g = runner.state_groups[key]
        nstates += len(g)
        obs = T.lst(["(%s, %s)" % (T.nat(k), obs_term(g[k][0])) for k in sorted(g)])
        batch.append(("check_states_at %s %s %s" % (_I[0].state(hist), term, obs), lambda key=key: group_bad(key)))

    def win_bad(case):
        ctx.mismatch("add-lease-window-differs-from-model",
                     "the model and the implementation disagree on whether crash point %d of operation %d lies in the add_lease window" % (case["n"], case["j"]),
                     case=case, correspondence="add-lease-window-points-vs-model")

    for term, case in runner.window_terms:
        batch.append((term, lambda case=case: win_bad(case)))

    def wit_bad(info):
        ctx.mismatch("witness-replay", "the Coq refutation witness does not replay on the implementation: " + info["what"], case=info,
                     correspondence="refutation-witness-replayed")

    for term, info in runner.extra_terms:
        batch.append((term, lambda info=info: wit_bad(info)))

    # terms of one workload refer to the same named states and constants: sort by the
    # first state a term refers to, cut into groups, give each group only its own
    # definitions, evaluate the groups in parallel
    import concurrent.futures
    order = sorted(range(len(batch)), key=lambda i: (_I[0].order_key(batch[i][0]), i))
    ngroups = 4
    size = max(10, -(-len(order) // ngroups))
    groups = [order[i:i + size] for i in range(0, len(order), size)]

    def one(gi):
        ixs = groups[gi]
        terms = [batch[i][0] for i in ixs]
        failing = ctx.coq_check(IMPORTS, terms, preamble=_I[0].preamble_for(terms), tag="c29g%d" % gi, shard=len(terms) + 1)
        return [ixs[f] for f in failing]

    bad = []
    with concurrent.futures.ThreadPoolExecutor(max_workers=8) as ex:
        for res in ex.map(one, range(len(groups))):
            bad += res
    for ix in sorted(bad):
        batch[ix][1]()
    nbad = len(bad)
    # which crash point of a disagreeing group?
    if len(regroup) > 3:
        for key in regroup[3:]:
            g = runner.state_groups[key]
            post, case = g[sorted(g)[-1]]
            ctx.mismatch("post-crash-state-differs-from-model",
                         "some crash point of operation %d (%s) leaves a state the model does not predict (not narrowed down: more than three such operations)" % (
                             case["j"], case["op"]["op"]), case=case, correspondence="post-crash-state-vs-model-prefix")
    for key in regroup[:3]:
        hist, term = key
        g = runner.state_groups[key]
        ks = sorted(g)
        single = ["check_state_at %s %s %s %s" % (_I[0].state(hist), term, T.nat(k), obs_term(g[k][0])) for k in ks]
        for jx in ctx.coq_check(IMPORTS, single, preamble=_I[0].preamble_for(single), tag="c29one", shard=40):
            post, case = g[ks[jx]]
            present = [kk for kk in sorted(post) if post[kk] != ABSENT] or [(0, 0)]
            predicted = ctx.coq_eval(IMPORTS, "let s := %s in map (fun p => view_of (recover (run_p (firstn %s (plain_ops %s s)) s) p)) %s" % (
                _I[0].state(hist), T.nat(ks[jx]), term, T.lst(["(Final %d %d)" % kk for kk in present])),
                preamble=_I[0].preamble_for([_I[0].state(hist), term]))
            ctx.mismatch("post-crash-state-differs-from-model",
                         "after crash point %d of operation %d (%s) + restart the public API shows a state the model does not predict" % (
                             case["n"], case["j"], case["op"]["op"]),
                         case=case, expected=predicted[-1500:], observed={"%d/%d" % kk: jview(v) for kk, v in post.items() if v != ABSENT},
                         correspondence="post-crash-state-vs-model-prefix")
    ctx.trace(len(batch) - nbad + nstates - len(runner.state_groups))


def replay(ctx, rec):
    """Re-run one recorded crash point and re-evaluate the direct oracle."""
    case = rec.get("case") or {}
    if case.get("http_history"):
        h = case["http_history"]
        install()
        try:
            http_history(ctx, (h["size"], h["chunk"], h["sequence"]), "replay")
        finally:
            uninstall()
            shutil.rmtree(env.subdir("c29"), ignore_errors=True)
        return {"http_history": h, "failures": [f["what"] for f in ctx.failures]}
    ops = case.get("workload")
    if not ops or "j" not in case:
        return {"note": "record holds no crash-point case"}
    ops = [dict(o) for o in ops]
    install()
    try:
        runner = Runner(ctx)
        j, n = case["j"], case.get("n", 0)
        # reference prefix for the snapshot
        w, hist = runner.play(ops, j)
        pre, _ = observe(w.ss)
        term = w.sop_term(ops[j])
        inprog = {k: {"size": v["size"], "writes": list(v["writes"])} for k, v in w.inprogress.items()}
        w.inj.arm(None)
        w.try_execute(ops[j])
        total = w.inj.count
        ref_calls = list(w.inj.log)
        shutil.rmtree(w.base, ignore_errors=True)
        w, hist = runner.play(ops, j)
        w.inj.arm(n)
        crashed = False
        try:
            w.try_execute(ops[j])
        except Crash:
            crashed = True
        k = len(w.visible_log())
        calls = [jev(w, e) for e in w.inj.log]
        last = w.inj.log[-1][0] if w.inj.log else "start"
        cfg = case.get("restart_config")
        if cfg is None:
            cfg = restart_config(j, n)
        ss, rlog = runner.restart(w, cfg)
        post, _ = observe(ss)
        c2 = {"workload": ops, "j": j, "n": n, "completed_calls": k, "after": last, "op": ops[j], "restart_config": cfg}
        runner.oracle(ops[j], {"pre": pre, "term": term, "hist": hist, "total": total, "inprog": inprog, "calls": ref_calls}, post, rlog, w, c2, crashed)
        shutil.rmtree(w.base, ignore_errors=True)
        return {"operation": ops[j], "calls_completed_before_the_crash": calls, "crashed": crashed,
                "before": {"%d/%d" % kk: jview(v) for kk, v in pre.items() if v != ABSENT},
                "after_restart": {"%d/%d" % kk: jview(v) for kk, v in post.items() if v != ABSENT}}
    finally:
        uninstall()
        shutil.rmtree(env.subdir("c29"), ignore_errors=True)
