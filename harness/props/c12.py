"""C12  Concurrent writers are detected, never silently clobbered."""
import shutil
import struct

from core import env
from core import term as T

ID = "C12"
GEN = ["mutpins"]
RULE = ("cell cases: 2-8 share slots on a real StorageServer, 1-3 writers, random interleavings of survey / guarded-write events "
        "(bounded exhaustive over all interleavings of two writers on <= 3 cells in the thorough tier); non-trivial = at least one refused write; "
        "grid cases: 2-3 clients overwrite one mutable file concurrently under seeded response orders, k and N on both sides of (W+1)k <= N")
META = {
    "title": "Concurrent writers are detected, never silently clobbered",
    "level_text": ("Theorems in Coq over a test-and-set cell model, for ALL interleavings (induction over event lists, pigeonhole): a guarded write is "
                   "applied iff the share still holds the surveyed version; a refused write changes nothing and marks the writer surprised, "
                   "permanently; with (writers+1)*k <= N some version occupies >= k share numbers in every reachable state; and at trace level "
                   "(ghost dirty sets, invariant over all interleavings of writers that survey once per publish) an applied write never lands on a "
                   "share another writer replaced since the survey, hence "
                   "two overlapping publishes that write a common share are never both unsurprised.  The cell semantics "
                   "are compared with the real StorageServer.slot_testv_and_readv_and_writev on random and exhaustive interleavings; real "
                   "concurrent publishes by several clients are run on a grid with the property's rules as oracle."),
    "level_note": ("core (partial): a common placement (one slot per share number) and atomic per-share writes are modelling assumptions; the "
                   "publisher's translation of a refused write into UncoordinatedWriteError is C47's model; scheduler orders on the grid are "
                   "sampled, not proved.  'No writer stops midway' is not needed for the cell-level theorem."),
    "technique": "Coq proof by invariant + pigeonhole over all interleavings of a test-and-set model; differential run vs the real storage server; grid races",
    "design_ref": "8/C12",
    "trusted_base": [],
    "assumptions": ["writers use a common placement of the N share numbers", "version ids of distinct publishes are distinct"],
}
IMPORTS = ["Model.TestAndSet"]
COQ_EXTRA = ["Model.SlotAnswer"]


def enc(v):
    return struct.pack(">Q", v)


def drive_cells(ncells, nwriters, events, tag):
    """Replay events on a real StorageServer: cells are the shares of one mutable slot."""
    from twisted.internet.task import Clock
    from allmydata.storage.server import StorageServer
    d = env.subdir("c12-%s" % tag)
    ss = StorageServer(d, b"\x00" * 20, clock=Clock())
    si = b"s" * 16
    secrets = (b"w" * 32, b"r" * 32, b"c" * 32)
    # initial population: every cell holds version 0
    tw = {i: ([], [(0, enc(0))], None) for i in range(ncells)}
    ok, _ = ss.slot_testv_and_readv_and_writev(si, secrets, tw, [])
    assert ok
    snaps = [None] * nwriters
    surprised = [False] * nwriters
    acked = [[] for _ in range(nwriters)]
    dirty = [set() for _ in range(nwriters)]     # cells another writer's applied write touched since j's survey
    clobbers = []
    for e in events:
        if e[0] == "S":
            j = e[1]
            dirty[j] = set()
            rd = ss.slot_readv(si, list(range(ncells)), [(0, 8)])
            snaps[j] = [struct.unpack(">Q", rd[i][0])[0] for i in range(ncells)]
        else:
            _, j, i = e
            if snaps[j] is None or i >= ncells:
                continue
            wrote, rd = ss.slot_testv_and_readv_and_writev(
                si, secrets, {i: ([(0, 8, b"eq", enc(snaps[j][i]))], [(0, enc(j + 1))], None)}, [(0, 8)])
            if wrote:
                acked[j].insert(0, i)
                if i in dirty[j]:
                    clobbers.append((j, i))
                for o in range(nwriters):
                    if o != j:
                        dirty[o].add(i)
            else:
                surprised[j] = True
    rd = ss.slot_readv(si, list(range(ncells)), [(0, 8)])
    cells = [struct.unpack(">Q", rd[i][0])[0] for i in range(ncells)]
    drive_cells.last_clobbers = clobbers
    # applied writes at the end: the cell still holds the writer's version, or an informed successor replaced it
    drive_cells.last_orphans = []
    for j in range(nwriters):
        for i in acked[j]:
            if cells[i] == j + 1:
                continue
            if not any(o != j and i in acked[o] and snaps[o] is not None and snaps[o][i] == j + 1 for o in range(nwriters)):
                drive_cells.last_orphans.append((j, i, cells[i]))
    return cells, surprised, acked


def coq_events(events):
    return T.lst(["Survey %s" % T.nat(e[1]) if e[0] == "S" else "Write %s %s" % (T.nat(e[1]), T.nat(e[2])) for e in events])


PRE = """
Fixpoint nat_list_eqb (a b : list nat) : bool :=
  match a, b with
  | [], [] => true
  | x :: a', y :: b' => Nat.eqb x y && nat_list_eqb a' b'
  | _, _ => false
  end.
Fixpoint all2 {A B} (f : A -> B -> bool) (a : list A) (b : list B) : bool :=
  match a, b with
  | [], [] => true
  | x :: a', y :: b' => f x y && all2 f a' b'
  | _, _ => false
  end.
"""


def one_case(ctx, idx, ncells, nwriters, events, terms, info, k=None):
    cells, surprised, acked = drive_cells(ncells, nwriters, events, "%d" % (idx % 50))
    refused = any(surprised)
    ctx.case((ncells, nwriters, tuple(events)) if refused else None, kind="cells:w=%d" % nwriters)
    case = {"cells": ncells, "writers": nwriters, "events": events}
    # oracle (Props/C12.v applied_write_on_untouched_cell, stated on the real server): an applied write never lands
    # on a share another writer has replaced since this writer's survey
    for (j, i, now) in drive_cells.last_orphans:
        ctx.oracle_fail("applied-write-replaced-by-uninformed-writer", "writer %d's applied write to share %d was replaced (share now holds version %d) "
                        "by a writer whose survey had not seen writer %d's version there" % (j, i, now, j), case=case)
    for (j, i) in drive_cells.last_clobbers:
        ctx.oracle_fail("silent-clobber", "the server applied writer %d's guarded write to share %d although another writer had replaced it "
                        "since writer %d's survey" % (j, i, j), case=case)
    # oracle: pigeonhole consequence on the real server state
    for kk in range(1, ncells + 1):
        if (nwriters + 1) * kk <= ncells:
            counts = {}
            for v in cells:
                counts[v] = counts.get(v, 0) + 1
            if max(counts.values()) < kk:
                ctx.oracle_fail("no-version-holds-k-shares", "with %d writers on %d shares no version holds %d shares: %r" % (nwriters, ncells, kk, cells), case=case)
    # oracle (overlapping_publishes_detected on the real server): two writers that had both surveyed before either of
    # them wrote share i, and that both wrote share i, are not both unsurprised at the end
    pos_s = {e[1]: t for t, e in enumerate(events) if e[0] == "S"}
    pos_w = {(e[1], e[2]): t for t, e in enumerate(events) if e[0] == "W" and e[2] < ncells}
    for (j, i), tj in pos_w.items():
        for o in range(nwriters):
            if o != j and (o, i) in pos_w and j in pos_s and o in pos_s and max(pos_s[j], pos_s[o]) < min(tj, pos_w[(o, i)]):
                if not surprised[j] and not surprised[o]:
                    ctx.oracle_fail("overlap-undetected", "writers %d and %d both wrote share %d after both had surveyed, and neither was "
                                    "told about the other" % (j, o, i), case=case)
    if any(v not in range(0, nwriters + 1) for v in cells):
        ctx.oracle_fail("share-holds-unpublished-version", "a share holds a value nobody wrote: %r" % (cells,), case=case)
    terms.append("(let s := run %s %s %s in list_eqb (cells s) %s && all2 Bool.eqb (map w_surprised (ws s)) %s && all2 nat_list_eqb (map acked (ws s)) %s)" % (
        T.nat(ncells), T.nat(nwriters), coq_events(events), T.lst([T.N(v) for v in cells]),
        T.lst([T.boolean(b) for b in surprised]), T.lst([T.lst([T.nat(i) for i in a]) for a in acked])))
    info.append(case)


def run(ctx):
    ctx.correspondence("storage-server-test-and-set-vs-model")
    ctx.correspondence("grid-concurrent-publishes")
    terms, info = [], []
    idx = 0
    if ctx.tier == "thorough" or ctx.search:
        # every interleaving of two writers, each: survey then one write per cell, on 1..3 cells
        import itertools
        for ncells in (1, 2, 3):
            seqs = [[("S", j)] + [("W", j, i) for i in range(ncells)] for j in range(2)]
            total = [len(s) for s in seqs]
            for mask in itertools.combinations(range(sum(total)), total[0]):
                pos = [0, 0]
                events = []
                for t in range(sum(total)):
                    j = 0 if t in mask else 1
                    events.append(seqs[j][pos[j]])
                    pos[j] += 1
                one_case(ctx, idx, ncells, 2, events, terms, info)
                idx += 1
        ctx.note("exhaustive: all interleavings of 2 writers on 1..3 cells (%d cases)" % idx)
    n = ctx.n(250, 2500)
    for i in range(n):
        r = ctx.rng("cells", i)
        ncells = r.randrange(2, 9)
        nw = r.choice([1, 2, 2, 3, 3])
        pending = []
        for j in range(nw):
            order = list(range(ncells))
            r.shuffle(order)
            if r.random() < 0.2:
                order = order[:r.randrange(0, ncells + 1)]       # a writer that stops midway
            pending.append([("S", j)] + [("W", j, c) for c in order])
        events = []
        while any(pending):
            j = r.choice([x for x in range(nw) if pending[x]])
            events.append(pending[j].pop(0))
        one_case(ctx, idx, ncells, nw, events, terms, info)
        idx += 1
        if i < 2:
            ctx.sample({"cells": ncells, "writers": nw, "events": events})
    bad = ctx.coq_check(IMPORTS, terms, preamble=PRE, tag="c12")
    for ix in bad:
        ctx.mismatch("test-and-set-model-differs", "storage server test-and-set behaviour and Model/TestAndSet.v disagree", case=info[ix],
                     correspondence="storage-server-test-and-set-vs-model")
    ctx.trace(len(terms) - len(bad))
    answer_cases(ctx)
    verdict_cases(ctx)
    grid_cases(ctx)


def verdict_cases(ctx):
    """'A publisher that meets a different version reports an uncoordinated-write error' on the real Publish bookkeeping
    (_connection_problem / _got_write_answer / _push / _failure, driven as in C47), whatever else goes wrong at the same time:
    refused writes combined with lost connections, down to fewer than k -- or zero -- writers left."""
    from props import c47
    ctx.correspondence("publisher-verdict-vs-model")
    servers = [c47.Srv(i) for i in range(6)]
    terms, info = [], []
    for i in range(ctx.n(120, 1200)):
        r = ctx.rng("verdict", i)
        k = r.choice([1, 2, 3, 3, 4])
        nw = r.randrange(1, 9)
        seen, writers = set(), []
        for _ in range(nw):
            key = (r.randrange(0, 6), r.randrange(0, 5))
            if key not in seen:
                seen.add(key)
                writers.append(c47.W(key[0], servers[key[1]]))
        foreign_only = (i % 4 == 1)
        if foreign_only:
            # every write is ACCEPTED, but one answer shows a share of another version under a share number this publisher
            # does not write to that server (numbers 6.. are never ours): the other version was met all the same
            nref, nerr = 0, 0
            kinds = ["foreign"] + ["ok"] * (len(writers) - 1)
        else:
            nref = r.randrange(1, len(writers) + 1)                  # at least one write is refused: another version was met
            nerr = r.randrange(0, len(writers) - nref + 1) if i % 3 else len(writers) - nref    # every third case: everything else is lost
            kinds = ["ref"] * nref + ["err"] * nerr + ["ok"] * (len(writers) - nref - nerr)
        r.shuffle(kinds)
        answers = []
        for w, kd in zip(writers, kinds):
            if kd == "err":
                answers.append((w, ("err",)))
            elif kd == "ref":
                answers.append((w, ("ans", False, [(w.shnum, c47.other_checkstring(r))])))
            elif kd == "foreign":
                answers.append((w, ("ans", True, [(w.shnum, c47.OURS), (6 + r.randrange(3), c47.other_checkstring(r))])))
            else:
                answers.append((w, ("ans", True, [(w.shnum, c47.OURS)])))
        r.shuffle(answers)
        out, _placed = c47.drive_unit(k, writers, answers)
        case = {"k": k, "writers": [(w.shnum, w.server.i) for w in writers], "answers": [[(w.shnum, w.server.i), kd] for (w, _a), kd in zip(answers, [("err" if a[0] == "err" else (("ok" if len(a[2]) == 1 else "ok+foreign-share") if a[1] else "refused")) for _w, a in answers])]}
        ctx.case(repr(case), kind="verdict:%s" % out)
        if out != "UncoordinatedWrite":
            ctx.oracle_fail("met-other-version-without-ucwe", ("a publisher whose writes were all accepted was shown a share of another version on a server it wrote to "
                            "and ended with %s instead of UncoordinatedWriteError (k=%d)" % (out, k)) if foreign_only else
                            "a publisher had %d of its %d writes refused (the share held another version) and ended with %s instead of "
                            "UncoordinatedWriteError (k=%d, %d connection errors)" % (nref, len(writers), out, k, nerr), case=case,
                            expected="UncoordinatedWrite", observed=out)

        def wt(w):
            return "{| w_shnum := %s; w_server := %s |}" % (T.N(w.shnum), T.N(w.server.i))
        ans_terms = []
        for w, a in answers:
            if a[0] == "err":
                ans_terms.append("(%s, ConnError)" % wt(w))
            else:
                rd = T.lst(["{| r_shnum := %s; r_is_our_checkstring := %s |}" % (T.N(sh), T.boolean(cs == c47.OURS)) for sh, cs in a[2]])
                ans_terms.append("(%s, Answered %s %s)" % (wt(w), T.boolean(a[1]), rd))
        if out in ("Success", "UncoordinatedWrite", "NotEnoughServers"):
            terms.append("outcome_eqb (publish_outcome %s %s %s) %s" % (T.N(k), T.lst([wt(w) for w in writers]), T.lst(ans_terms), out))
            info.append(case)
    bad = ctx.coq_check(["Model.Publish"], terms, tag="c12verdict")
    for ix in bad:
        ctx.mismatch("publisher-verdict-differs", "Publish bookkeeping and Model/Publish.v disagree on the verdict", case=info[ix],
                     correspondence="publisher-verdict-vs-model")
    ctx.trace(len(terms) - len(bad))


def answer_cases(ctx):
    """What a test-and-set request reports back (Model/SlotAnswer.server_read_data) on the real StorageServer: every share
    the server holds for the slot, with its contents BEFORE the request's writes, whichever shares the request names and
    whether or not its test vectors hold."""
    from twisted.internet.task import Clock
    from allmydata.storage.server import StorageServer
    ctx.correspondence("server-answer-vs-model")
    terms, info = [], []
    n = ctx.n(60, 600)
    for i in range(n):
        r = ctx.rng("answer", i)
        d = env.subdir("c12-ans-%d" % (i % 40))
        shutil.rmtree(d, ignore_errors=True)          # no shares left over from an earlier case or run
        ss = StorageServer(d, b"\x01" * 20, clock=Clock())
        si = bytes([65 + i % 26]) * 16
        secrets = (b"w" * 32, b"r" * 32, b"c" * 32)
        held = {sh: r.randrange(0, 5) for sh in r.sample(range(8), r.randrange(1, 6))}
        ok, _ = ss.slot_testv_and_readv_and_writev(si, secrets, {sh: ([], [(0, enc(v))], None) for sh, v in held.items()}, [])
        assert ok
        # the request: one or two share numbers (held or new), tests that hold or fail, as a publisher sends them
        named = r.sample(range(8), r.choice([1, 1, 2]))
        tw = {}
        expect_wrote = True
        for sh in named:
            passing = r.random() < 0.6
            if sh in held:
                seen = held[sh] if passing else held[sh] + 1
                tw[sh] = ([(0, 8, b"eq", enc(seen))], [(0, enc(9))], None)
            else:
                tw[sh] = ([(0, 8, b"eq", b"" if passing else enc(1))], [(0, enc(9))], None)
            expect_wrote = expect_wrote and passing
        wrote, rd = ss.slot_testv_and_readv_and_writev(si, secrets, tw, [(0, 8)])
        case = {"held": {str(k_): v for k_, v in sorted(held.items())}, "named": sorted(named), "tests_hold": expect_wrote}
        ctx.case(("answer", tuple(sorted(held.items())), tuple(sorted(named)), expect_wrote), kind="answer:%s" % ("applied" if expect_wrote else "refused"))
        want = {sh: [enc(v)] for sh, v in held.items()}
        if wrote != expect_wrote:
            ctx.oracle_fail("test-and-set-result-wrong", "slot_testv_and_readv_and_writev returned %s, the test vectors %s" % (
                wrote, "hold" if expect_wrote else "do not hold"), case=case)
        if rd != want:
            ctx.oracle_fail("answer-does-not-report-held-shares", "the answer to a test-and-set request naming shares %r reports %r; the server held %r "
                            "before the request (the publisher learns of other versions only from this)" % (
                                sorted(named), {k_: v[0].hex() for k_, v in sorted(rd.items())}, {k_: v[0].hex() for k_, v in sorted(want.items())}),
                            case=case, expected=sorted(want), observed=sorted(rd))
        obs = sorted((sh, struct.unpack(">Q", v[0])[0] if len(v[0]) == 8 else 999) for sh, v in rd.items())
        terms.append("slot_eqb (server_read_data %s %s) %s" % (
            T.lst(["(%s, %s)" % (T.N(sh), T.N(v)) for sh, v in sorted(held.items())]), T.lst([T.N(x) for x in sorted(named)]),
            T.lst(["(%s, %s)" % (T.N(sh), T.N(v)) for sh, v in obs])))
        info.append(case)
    pre = """
Fixpoint slot_eqb (a b : list (N * N)) : bool :=
  match a, b with
  | [], [] => true
  | (x, u) :: a', (y, v) :: b' => (x =? y) && (u =? v) && slot_eqb a' b'
  | _, _ => false
  end.
"""
    bad = ctx.coq_check(["Model.SlotAnswer"], terms, preamble=pre, tag="c12ans")
    for ix in bad:
        ctx.mismatch("server-answer-differs", "the read data of a real test-and-set answer and Model/SlotAnswer.server_read_data differ", case=info[ix],
                     correspondence="server-answer-vs-model")
    ctx.trace(len(terms) - len(bad))


def grid_cases(ctx):
    from core import grid as G
    from twisted.internet import defer
    from props.c11 import share_version
    n = ctx.n(10, 80)
    for i in range(n):
        r = ctx.rng("grid", i)
        seed = r.getrandbits(30)
        W = r.choice([2, 2, 3])
        k, N = r.choice([(1, 3), (1, 4), (2, 6), (2, 4), (3, 5), (3, 10), (2, 9)])
        S = r.choice([N, N, max(3, N // 2), 10])
        S = min(S, 10)
        fmt = r.choice(["sdmf", "mdmf"])
        if i < 3:
            fmt = ["sdmf", "mdmf", "sdmf"][i]
            k, N, S = [(3, 10, 10), (3, 10, 10), (2, 6, 6)][i]
        fifo = r.choice(["none", "server"])
        case = {"seed": seed, "writers": W, "k": k, "N": N, "servers": S, "format": fmt, "fifo": fifo}
        missing = r.choice([0, 0, 1, 2]) if N >= 3 else 0
        case["missing_shares_before_race"] = missing
        with G.Grid(num_clients=W, num_servers=S, k=k, n=N, happy=1, seed=seed, fifo=fifo, timeout=300) as g:
            node0 = g.run(g.create_mutable(b"old-version", version=fmt))
            cap = node0.get_uri()
            if missing:
                # the file lacks some shares: every writer will place them afresh, on the same empty servers
                shs0 = g.find_shares(cap)
                r.shuffle(shs0)
                for sh in shs0[:min(missing, max(0, len(shs0) - k))]:
                    g.delete_share(sh)
            datas = [b"writer-%d-" % j + bytes([65 + j]) * r.randrange(1, 40) for j in range(W)]
            if i < 3 or r.random() < 0.15:
                # one share-holding server fails the survey's read(s) but accepts writes afterwards: the publisher does not know
                # its share and places that share number afresh -- possibly on that very server, where the "must not exist yet"
                # test has to refuse it.  (Cases 0..2 of every run; SDMF and MDMF alternate there.)
                if i < 3:
                    W = 1
                    datas = datas[:1]
                holders = sorted(set(sh.server for sh in g.find_shares(cap)))
                blind = r.choice(holders)
                case["server_failing_survey_reads"] = blind
                g.set_faults([{"server": blind, "method": "slot_readv", "nth": 0, "count": 1 if i >= 3 else 2, "action": "error"}])
            wlog = []
            restore = watch_server_writes(wlog)
            try:
                ds = [g.mutable_overwrite(g.node(cap, client=j), datas[j], client=j) for j in range(W)]
                out = g.run(defer.DeferredList(ds, consumeErrors=True), outcome=True)
            finally:
                restore()
                g.set_faults([])
            bad = unguarded_overwrites(wlog)
            if bad:
                ctx.case((seed, "unguarded"), kind="grid:unguarded-overwrite")
                ctx.oracle_fail("share-overwritten-without-testing-its-version",
                                "a storage server applied a write to an EXISTING share although the request's test vector did not pin "
                                "the share's current version: %r" % (bad[0],), case=case, observed=bad[:3])
                continue
            ctx.case((seed, W, k, N, fmt, fifo), kind="grid:W=%d:bound=%s" % (W, (W + 1) * k <= N))
            if out.status != "ok":
                ctx.oracle_fail("concurrent-publish-never-finished", "concurrent publishes: %s" % out.status, case=case)
                continue
            results = []
            for ok, val in out.value:
                results.append("ok" if ok else val.value.__class__.__name__)
            case["results"] = results
            for res in results:
                if res not in ("ok", "UncoordinatedWriteError", "NotEnoughServersError"):
                    ctx.count("grid-other-error:" + res)
            rd = g.run(g.mutable_read(cap, client=0), outcome=True)
            # A writer that got UncoordinatedWriteError may still have replaced the shares whose test
            # passed (it noticed: that is what the property asks), so the final contents need not be a
            # successful writer's.  What can never happen without a silent clobber: m publishes all
            # report success while the newest sequence number on disk is below old + m -- two writers
            # that both surveyed the same version and both "succeeded" would write the same seqnum.
            shares_now = [share_version(g, sh) for sh in g.find_shares(cap)]
            m_ok = sum(1 for res in results if res == "ok")
            top_seq = max(v[0] for v in shares_now) if shares_now else 0
            if m_ok and top_seq < 1 + m_ok:
                ctx.oracle_fail("successful-publishes-share-a-seqnum", "%d writers reported success but the newest sequence number on disk is %d (old version was 1): "
                                "two of them wrote over the same survey without noticing" % (m_ok, top_seq), case=case, expected=">= %d" % (1 + m_ok), observed=top_seq)
                continue
            if m_ok == W and len(set(shares_now)) != 1:
                ctx.oracle_fail("all-succeeded-but-mixed-versions", "every writer reported success but shares of %d versions remain" % len(set(shares_now)), case=case)
                continue
            if rd.status == "ok" and rd.value not in datas + [b"old-version"]:
                ctx.oracle_fail("read-returned-unpublished-bytes", "read after the race returned bytes nobody published", case=case, observed=rd.value)
                continue
            if (W + 1) * k <= N:
                # some version must remain recoverable from the shares on disk
                byver = {}
                for sh in g.find_shares(cap):
                    byver.setdefault(share_version(g, sh), set()).add(sh.shnum)
                if not any(len(s) >= k for s in byver.values()):
                    ctx.oracle_fail("no-version-recoverable-after-race", "after %d concurrent writers no version has %d distinct shares: %r" % (
                        W, k, {str(v[0]): sorted(s) for v, s in byver.items()}), case=case)
                    continue
                if rd.status == "ok" and rd.value not in datas + [b"old-version"]:
                    ctx.oracle_fail("read-returned-unpublished-bytes", "read after the race returned bytes nobody published", case=case, observed=rd.value)
                    continue
            ctx.trace(1)
            ctx.sample(case, limit=8)


# ---------------------------------------------------------------------------
# Server-side observation of the race (harness instrumentation, transparent to the code under test)
# ---------------------------------------------------------------------------
def watch_server_writes(log):
    """Wrap StorageServer.slot_testv_and_readv_and_writev on the class: for each share a request
    writes, record the first bytes of the share BEFORE the request, the test vector and the verdict."""
    import functools
    import allmydata.storage.server as SS
    orig = SS.StorageServer.slot_testv_and_readv_and_writev

    @functools.wraps(orig)
    def wrapper(self, storage_index, secrets, test_and_write_vectors, read_vector, renew_leases=True):
        pre = {}
        try:
            got = self.slot_readv(storage_index, list(test_and_write_vectors.keys()), [(0, 80)])
            for shnum in test_and_write_vectors:
                pre[shnum] = got.get(shnum, [None])[0]
        except Exception:
            pass
        res = orig(self, storage_index, secrets, test_and_write_vectors, read_vector, renew_leases)
        try:
            log.append({"pre": pre, "tw": {sh: (list(v[0]), len(v[1]), v[2]) for sh, v in test_and_write_vectors.items()}, "wrote": bool(res[0])})
        except Exception:
            pass
        return res
    SS.StorageServer.slot_testv_and_readv_and_writev = wrapper

    def restore():
        SS.StorageServer.slot_testv_and_readv_and_writev = orig
    return restore


def unguarded_overwrites(log):
    """Applied writes to a share that existed, whose test vector does not compare at least the
    version prefix (version byte, sequence number, root hash = 41 bytes) with what was there."""
    bad = []
    for rec in log:
        if not rec["wrote"]:
            continue
        for shnum, (testv, nwrites, newlen) in rec["tw"].items():
            before = rec["pre"].get(shnum)
            if not before or nwrites == 0:
                continue          # the share did not exist (placing it afresh), or nothing is written to it
            pinned = False
            for tv in testv:
                off, length, specimen = tv[0], tv[1], tv[-1]
                if off == 0 and length >= 41 and bytes(specimen) == bytes(before[:length]):
                    pinned = True
            if not pinned:
                bad.append({"shnum": shnum, "testv": [(tv[0], tv[1], bytes(tv[-1]).hex()) for tv in testv], "share_began_with": bytes(before[:41]).hex()})
    return bad
