"""C40  Web API byte-range downloads follow RFC 7233."""
import re

from core import term as T

ID = "C40"
GEN = ["pyunicode", "webrange"]
RULE = ("cases: (file size, node kind, method, Range header bytes); every size 0..300 (plus a few larger ones) x headers placed on the "
        "boundaries of that size (first/last in {0, 1, n/2, n-2, n-1, n, n+1, 10^20}, last = first-1/first/first+1, suffix lengths "
        "0, 1, n-1, n, n+1, open-ended, leading zeros) x a rotating selection of multi-range, garbage, whitespace, letter-case, "
        "lenient-number (sign, underscore, non-ASCII digits, 4301 digits) and invalid-UTF-8 headers; GET and HEAD; LIT, "
        "immutable and mutable nodes in rotation.  distinct = distinct (size, header, method, kind); non-trivial = the response is 206 or 416")
META = {
    "title": "Web API byte-range downloads follow RFC 7233",
    "level_text": ("Theorems in Coq over a model of FileDownloader.parse_range_header + render (status, Content-Range, Content-Length, body) "
                   "for ALL file contents and ALL header strings: a header that is one byte range in RFC 7233's grammar gets 206 with exactly "
                   "the requested bytes clipped at end-of-file and 'bytes first-last/size', or 416 with 'bytes */size' when it starts at or "
                   "beyond the end; anything outside the grammar gets the whole file; HEAD has the same status and headers and no body.  The "
                   "RFC rule is an independent Gallina specification; the precondition range_strict excludes exactly the recorded leniencies "
                   "of int()/str.strip(), each refuted without it.  The model is run against the real twisted.web request path "
                   "(Site -> FileNodeHandler.render_GET/HEAD -> FileDownloader.render) and that against an independent RFC 7233 reference."),
    "level_note": ("Nodes: a real LiteralFileNode; the immutable (CHK) and mutable nodes are in-memory stubs implementing is_mutable / "
                   "get_storage_index / get_best_readable_version / get_size / read(consumer, offset, size) - no grid download is involved, the "
                   "property concerns the web layer.  Requests are real twisted.web.server.Request objects on a DummyChannel (no socket); the "
                   "response is parsed from the bytes written to the transport, so HEAD body suppression and header emission are Twisted's. "
                   "Modelled headers: status, Content-Range, Content-Length; Accept-Ranges/Content-Type/ETag only compared between GET and HEAD "
                   "by the driver.  Trusted: AST pins of the four methods, the reading of int()/str.strip()/str.split, the interpreter's Unicode "
                   "tables regenerated on every run."),
    "technique": "Coq proof (model = RFC 7233 decision for all sizes and header strings, under a stated strictness precondition) + differential run vs the real request path and an independent RFC reference",
    "design_ref": "8/C40",
    "trusted_base": ["translator harness/translate/webrange.py (constants, AST pins) and pyunicode.py (interpreter tables)",
                     "twisted.web request machinery used to drive the real render path; stub CHK/mutable nodes"],
    "assumptions": ["rfc_ranges / rfc_decide / respond in Model/Range.v transcribe RFC 7233 sections 2.1, 4.1, 4.2, 4.4 (sender form of the list rule, "
                    "case-sensitive unit); every range on an empty file counts as starting at the end (416), as the property words it"],
}

IMPORTS = ["Lib.Hex", "Model.Range"]
PREAMBLE = """
Definition mkdata (n : nat) : list N := map (fun i => (N.of_nat i * 7 + 3) mod 256) (seq 0 n).
Definition opt_eqb (a b : option (list N)) : bool :=
  match a, b with Some x, Some y => list_N_eqb x y | None, None => true | _, _ => false end.
Definition resp_eqb (a b : response) : bool :=
  (status a =? status b) && opt_eqb (content_range a) (content_range b) && (content_length a =? content_length b)
  && list_N_eqb (body a) (body b).
(* long bodies are compared by length and a polynomial digest (string literals are slow to elaborate);
   the driver's oracle compares the implementation's body with the expected bytes exactly *)
Definition digest (b : list N) : N := fold_left (fun a c => (a * 257 + c + 1) mod 1000000007) b 0.
Definition resp_dig (a : response) (st : N) (cr : option (list N)) (cl blen bdig : N) : bool :=
  (status a =? st) && opt_eqb (content_range a) cr && (content_length a =? cl)
  && (N.of_nat (List.length (body a)) =? blen) && (digest (body a) =? bdig).
"""


def digest(b):
    a = 0
    for c in b:
        a = (a * 257 + c + 1) % 1000000007
    return a


def mkdata(n):
    return bytes((i * 7 + 3) % 256 for i in range(n))


# ---------------------------------------------------------------------------
# independent reference: RFC 7233 section 2.1 grammar (sender form of the list
# rule, OWS = SP / HTAB) and sections 2.1 / 4.1 / 4.2 / 4.4 decision
# ---------------------------------------------------------------------------
_SPEC = rb"(?:[0-9]+-[0-9]*|-[0-9]+)"
_SET = re.compile(rb"bytes=" + _SPEC + rb"(?:[ \t]*,[ \t]*" + _SPEC + rb")*")
_ONE = re.compile(_SPEC)


def to_int(b):
    """value of a 1*DIGIT string of any length (int() itself refuses more than 4300 digits)"""
    v = 0
    for i in range(0, len(b), 4000):
        chunk = b[i:i + 4000]
        v = v * 10 ** len(chunk) + int(chunk)
    return v


def rfc_specs(hb):
    """list of ("fromto", f, l) / ("from", f) / ("suffix", k), or None when the header is not a valid byte-range-set"""
    if hb is None or not _SET.fullmatch(hb):
        return None
    out = []
    for tok in _ONE.findall(hb[len(b"bytes="):]):
        a, b = tok.split(b"-")
        if a == b"":
            out.append(("suffix", to_int(b)))
        elif b == b"":
            out.append(("from", to_int(a)))
        else:
            if to_int(b) < to_int(a):
                return None          # "invalid if the last-byte-pos value is present and less than the first-byte-pos"
            out.append(("fromto", to_int(a), to_int(b)))
    return out


def rfc_decide(n, spec):
    """("partial", first, last) | ("unsat",)"""
    if spec[0] == "suffix":
        if spec[1] == 0 or n == 0:
            return ("unsat",)
        return ("partial", n - min(spec[1], n), n - 1)
    first = spec[1]
    if first >= n:
        return ("unsat",)
    last = n - 1 if spec[0] == "from" else min(spec[2], n - 1)
    return ("partial", first, last)


def expected(n, data, decision):
    """(status, content-range, content-length or None = unspecified, body or None = unspecified)"""
    if decision is None:
        return (200, None, n, data)
    if decision[0] == "unsat":
        return (416, b"bytes */%d" % n, None, None)
    f, l = decision[1], decision[2]
    return (206, b"bytes %d-%d/%d" % (f, l, n), l - f + 1, data[f:l + 1])


# ---------------------------------------------------------------------------
# which leniency of the implementation a header exercises (mirrors range_strict)
# ---------------------------------------------------------------------------
_POS = re.compile(r"[0-9]+")


def leniency(h):
    """h: decoded header (str).  Returns a set of {"number", "long-number", "blank"}."""
    out = set()
    if "=" not in h:
        return out
    unit, rangeset = h.split("=", 1)
    if unit != "bytes":
        return out
    raw = rangeset.split(",")
    if rangeset[:1] in (" ", "\t") or rangeset[-1:] in (" ", "\t"):
        out.add("blank")
    for e in raw:
        if e.strip() != e.strip(" \t"):
            out.add("blank")
        t = e.strip()
        if "-" not in t:
            continue
        for p in t.split("-", 1):
            strict = bool(_POS.fullmatch(p)) and p.isascii()
            try:
                int(p)
                ok = True
            except ValueError:
                ok = False
            if ok and not strict:
                out.add("number")
            if strict and not ok:
                out.add("long-number")
    return out


# ---------------------------------------------------------------------------
# the real request path
# ---------------------------------------------------------------------------
class _Version(object):
    """in-memory readable version: get_size / read(consumer, offset, size) as IReadable specifies"""

    def __init__(self, data):
        self.data = data

    def get_size(self):
        return len(self.data)

    def read(self, consumer, offset=0, size=None):
        from twisted.internet import defer
        d = self.data[offset:] if size is None else self.data[offset:offset + size]
        for i in range(0, len(d), 97):
            consumer.write(d[i:i + 97])
        return defer.succeed(consumer)


class _Immutable(_Version):
    def is_mutable(self):
        return False

    def get_storage_index(self):
        return b"\x5a" * 16

    def get_best_readable_version(self):
        from twisted.internet import defer
        return defer.succeed(self)


class _Mutable(object):
    def __init__(self, data):
        self.version = _Version(data)

    def is_mutable(self):
        return True

    def get_best_readable_version(self):
        from twisted.internet import defer
        return defer.succeed(self.version)


class Web(object):
    KINDS = ("lit", "imm", "mut")

    def __init__(self):
        from twisted.web import resource, server
        self.server = server
        self.root = resource.Resource()
        self.site = server.Site(self.root)
        self.have = set()

    def path(self, kind, n):
        from allmydata import uri
        from allmydata.immutable.literal import LiteralFileNode
        from allmydata.web.filenode import FileNodeHandler
        name = b"%s%d" % (kind.encode(), n)
        if name not in self.have:
            data = mkdata(n)
            node = {"lit": lambda: LiteralFileNode(uri.LiteralFileURI(data)), "imm": lambda: _Immutable(data), "mut": lambda: _Mutable(data)}[kind]()
            self.root.putChild(name, FileNodeHandler(None, node, None, b"download.bin"))
            self.have.add(name)
        return b"/" + name

    def request(self, kind, n, method, hb):
        """-> (status, {header: value}, body) parsed from the bytes twisted wrote to the transport"""
        from twisted.web.test.requesthelper import DummyChannel
        ch = DummyChannel()
        ch.site = self.site
        req = self.server.Request(ch, False)
        if hb is not None:
            req.requestHeaders.setRawHeaders(b"range", [hb])
        req.gotLength(0)
        req.requestReceived(method, self.path(kind, n), b"HTTP/1.1")
        for _ in range(100000):               # LiteralFileNode.read uses a pull producer: play the transport
            if req.finished or not ch.transport.producers:
                break
            ch.transport.producers[-1][0].resumeProducing()
        if not req.finished:
            return (0, {}, b"request never finished")
        raw = ch.transport.written.getvalue()
        head, _, body = raw.partition(b"\r\n\r\n")
        lines = head.split(b"\r\n")
        status = int(lines[0].split(b" ")[1])
        hdrs = {}
        for ln in lines[1:]:
            k, _, v = ln.partition(b": ")
            hdrs[k.lower().decode("latin-1")] = v if k.lower().decode("latin-1") not in hdrs else hdrs[k.lower().decode("latin-1")] + b"," + v
        return (status, hdrs, body)


# ---------------------------------------------------------------------------
# header generators
# ---------------------------------------------------------------------------
BIG = 10 ** 20


def boundary_headers(n):
    F = sorted(set(x for x in (0, 1, n // 2, n - 2, n - 1, n, n + 1, BIG) if x >= 0))
    out = []
    for f in F:
        out.append(b"bytes=%d-" % f)
        for l in sorted(set(x for x in (f - 1, f, f + 1, n - 2, n - 1, n, n + 1, BIG) if x >= 0)):
            out.append(b"bytes=%d-%d" % (f, l))
    for k in sorted(set(x for x in (0, 1, 2, n // 2, n - 1, n, n + 1, BIG) if x >= 0)):
        out.append(b"bytes=-%d" % k)
    out += [b"bytes=00-0%d" % max(n - 1, 0), b"bytes=-0%d" % n, b"bytes=000%d-" % (n // 2)]
    return out


def misc_headers(n):
    m = max(n - 1, 0)
    multi = [b"bytes=0-0,1-1", b"bytes=%d-,0-0" % n, b"bytes=0-0, %d-%d" % (m, n), b"bytes=0-0 ,\t-1", b"bytes=-1,0-0", b"bytes=1-0,0-0", b"bytes=0-0,1-0",
             b"bytes=0-0,", b"bytes=,0-0", b"bytes=0-0,,1-1", b"bytes=0-%d,%d-" % (n, n + 1), b"bytes=%d-%d,-0" % (m, m)]
    garbage = [b"", b"bytes", b"bytes=", b"bytes=-", b"bytes=--", b"bytes=abc", b"bytes=a-b", b"bytes=0", b"bytes=0-1-2", b"bytes=0--1", b"bytes=--1", b"bytes=1-0",
               b"=0-1", b"bytes==0-1", b"bytes=0-1=", b"octets=0-1", b"bytes=0-1;q=1", b"bytes=0x0-0x1", b"bytes=1e1-", b"bytes=0.0-1", b"BOGUS=fizbop-quarnak",
               b"bytes=%d-%d" % (n + 1, n), b"bytes=*", b"bytes=0-*", b"bytes 0-1", b"bytes:0-1", b"-", b"0-1"]
    blank = [b"bytes= 0-1", b"bytes=0-1 ", b"bytes=\t-1", b"bytes=0 -1", b"bytes=0- 1", b"bytes=0-1 , 2-3", b"bytes=0-1\t,\t2-3", b"bytes =0-1", b" bytes=0-1",
             b"bytes=\x0c0-1", b"bytes=0-1\x0b", b"bytes=\xc2\xa00-1", b"bytes=0-1\xe2\x80\x83", b"bytes=\x1c0-1", b"bytes=0-1,\x0c2-3", b"bytes=0-\xc2\x85"]
    case = [b"Bytes=0-1", b"BYTES=0-1", b"bYtes=-1", b"bytes=0-1"]
    number = [b"bytes=+0-1", b"bytes=0-+1", b"bytes=-+1", b"bytes=1_0-", b"bytes=0-1_0", b"bytes=\xd9\xa3-", b"bytes=-\xd9\xa3", b"bytes=\xef\xbc\x90-\xef\xbc\x92",
              b"bytes=--1", b"bytes=0--0", b"bytes=-0_0", b"bytes=\xc2\xb2-", b"bytes=1\xd9\xa3-"]
    badutf8 = [b"bytes=\xff", b"bytes=0-\xff", b"\xff\xfe", b"bytes=0-1\xc3"]
    return multi + garbage + blank + case + number + badutf8


# positions around CPython's 4300-digit limit of int(); evaluating these in Coq costs ~3 s each, so they are not in the rotation
LONG_NUMBERS = [b"bytes=0-" + b"9" * 4301, b"bytes=0-" + b"9" * 4300, b"bytes=" + b"0" * 4301 + b"-", b"bytes=-" + b"0" * 4300 + b"1"]


def lit(b):
    """list N literal for bytes: a Coq string literal when printable ASCII (half as long as hex, literals are what costs time)"""
    if all(32 <= c < 127 and c != 34 for c in b):
        return '(bytes_of_string "%s")' % b.decode("ascii")
    return T.bytes_(b)


def cps(s):
    if all(ord(c) < 128 for c in s):
        return lit(s.encode("ascii"))
    return "[" + "; ".join("%d" % ord(c) for c in s) + "]"


def show(hb):
    if hb is None:
        return None
    s = repr(hb)
    return s if len(s) <= 90 else s[:50] + "...(%d bytes)..." % len(hb) + s[-20:]


# ---------------------------------------------------------------------------
# one case
# ---------------------------------------------------------------------------
class Run(object):
    def __init__(self, ctx):
        self.ctx = ctx
        self.web = Web()
        self.terms = []
        self.info = []
        self.reported = {}

    def once(self, kind, what, **kw):
        """report at most two instances per kind (the rest are counted)"""
        self.ctx.count("finding:" + kind)
        self.reported[kind] = self.reported.get(kind, 0) + 1
        if self.reported[kind] <= 2:
            self.ctx.oracle_fail(kind, what, **kw)

    def case(self, n, kind, hb, head_too=True, model=True):
        ctx = self.ctx
        data = mkdata(n)
        try:
            h = None if hb is None else hb.decode("utf-8")
            decodable = True
        except UnicodeDecodeError:
            h, decodable = None, False
        specs = rfc_specs(hb) if decodable else None
        decision = rfc_decide(n, specs[0]) if specs else None
        want = expected(n, data, decision)
        case = {"size": n, "node": kind, "range": show(hb), "range_hex": None if hb is None or len(hb) > 200 else hb.hex()}
        got = {}
        for method in (b"GET", b"HEAD") if head_too else (b"GET",):
            status, hdrs, body = self.web.request(kind, n, method, hb)
            got[method] = (status, hdrs, body)
            cr = hdrs.get("content-range")
            try:
                cl = int(hdrs.get("content-length", b"-1"))
            except ValueError:
                cl = -1
            ctx.case((n, kind, hb, method) if status in (206, 416) else None,
                     kind="%s-%d%s" % (method.decode(), status, "" if specs is None or len(specs) == 1 else "-multi"))
            if model:
                hdr_term = "None" if (hb is None or not decodable) else "(Some %s)" % cps(h)
                lhs = "render %s (mkdata %s) %s" % (method.decode(), T.nat(n) if n < 5000 else "(N.to_nat %s)" % T.N(n), hdr_term)
                crt = T.opt(None if cr is None else lit(cr))
                clt = T.N(max(cl, 0)) if cl >= 0 else T.N(10 ** 9)
                if len(body) <= 24:
                    self.terms.append("resp_eqb (%s) (mkResponse %s %s %s %s)" % (lhs, T.N(status), crt, clt, T.bytes_(body)))
                else:
                    self.terms.append("resp_dig (%s) %s %s %s %s %s" % (lhs, T.N(status), crt, clt, T.N(len(body)), T.N(digest(body))))
                self.info.append((case, method.decode(), (status, cr, cl, body[:64].hex())))
        # ---- the property, on the GET response ----
        status, hdrs, body = got[b"GET"]
        cr = hdrs.get("content-range")
        obs = (status, cr, hdrs.get("content-length"), body[:48].hex() + ("..." if len(body) > 48 else ""))
        ok = (status == want[0] and cr == want[1]
              and (want[2] is None or hdrs.get("content-length") == b"%d" % want[2])
              and (want[3] is None or body == want[3])
              and hdrs.get("accept-ranges") == b"bytes")
        multi = specs is not None and len(specs) > 1
        if not ok:
            len_set = leniency(h) if h is not None else set()
            exp = (want[0], want[1], want[2], None if want[3] is None else want[3][:48].hex())
            if specs is None and status in (206, 416) and "number" in len_set:
                self.once("range-lenient-number-accepted", "Range %s on a %d-byte file is outside RFC 7233's grammar (positions are 1*DIGIT) but int() accepted it: %d %s"
                          % (show(hb), n, status, cr), case=case, expected=exp, observed=obs)
            elif specs is None and status in (206, 416) and "blank" in len_set:
                self.once("range-lenient-blank-accepted", "Range %s on a %d-byte file is outside RFC 7233's grammar (blanks only as OWS around commas) but str.strip() removed them: %d %s"
                          % (show(hb), n, status, cr), case=case, expected=exp, observed=obs)
            elif specs is not None and status == 200 and "long-number" in len_set and body == data:
                self.once("range-long-number-ignored", "Range %s on a %d-byte file is valid but a position has more than 4300 digits, int() raised ValueError and the header was ignored"
                          % (show(hb), n), case=case, expected=exp, observed=obs)
            elif multi:
                self.once("multi-range-first-not-served", "Range %s on a %d-byte file: the response is not the one for the first range (%r)" % (show(hb), n, obs),
                          case=case, expected=exp, observed=obs)
            else:
                what = {200: "the whole file", 206: "206 with bytes %s" % (want[1],), 416: "416 with %s" % (want[1],)}[want[0]]
                k = ("range-unparseable-not-full-file" if specs is None else
                     "range-unsatisfiable-not-416" if want[0] == 416 else "range-satisfiable-wrong-response")
                ctx.oracle_fail(k, "GET with Range %s on a %d-byte %s file: RFC 7233 prescribes %s, the response is %r" % (show(hb), n, kind, what, obs),
                                case=case, expected=exp, observed=obs)
        if multi and decision is not None and decision[0] == "unsat" and any(rfc_decide(n, s)[0] == "partial" for s in specs[1:]):
            ctx.count("observation:multi-range-416-although-a-later-range-is-satisfiable")
        # ---- HEAD: same status and headers, no body ----
        if head_too:
            hs, hh, hbody = got[b"HEAD"]
            if hbody != b"":
                ctx.oracle_fail("head-has-body", "HEAD with Range %s on a %d-byte file returned %d body bytes" % (show(hb), n, len(hbody)), case=case, expected="", observed=hbody[:48].hex())
            g = {k: v for k, v in hdrs.items() if k not in ("date", "server")}
            hd = {k: v for k, v in hh.items() if k not in ("date", "server")}
            if hs != status or hd != g:
                diff = sorted(k for k in set(g) | set(hd) if g.get(k) != hd.get(k))
                if hs == status and diff == ["etag"]:
                    self.once("head-omits-etag", "HEAD on an immutable file lacks the ETag that GET sends (%r)" % (g.get("etag"),), case=case, expected=repr(g), observed=repr(hd))
                else:
                    ctx.oracle_fail("head-differs-from-get", "HEAD with Range %s on a %d-byte %s file: status %d vs %d, differing headers %s" % (show(hb), n, kind, hs, status, diff),
                                    case=case, expected=[status, repr(g)], observed=[hs, repr(hd)])

    def flush(self):
        ctx = self.ctx
        # while searching for a failing input after a broken obligation only the oracle matters
        bad = [] if ctx.search else ctx.coq_check(IMPORTS, self.terms, preamble=PREAMBLE, tag="c40")
        for ix in bad:
            case, method, obs = self.info[ix]
            ctx.mismatch("model-vs-impl:render", "Coq model of FileDownloader.render and the implementation differ: %s %s on a %d-byte %s file, implementation answered %r"
                         % (method, case["range"], case["size"], case["node"], obs), case=dict(case, method=method), observed=obs, correspondence="render-vs-model")
        ctx.trace(len(self.terms) - len(bad))
        self.terms, self.info = [], []


def run(ctx):
    ctx.correspondence("render-vs-model")
    R = Run(ctx)
    kinds = Web.KINDS
    idx = 0
    # fixed corpus: the probes of the design phase and one of each class, on a 10-byte file and on an empty one
    for n in (10, 0):
        for hb in [None, b"bytes=0-5", b"bytes=3-", b"bytes=10-", b"bytes=12-", b"bytes=-3", b"bytes=-0", b"bytes=-20", b"bytes=-5", b"bytes=0-", b"bytes=0-0",
                   b"bytes=10-12", b"bytes=5-3", b"bytes=2-3,5-6", b"bytes=+1-5", b"bytes=1_0-", b"bytes=\xd9\xa3-", b"bytes=\xff", b"Bytes=0-5", b"bytes=0-5,",
                   b"bytes= 1 - 5 ", b"bytes=--5", b"", b"BOGUS=fizbop-quarnak"]:
            for kind in kinds:
                R.case(n, kind, hb)
    r0 = ctx.rng("sample")
    ctx.sample({"size": 10, "range": "bytes=7-100", "GET": repr(R.web.request("imm", 10, b"GET", b"bytes=7-100")[:1]) + " " + repr(R.web.request("imm", 10, b"GET", b"bytes=7-100")[1].get("content-range"))})
    ctx.sample({"size": 0, "range": "bytes=-5", "HEAD": repr(R.web.request("lit", 0, b"HEAD", b"bytes=-5")[1].get("content-range"))})
    full = ctx.tier == "thorough" or ctx.search
    for n in range(0, 301):
        r = ctx.rng("size", n)
        B = boundary_headers(n)
        M = misc_headers(n)
        if full:
            # every boundary header for every size; the (size-independent) miscellaneous ones on a tenth of the sizes
            chosen = B + (M if (n < 12 or n % 10 == 0) else [M[(n * 4 + j * 17) % len(M)] for j in range(4)])
        else:
            chosen = r.sample(B, 6) + [M[(n * 3 + j * 17) % len(M)] for j in range(3)]
        for hb in [None] + chosen:
            kind = kinds[idx % 3]
            idx += 1
            R.case(n, kind, hb, head_too=(idx % 3 == 0) if full else (idx % 2 == 0))
        if len(R.terms) > 6000:
            R.flush()
    # larger files: HEAD and short ranges around the end (bodies stay small), whole-file GET judged by the oracle only
    for j, n in enumerate([1000, 4096, 65537, 100003] if full else [1000, 65537]):
        r = ctx.rng("large", n)
        for hb in [b"bytes=%d-%d" % (n - 3, n + 5), b"bytes=%d-" % (n - 1), b"bytes=%d-" % n, b"bytes=-2", b"bytes=-%d" % (n + 1), b"bytes=0-0", b"bytes=%d-%d" % (n, n),
                   b"bytes=%d-%d" % (r.randrange(n), n - 1 - r.randrange(3)), None, b"garbage"]:
            R.case(n, kinds[(j + len(hb or b"")) % 3], hb, model=(n <= 5000))
    for hb in (LONG_NUMBERS if full else LONG_NUMBERS[:2]):
        for n in ((0, 10) if full else (10,)):
            R.case(n, "imm", hb, head_too=False)
    R.flush()
    for k, v in sorted(R.reported.items()):
        ctx.note("%s: %d cases" % (k, v))


def replay(ctx, rec):
    case = rec.get("case") or {}
    if "size" not in case:
        return {"note": "no single case recorded"}
    hb = None if case.get("range_hex") is None else bytes.fromhex(case["range_hex"])
    R = Run(ctx)
    R.case(case["size"], case.get("node", "imm"), hb)
    out = {}
    for m in (b"GET", b"HEAD"):
        s, h, b = R.web.request(case.get("node", "imm"), case["size"], m, hb)
        out[m.decode()] = {"status": s, "content-range": repr(h.get("content-range")), "content-length": repr(h.get("content-length")), "body": b[:64].hex()}
    try:
        specs = rfc_specs(hb)
    except Exception:
        specs = None
    out["rfc7233"] = {"ranges": specs, "decision": rfc_decide(case["size"], specs[0]) if specs else "ignore the header: whole file"}
    if hb is not None:
        try:
            h = hb.decode("utf-8")
            out["model"] = ctx.coq_eval(IMPORTS, "let r := render GET (mkdata %d) (Some %s) in (status r, content_range r, content_length r)" % (case["size"], cps(h)), preamble=PREAMBLE)[-400:]
        except UnicodeDecodeError:
            out["model"] = "header is not UTF-8: treated as absent"
    return out
