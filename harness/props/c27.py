"""C27  Share crawler covers every bucket each cycle.

Implementation under test: the real allmydata.storage.crawler.ShareCrawler (a subclass that only
records the hook calls) walking the share directory of a real StorageServer whose buckets were
created through allocate_buckets.  `time` in allmydata.storage.crawler is substituted by a scripted
clock (module attribute, from here): every "time slice used up?" test after a bucket / after a
prefix directory is answered from the case's tick list.  Slices are started by calling
start_slice() directly (as src/allmydata/test/test_crawler.py does with start_current_prefix),
never through the reactor timer.  A kill raises out of a hook after k events of the slice (the
state in memory is abandoned) and a new crawler object is created from the state file.
Histories in which buckets are added/removed between the cycles of one crawler object, and damaged stores
(zero-length / cut / bad-magic share files in the first, a middle and the last bucket) crawled by the real
LeaseCheckingCrawler (recording subclass installed through StorageServer.LeaseCheckerClass) are run as well.
Model: coq/Model/Crawler.v (`run`, `run_epochs`) and coq/Model/Expirer.v (`process_bucket` with unreadable
shares), evaluated by vm_compute on the same layout, ticks and kills.
Oracle: the property statement evaluated on the recorded log (independent of the model)."""
import json
import os
import struct

from core import env
from core import term as T

ID = "C27"
GEN = ["crawlconsts"]
RULE = ("cases: one case = one bucket layout (0..6 buckets spread over up to 4 prefix directories, first/adjacent/middle/last "
        "of the 1024) x one schedule: a list of slices, each with the answers to the `time is up` test (after each bucket "
        "and each prefix directory) and optionally a kill point (number of hook/save events after which the process dies); "
        "thorough: every set of at most 2 interruption points among the interesting ones (every bucket, every used prefix and "
        "its neighbours, first and last prefix) for every layout of at most 4 buckets (all distributions of 0..6 buckets over "
        "3 prefix directories and more; 24 sampled pairs beyond 4 buckets), every subset for layouts of at most 2 buckets, and kills around every non-routine event of "
        "every slice of the singly interrupted schedules (all of them up to 2 buckets, 3 per slice beyond); quick: a seeded "
        "sample of the same; "
        "crashes INSIDE save_state (process death or ENOSPC after 0 / half / all bytes of the state write) after completed "
        "cycles, at the cycle-ending and at an interrupted slice's save; histories with buckets added/removed between cycles; "
        "damaged stores under the real lease checker; distinct = distinct (layout shape, schedule); non-trivial = a run that finishes at least one cycle after an "
        "interruption or a kill")
META = {
    "title": "Share crawler covers every bucket each cycle",
    "level_text": ("Theorems in Coq over an executable model of ShareCrawler's slice loop, save_state/load_state and process "
                   "kills: for ALL bucket layouts satisfying the stated directory-layout hypothesis, ALL interruption patterns and "
                   "ALL kill points, every bucket has been processed in cycle c before finished_cycle(c); without kills each "
                   "bucket is processed exactly once per finished cycle and only existing buckets are processed; cycle numbers "
                   "start at 0 and never skip.  The model is run against the real ShareCrawler with a scripted clock and kills, "
                   "and the property is evaluated directly on the recorded calls."),
    "level_note": ("Buckets exist throughout the run (fixed set).  Hypothesis (stated in wf_dirs, shown necessary by "
                   "cycle_covers_all_needs_layout): every bucket name begins with the name of its prefix directory, which is what "
                   "storage_index_to_dir produces.  The reactor timer, sleep-time arithmetic and progress estimates are not "
                   "modelled.  File-system hypothesis (Model/Crawler.v torn_save): a crash inside save_state leaves the "
                   "previous or the new state (temporary file + atomic rename); the driver kills the process / fills the disk after "
                   "0, half and all bytes of the state write and checks exactly that on the real code."),
    "technique": "Coq proof (invariants over runs of an executable model, any schedule and kill points) + differential run vs the real crawler with scripted time + direct oracle",
    "design_ref": "8/C27, A.6",
    "trusted_base": ["hand-written model coq/Model/Crawler.v, tied to crawler.py by AST fingerprints and the correspondence run",
                     "translator harness/translate/crawlconsts.py (prefix table recomputed from the source text)",
                     "the scripted clock and kill injection in harness/props/c27.py"],
    "assumptions": ["the set of bucket directories does not change during the run",
                    "bucket directory names begin with the name of their prefix directory and are unique within it"],
}

IMPORTS = ["Lib.Hex", "Model.Crawler"]
IMPORTS_EXP = ["Lib.Hex", "Model.Crawler", "Model.Expirer"]


class Killed(BaseException):
    """The process dies here (BaseException: nothing in the crawler may catch it)."""


class ScriptedTime(object):
    """Stands in for the `time` module inside allmydata.storage.crawler."""

    def __init__(self):
        self.now = 1000000
        self.ticks = []
        self.pending_check = False
        self.checks = 0

    def time(self):
        if self.pending_check:
            self.pending_check = False
            self.checks += 1
            up = self.ticks.pop(0) if self.ticks else False
            if up:
                self.now += 10
        return self.now


class DiskFull(OSError):
    pass


class _DyingFile(object):
    """A file the process does not finish writing: `mode` = "0" (nothing), "half", "all" (everything
    written, the process dies before anything else happens); "enospc-..." raises ENOSPC instead of dying."""

    def __init__(self, f, mode):
        self.f = f
        self.mode = mode

    def __enter__(self):
        return self

    def __exit__(self, *exc):
        self.f.close()
        return False

    def write(self, data):
        what = self.mode.split("-")[-1]
        if what == "half":
            self.f.write(data[:len(data) // 2])
        elif what == "all":
            self.f.write(data)
        self.f.flush()
        if self.mode.startswith("enospc"):
            import errno
            raise DiskFull(errno.ENOSPC, "No space left on device")
        raise Killed()

    def close(self):
        self.f.close()


class DyingWrites(object):
    """While active, the next file of the state file's family (the file itself or its .tmp sibling)
    opened for writing through twisted's FilePath.open dies during its first write."""

    def __init__(self, basename, mode):
        self.basename = basename.rsplit(".json", 1)[0]
        self.mode = mode

    def __enter__(self):
        from twisted.python.filepath import FilePath
        self.FilePath = FilePath
        self.orig = FilePath.open
        me = self

        def patched(fp, mode="r"):
            f = me.orig(fp, mode)
            name = os.path.basename(fp.path)
            if isinstance(name, bytes):
                name = name.decode("ascii", "replace")
            if "w" in mode and name.startswith(me.basename):
                return _DyingFile(f, me.mode)
            return f
        FilePath.open = patched
        return self

    def __exit__(self, *a):
        self.FilePath.open = self.orig


def make_recorder():
    from allmydata.storage.crawler import ShareCrawler

    class Recorder(ShareCrawler):
        cpu_slice = 1.0

        def __init__(self, server, statefile, clock, log):
            self._clock = clock
            self._log = log
            self.kill_after = None
            self.slice_events = 0
            ShareCrawler.__init__(self, server, statefile)
            self._index = {p: i for i, p in enumerate(self.prefixes)}

        def _event(self, ev):
            self._log.append(ev)
            self.slice_events += 1
            if self.kill_after is not None and self.slice_events >= self.kill_after:
                raise Killed()

        def started_cycle(self, cycle):
            self._event(("start", cycle))

        def process_bucket(self, cycle, prefix, prefixdir, storage_index_b32):
            self._clock.pending_check = True
            self._event(("proc", cycle, self._index[prefix], storage_index_b32))

        def finished_prefix(self, cycle, prefix):
            self._clock.pending_check = True
            self._event(("pdone", cycle, self._index[prefix]))

        def finished_cycle(self, cycle):
            self._event(("fin", cycle))

        def intended_state(self):
            """What save_state is about to write (the crawler's own keys), canonical."""
            st = self.state
            return (st["last-cycle-finished"], st["current-cycle"], self.last_complete_prefix_index + 1, st["last-complete-bucket"])

        def save_state(self):
            self.saves_in_slice = getattr(self, "saves_in_slice", 0) + 1
            crash = getattr(self, "crash_in_save", None)
            if crash is not None and crash[0] == self.saves_in_slice:
                # the process dies (or the disk is full) inside this save_state call, after `mode` of the
                # bytes of the next write to a file of the state file's family
                self.crashed_after_events = self.slice_events
                self.crash_intended = self.intended_state()
                with DyingWrites(os.path.basename(self._state_serializer._path.path), crash[1]):
                    ShareCrawler.save_state(self)
                raise AssertionError("save_state returned although a crash was injected")
            ShareCrawler.save_state(self)
            self._event(("save",) + read_state(self._state_serializer._path.path, self.prefixes))

    return Recorder


def read_state_safe(path, prefixes):
    """read_state, or ("unreadable state file",) when the file does not parse."""
    try:
        return read_state(path, prefixes)
    except Exception:
        return ("unreadable state file",)


def read_state(path, prefixes):
    """The crawler's own keys of the saved state file, canonical."""
    with open(path, "rb") as f:
        st = json.load(f)
    lcp = st["last-complete-prefix"]
    return (st["last-cycle-finished"], st["current-cycle"], 0 if lcp is None else prefixes.index(lcp) + 1,
            st["last-complete-bucket"])


class Layout(object):
    """A real storage directory with buckets in chosen prefix directories."""

    def __init__(self, tag, counts, rng):
        # counts: {prefix index: number of buckets}
        from allmydata.storage.server import StorageServer
        from allmydata.storage.common import si_b2a
        self.base = os.path.join(env.subdir("c27"), tag)
        self.ss = StorageServer(self.base, b"\x27" * 20)
        self.prefixes = list(self.ss.lease_checker.prefixes)
        val_of = {}
        for v in range(1024):
            val_of[si_b2a(struct.pack(">H", v << 6))[:2].decode("ascii")] = v
        self._val_of = val_of
        self.counts = dict(counts)
        self.buckets = {}    # prefix index -> [names]
        n = 0
        for idx in sorted(counts):
            names = []
            v = val_of[self.prefixes[idx]]
            seen = set()
            while len(names) < counts[idx]:
                rest = bytes(rng.getrandbits(8) for _ in range(14))
                low6 = rng.getrandbits(6)
                si = bytes([v >> 2, ((v & 3) << 6) | low6]) + rest
                if si in seen:
                    continue
                seen.add(si)
                n += 1
                _, writers = self.ss.allocate_buckets(si, b"r" * 32, b"c" * 32, {0}, 3)
                writers[0].write(0, b"abc")
                writers[0].close()
                names.append(si_b2a(si).decode("ascii"))
            self.buckets[idx] = names
        self.n = n
        self.runs = 0

    def add_bucket(self, idx, rng):
        """A new bucket directory in prefix idx, made through the server."""
        from allmydata.storage.common import si_b2a
        v = self._val_of[self.prefixes[idx]]
        while True:
            si = bytes([v >> 2, ((v & 3) << 6) | rng.getrandbits(6)]) + bytes(rng.getrandbits(8) for _ in range(14))
            name = si_b2a(si).decode("ascii")
            if name not in self.buckets.get(idx, []):
                break
        _, writers = self.ss.allocate_buckets(si, b"r" * 32, b"c" * 32, {0}, 3)
        writers[0].write(0, b"abc")
        writers[0].close()
        self.buckets.setdefault(idx, []).append(name)
        self.n += 1
        return name

    def remove_bucket(self, idx, name):
        import shutil
        shutil.rmtree(os.path.join(self.ss.sharedir, self.prefixes[idx], name))
        self.buckets[idx].remove(name)
        self.n -= 1

    def listing(self, idx):
        try:
            return os.listdir(os.path.join(self.ss.sharedir, self.prefixes[idx]))
        except EnvironmentError:
            return []

    def checkpoints(self):
        """Ordinals (within an undisturbed cycle) of the `time is up` tests, with labels."""
        out = []
        for idx in range(len(self.prefixes)):
            for b in sorted(self.buckets.get(idx, [])):
                out.append(("bucket", idx, b))
            out.append(("prefix", idx))
        return out

    def interesting(self):
        """Ordinals of the interesting tests: every bucket, used prefixes and neighbours, first, last."""
        cps = self.checkpoints()
        used = set(i for i in self.buckets if self.buckets[i])
        want = set([0, 1, len(self.prefixes) - 1, len(self.prefixes) - 2])
        for i in used:
            want.update([i - 1, i, i + 1])
        out = []
        for k, cp in enumerate(cps):
            if cp[0] == "bucket" or (cp[0] == "prefix" and cp[1] in want):
                out.append(k)
        return out

    def watch(self):
        used = set(i for i in self.buckets if self.buckets[i])
        w = set([0, len(self.prefixes) - 1])
        for i in used:
            w.update([i - 1, i, i + 1])
        return sorted(i for i in w if 0 <= i < len(self.prefixes))


def schedule_from_points(points, cycles_extra=1):
    """Per-slice tick lists interrupting an undisturbed cycle at the given test ordinals, followed by
    slices that run to the end."""
    specs = []
    prev = -1
    for p in sorted(points):
        specs.append(([False] * (p - prev - 1) + [True], None))
        prev = p
    for _ in range(1 + cycles_extra):
        specs.append(([], None))
    return specs


def run_impl_ex(layout, specs):
    """Run the real crawler.  A kill is None, a number of events, or ["save", j, mode]: the process dies (or
    the disk fills) inside the j-th save_state call of the slice.  Returns (per-slice event lists, final saved
    state or None, the schedule in the model's terms, [(state on disk before, state being written, state the
    restarted crawler loaded)] for the crashes inside save_state)."""
    from allmydata.storage import crawler as crawler_mod
    Recorder = make_recorder()
    layout.runs += 1
    statefile = os.path.join(layout.base, "c27-state-%d" % layout.runs)
    clock = ScriptedTime()
    saved_time = crawler_mod.time
    crawler_mod.time = clock
    slices = []
    model_specs = []
    restarts = []
    try:
        log = []
        c = Recorder(layout.ss, statefile, clock, log)
        for ticks, kill in specs:
            del log[:]
            clock.ticks = list(ticks)
            clock.pending_check = False
            c.slice_events = 0
            c.saves_in_slice = 0
            in_save = isinstance(kill, (list, tuple))
            c.kill_after = None if in_save else kill
            c.crash_in_save = (kill[1], kill[2]) if in_save else None
            c.crashed_after_events = None
            on_disk = read_state_safe(statefile + ".json", c.prefixes) if os.path.exists(statefile + ".json") else (None, None, 0, None)
            mkill = kill
            if kill == 0:
                killed = True
            else:
                try:
                    c.start_slice()
                    killed = kill is not None    # completed although a kill was scheduled: dies between slices
                    if in_save:
                        mkill = len(log) + 5     # fewer than j saves in this slice: dies between slices
                except (Killed, DiskFull):
                    killed = True
                    if in_save:
                        mkill = c.crashed_after_events
            slices.append(list(log))
            model_specs.append((ticks, mkill))
            if killed:
                old = c
                c = Recorder(layout.ss, statefile, clock, log)
                if in_save and old.crashed_after_events is not None:
                    before = on_disk
                    for ev in slices[-1]:
                        if ev[0] == "save":
                            before = tuple(ev[1:])
                    restarts.append((before, old.crash_intended, c.intended_state()))
        final = read_state_safe(statefile + ".json", c.prefixes) if os.path.exists(statefile + ".json") else None
        if final is not None and len(final) != 4:
            restarts.append((on_disk, c.intended_state(), final))
            final = None
    finally:
        crawler_mod.time = saved_time
    for ext in (".json", ".tmp"):
        try:
            os.unlink(statefile + ext)
        except OSError:
            pass
    return slices, final, model_specs, restarts


def run_impl(layout, specs):
    return run_impl_ex(layout, specs)[:2]


def run_impl_epochs(layout, epochs, rng):
    """Several epochs on the SAME crawler object (unless a kill replaces it): before each epoch the
    bucket set is changed (ops: ("add", prefix index) / ("remove", prefix index, position)), then the
    epoch's slices run.  Returns ([(listing per used prefix, bucket set, specs, per-slice events)], final)."""
    from allmydata.storage import crawler as crawler_mod
    Recorder = make_recorder()
    layout.runs += 1
    statefile = os.path.join(layout.base, "c27-state-%d" % layout.runs)
    clock = ScriptedTime()
    saved_time = crawler_mod.time
    crawler_mod.time = clock
    out = []
    try:
        log = []
        c = Recorder(layout.ss, statefile, clock, log)
        for ops, specs in epochs:
            for op in ops:
                if op[0] == "add":
                    layout.add_bucket(op[1], rng)
                elif layout.buckets.get(op[1]):
                    names = sorted(layout.buckets[op[1]])
                    layout.remove_bucket(op[1], names[op[2] % len(names)])
            listing = {i: layout.listing(i) for i in sorted(layout.buckets) if layout.buckets[i]}
            present = set((i, b) for i in layout.buckets for b in layout.buckets[i])
            slices = []
            for ticks, kill in specs:
                del log[:]
                clock.ticks = list(ticks)
                clock.pending_check = False
                c.slice_events = 0
                c.kill_after = kill
                if kill == 0:
                    killed = True
                else:
                    try:
                        c.start_slice()
                        killed = kill is not None
                    except Killed:
                        killed = True
                slices.append(list(log))
                if killed:
                    c = Recorder(layout.ss, statefile, clock, log)
            out.append((listing, present, specs, slices))
        final = read_state(statefile + ".json", c.prefixes) if os.path.exists(statefile + ".json") else None
    finally:
        crawler_mod.time = saved_time
    for ext in (".json", ".tmp"):
        try:
            os.unlink(statefile + ext)
        except OSError:
            pass
    return out, final


def oracle_epochs(ctx, result, case):
    """The property on a history whose bucket set changes between cycles: a cycle processes every
    bucket present during it, only those, and without kills each exactly once."""
    finished = []
    anykill = False
    for e, (listing, present, specs, slices) in enumerate(result):
        nokill = all(k is None for _, k in specs)
        anykill = anykill or not nokill
        seen = {}
        for ev in (ev for sl in slices for ev in sl):
            if ev[0] == "proc":
                key = (ev[1], ev[2], ev[3])
                seen[key] = seen.get(key, 0) + 1
                if (ev[2], ev[3]) not in present:
                    ctx.oracle_fail("crawler-processes-nonexistent-bucket",
                                    "epoch %d: process_bucket called for %r, which is not (or no longer) a bucket of prefix %d" % (e, ev[3], ev[2]),
                                    case=case, observed=list(ev))
                if nokill and seen[key] > 1:
                    ctx.oracle_fail("crawler-bucket-processed-twice-without-kill",
                                    "epoch %d: bucket %s processed %d times in cycle %d although the process was never killed" % (e, ev[3], seen[key], ev[1]),
                                    case=case, expected=1, observed=seen[key])
            elif ev[0] == "fin":
                c = ev[1]
                missing = sorted(b for (i, b) in present if (c, i, b) not in seen)
                if missing:
                    ctx.oracle_fail("crawler-cycle-finished-with-unprocessed-bucket",
                                    "epoch %d: finished_cycle(%d) was called but %d of the %d buckets present since before the cycle began were never "
                                    "processed in it: %s" % (e, c, len(missing), len(present), missing[:3]),
                                    case=case, expected=sorted(b for _, b in present), observed=sorted(k[2] for k in seen if k[0] == c))
                ok = (c == 0) if not finished else (c in (finished[-1], finished[-1] + 1) and (anykill or c == finished[-1] + 1))
                if not ok:
                    ctx.oracle_fail("crawler-cycle-number-sequence", "finished_cycle numbers %r are followed by %d" % (finished, c),
                                    case=case, expected=(finished[-1] + 1) if finished else 0, observed=c)
                finished.append(c)
    return finished


def epochs_term(layout, result, final):
    watch = layout.watch()
    eps = []
    for listing, present, specs, slices in result:
        assoc = T.lst(["(%s, %s)" % (T.nat(i), T.lst([t_name(b) for b in listing[i]])) for i in sorted(listing)])
        sp = T.lst(["(mk_slice %s %s)" % (t_ticks(ticks), T.opt(None if kill is None else T.nat(kill))) for ticks, kill in specs])
        eps.append("(%s, %s)" % (assoc, sp))
    obs = [ev for _, _, _, slices in result for sl in slices for ev in sl if ev[0] != "pdone" or ev[2] in watch]
    fin = final if final is not None else (None, None, 0, None)
    return "epochs_agree %s %s %s %s %s" % (T.nat(len(layout.prefixes)), T.lst(eps), T.lst([T.N(i) for i in watch]),
                                            T.lst([t_event(e) for e in obs]), t_pstate(fin))


# ---- rendering ---------------------------------------------------------------
def t_name(s):
    return T.bytes_(s.encode("ascii"))


def t_pstate(st):
    lcf, cur, nxt, lcb = st
    return "(mk_pstate %s %s %s %s)" % (T.opt(None if lcf is None else T.N(lcf)), T.opt(None if cur is None else T.N(cur)),
                                        T.nat(nxt), T.opt(None if lcb is None else t_name(lcb)))


def t_event(ev):
    k = ev[0]
    if k == "start":
        return "(EStarted %s)" % T.N(ev[1])
    if k == "proc":
        return "(EProc %s %s %s)" % (T.N(ev[1]), T.nat(ev[2]), t_name(ev[3]))
    if k == "pdone":
        return "(EPrefixDone %s %s)" % (T.N(ev[1]), T.nat(ev[2]))
    if k == "fin":
        return "(EFinished %s)" % T.N(ev[1])
    return "(ESave %s)" % t_pstate(ev[1:])


def t_ticks(ticks):
    """Run-length rendering: long literal lists are slow to parse."""
    if len(ticks) <= 8:
        return T.lst([T.boolean(b) for b in ticks])
    runs = []
    for b in ticks:
        if runs and runs[-1][0] == b:
            runs[-1][1] += 1
        else:
            runs.append([b, 1])
    return "(" + " ++ ".join("repeat %s %s" % (T.boolean(b), T.nat(n)) for b, n in runs) + ")"


def model_term(layout, specs, slices, final):
    watch = layout.watch()
    assoc = T.lst(["(%s, %s)" % (T.nat(i), T.lst([t_name(b) for b in layout.listing(i)]))
                   for i in sorted(layout.buckets) if layout.buckets[i]])
    sp = T.lst(["(mk_slice %s %s)" % (t_ticks(ticks), T.opt(None if kill is None else T.nat(kill)))
                for ticks, kill in specs])
    obs = [ev for sl in slices for ev in sl if ev[0] != "pdone" or ev[2] in watch]
    fin = final if final is not None else (None, None, 0, None)
    return "run_agrees %s %s %s %s %s %s" % (T.nat(len(layout.prefixes)), assoc, sp, T.lst([T.N(i) for i in watch]),
                                             T.lst([t_event(e) for e in obs]), t_pstate(fin))


# ---- the property, evaluated on the log ---------------------------------------
def oracle(ctx, layout, specs, slices, final, case):
    log = [ev for sl in slices for ev in sl]
    allb = set((i, b) for i in layout.buckets for b in layout.buckets[i])
    nokill = all(k is None for _, k in specs)
    seen = {}
    finished = []
    for ev in log:
        if ev[0] == "proc":
            key = (ev[1], ev[2], ev[3])
            seen[key] = seen.get(key, 0) + 1
            if (ev[2], ev[3]) not in allb:
                ctx.oracle_fail("crawler-processes-nonexistent-bucket", "process_bucket called for %r which is not a bucket of prefix %d" % (ev[3], ev[2]),
                                case=case, observed=list(ev))
            if nokill and seen[key] > 1:
                ctx.oracle_fail("crawler-bucket-processed-twice-without-kill",
                                "bucket %s processed %d times in cycle %d although the process was never killed" % (ev[3], seen[key], ev[1]),
                                case=case, expected=1, observed=seen[key])
        elif ev[0] == "fin":
            c = ev[1]
            missing = sorted(b for (i, b) in allb if (c, i, b) not in seen)
            if missing:
                ctx.oracle_fail("crawler-cycle-finished-with-unprocessed-bucket",
                                "finished_cycle(%d) was called but %d of %d buckets were never processed in that cycle: %s" % (c, len(missing), len(allb), missing[:3]),
                                case=case, expected=sorted(b for _, b in allb), observed=sorted(k[2] for k in seen if k[0] == c))
            if finished:
                ok = c in (finished[-1], finished[-1] + 1) and (not nokill or c == finished[-1] + 1)
            else:
                ok = c == 0
            if not ok:
                ctx.oracle_fail("crawler-cycle-number-sequence", "finished_cycle numbers %r are followed by %d" % (finished, c),
                                case=case, expected=(finished[-1] + 1) if finished else 0, observed=c)
            finished.append(c)
    # saved completed-cycle counts grow by at most one per save
    prev = 0
    for ev in log:
        if ev[0] == "save":
            cnt = 0 if ev[1] is None else ev[1] + 1
            if cnt not in (prev, prev + 1):
                ctx.oracle_fail("crawler-saved-cycle-count-jumps", "saved last-cycle-finished goes from count %d to %d" % (prev, cnt),
                                case=case, expected=[prev, prev + 1], observed=cnt)
            prev = cnt
    if nokill and finished != list(range(len(finished))):
        ctx.oracle_fail("crawler-cycle-number-sequence", "without kills finished cycles are %r" % finished, case=case,
                        expected=list(range(len(finished))), observed=finished)
    return finished


def judge_restarts(ctx, restarts, case):
    """A crash inside save_state leaves the previous or the new state on disk, never anything else."""
    for before, intended, loaded in restarts:
        if loaded not in (before, intended):
            ctx.oracle_fail("crawler-state-lost-by-crash-in-save-state",
                            "the process died inside save_state; the state file held %r, %r was being written, the restarted crawler "
                            "starts from %r" % (before, intended, loaded), case=case, expected=[list(before), list(intended)], observed=list(loaded))


SAVE_CRASH_MODES = ["0", "half", "all", "enospc-0", "enospc-half"]


def save_crash_schedules(layout, thorough, rng):
    """Schedules with a crash inside save_state after at least one completed cycle."""
    pts = layout.interesting()
    out = []
    modes = SAVE_CRASH_MODES if thorough else [rng.choice(SAVE_CRASH_MODES[:2]), rng.choice(SAVE_CRASH_MODES)]
    for mode in modes:
        full = ([], None)
        # inside the save that ends a cycle (first or second save_state of the finishing slice)
        for j in ((1, 2) if thorough else (rng.choice([1, 2]),)):
            out.append([full, full, ([], ["save", j, mode]), full, full])
        # inside the save of an interrupted slice of the third cycle
        p = rng.choice(pts) if pts else 0
        out.append([full, full, ([False] * p + [True], ["save", 1, mode]), full, full])
        if thorough:
            out.append([full, ([], ["save", 2, mode]), ([], ["save", 1, mode]), full])
    return out


def case_record(layout, specs):
    return {"layout": {str(i): layout.counts[i] for i in sorted(layout.counts)},
            "buckets": {str(i): layout.buckets[i] for i in sorted(layout.buckets)},
            "specs": [[[int(b) for b in ticks], kill] for ticks, kill in specs]}


def compress(specs):
    """Canonical short form of a schedule for the distinct-case key."""
    return tuple((sum(1 for b in t if not b), sum(1 for b in t if b), tuple(k) if isinstance(k, list) else k) for t, k in specs)


class Batch(object):
    def __init__(self, ctx):
        self.ctx = ctx
        self.terms = []
        self.info = []

    def add(self, layout, specs, kind):
        ctx = self.ctx
        slices, final, model_specs, restarts = run_impl_ex(layout, specs)
        case = case_record(layout, specs)
        finished = oracle(ctx, layout, specs, slices, final, case)
        judge_restarts(ctx, restarts, case)
        disturbed = len(specs) > 2 or any(k is not None for _, k in specs)
        key = (tuple(sorted(layout.counts.items())), compress(specs))
        ctx.case(key if (finished and disturbed) else None, kind=kind)
        self.terms.append(model_term(layout, model_specs, slices, final))
        obs = [list(ev) for sl in slices for ev in sl if ev[0] != "pdone"]
        self.info.append((case, obs, final))
        if len(ctx.samples) < 4 and disturbed and layout.n >= 2:
            ctx.sample({"case": case, "log_without_finished_prefix": obs[:40], "final_state": final})
        return slices, final

    def add_epochs(self, layout, epochs, rng, kind, recipe):
        ctx = self.ctx
        result, final = run_impl_epochs(layout, epochs, rng)
        case = {"epochs_recipe": recipe,
                "epochs": [{"buckets": sorted([i, b] for i, b in present), "specs": [[[int(x) for x in t], k] for t, k in specs]}
                           for _, present, specs, _ in result]}
        finished = oracle_epochs(ctx, result, case)
        key = ("epochs", tuple((tuple(sorted(len(v) for v in listing.values())), compress(specs)) for listing, _, specs, _ in result),
               tuple(sorted(listing)) if (listing := result[0][0]) is not None else ())
        ctx.case(key if len(finished) >= 2 else None, kind=kind)
        self.terms.append(epochs_term(layout, result, final))
        obs = [list(ev) for _, _, _, slices in result for sl in slices for ev in sl if ev[0] != "pdone"]
        self.info.append((case, obs, final))
        return result, final

    def flush(self, tag):
        """Hand the collected terms to Coq in the background (the crawler runs go on meanwhile)."""
        if not self.terms:
            return
        import concurrent.futures
        if not hasattr(self, "pool"):
            self.pool = concurrent.futures.ThreadPoolExecutor(max_workers=2)
            self.pending = []
        terms, info = self.terms, self.info
        self.terms, self.info = [], []
        self.pending.append((self.pool.submit(self.ctx.coq_check, IMPORTS, terms, "", "%s%d" % (tag, len(self.pending)), 48), info))

    def finish(self):
        ctx = self.ctx
        for fut, info in getattr(self, "pending", []):
            bad = fut.result()
            for ix in bad:
                case, obs, final = info[ix]
                ctx.mismatch("crawler-model-vs-impl", "Model/Crawler.v `run` and the real ShareCrawler produce different logs or final states",
                             case=case, observed={"log": obs, "final": final}, correspondence="crawler-run-vs-model")
            ctx.trace(len(info) - len(bad))
        if hasattr(self, "pool"):
            self.pool.shutdown()


PREFIX_SETS = [[0, 1, 500, 1023], [0, 1022, 1023], [3, 4, 5, 700], [511, 512], [0], [1023], [17, 900, 901, 902]]


def compositions(n, k):
    """All ways to put n buckets into k prefixes."""
    if k == 1:
        yield (n,)
        return
    for a in range(n + 1):
        for rest in compositions(n - a, k - 1):
            yield (a,) + rest


def interesting_kills(slice_events, watch):
    """Kill points of a slice: around every non-routine event."""
    pts = set([0, 1, len(slice_events), len(slice_events) + 1])
    for j, ev in enumerate(slice_events):
        if ev[0] != "pdone" or ev[2] in watch:
            pts.update([j, j + 1])
    return sorted(p for p in pts if 0 <= p <= len(slice_events) + 1)


BASE32 = "abcdefghijklmnopqrstuvwxyz234567"
SPEC_PREFIXES = sorted(BASE32[v >> 5] + BASE32[v & 31] for v in range(1024))


def boundary_prefixes(ctx):
    """Run in every check, first: the real crawler's prefix table against the specification (the sorted
    two-character base32 prefixes of all 1024 ten-bit values), and a real ShareCrawler over buckets in the
    boundary prefix directories, 2 cycles with interruptions: every bucket exactly once per cycle."""
    import struct as _struct
    from allmydata.storage import crawler as crawler_mod
    from allmydata.storage.common import si_b2a
    from allmydata.storage.server import StorageServer
    base = os.path.join(env.subdir("c27"), "boundary")
    ss = StorageServer(base, b"\x27" * 20)
    Recorder = make_recorder()
    clock = ScriptedTime()
    saved_time = crawler_mod.time
    crawler_mod.time = clock
    try:
        log = []
        c = Recorder(ss, os.path.join(base, "boundary-state"), clock, log)
        real = list(c.prefixes)
        ctx.case(("prefix-table",), kind="prefix-table-vs-specification")
        if real != SPEC_PREFIXES:
            missing = sorted(set(SPEC_PREFIXES) - set(real))
            extra = sorted(set(real) - set(SPEC_PREFIXES))
            ctx.oracle_fail("crawler-prefix-table-differs-from-specification",
                            "ShareCrawler.prefixes has %d entries; missing prefix directories %s, unexpected %s%s" % (
                                len(real), missing[:5], extra[:5], "" if set(real) == set(SPEC_PREFIXES) else ""),
                            case={"prefix_table": "ShareCrawler(...).prefixes"}, expected={"count": 1024, "first": SPEC_PREFIXES[:2], "last": SPEC_PREFIXES[-2:]},
                            observed={"count": len(real), "missing": missing[:8], "unexpected": extra[:8], "sorted": real == sorted(real)})
        # buckets in the boundary prefix directories, chosen by their ten leading bits
        i77 = SPEC_PREFIXES.index("77")
        wanted = ["aa", "77", "76", SPEC_PREFIXES[0], SPEC_PREFIXES[1], SPEC_PREFIXES[-1], SPEC_PREFIXES[-2],
                  SPEC_PREFIXES[i77 - 1], SPEC_PREFIXES[(i77 + 1) % 1024], "ab", "7a"]
        buckets = {}
        for k, pfx in enumerate(dict.fromkeys(wanted)):
            v = (BASE32.index(pfx[0]) << 5) | BASE32.index(pfx[1])
            for low in ((0, 63) if pfx in ("77", "aa") else (k % 64,)):
                si = _struct.pack(">H", (v << 6) | low) + b"%014d" % (k * 100 + low)
                _, w = ss.allocate_buckets(si, b"r" * 32, b"c" * 32, {0}, 3)
                w[0].write(0, b"abc")
                w[0].close()
                name = si_b2a(si).decode("ascii")
                assert name[:2] == pfx, (name, pfx)
                buckets[name] = pfx
        processed = {}
        finished = []
        schedule = [[True], [False, False, True], [False] * 700 + [True], [], [False, True], [False] * 1030 + [True], [], []]
        for ticks in schedule:
            del log[:]
            clock.ticks = list(ticks)
            clock.pending_check = False
            c.slice_events = 0
            c.kill_after = None
            c.start_slice()
            for ev in log:
                if ev[0] == "proc":
                    processed[(ev[1], ev[3])] = processed.get((ev[1], ev[3]), 0) + 1
                elif ev[0] == "fin":
                    finished.append(ev[1])
        for cyc in finished[:2]:
            for name in sorted(buckets):
                n = processed.get((cyc, name), 0)
                ctx.case(("boundary", buckets[name], cyc), kind="boundary-prefix-bucket")
                if n != 1:
                    ctx.oracle_fail("crawler-bucket-never-processed" if n == 0 else "crawler-bucket-processed-twice-without-kill",
                                    "bucket %s in prefix directory %r (storage index bits %s) was processed %d times in cycle %d of an uninterrupted-by-kill crawl" % (
                                        name, buckets[name], format((BASE32.index(buckets[name][0]) << 5) | BASE32.index(buckets[name][1]), "010b"), n, cyc),
                                    case={"boundary_prefix": buckets[name], "bucket": name, "cycle": cyc, "schedule": [len(t) for t in schedule]},
                                    expected=1, observed=n)
        if len(finished) < 2:
            ctx.oracle_fail("crawler-cycle-never-finishes", "only cycles %r finished in %d slices over the boundary buckets" % (finished, len(schedule)),
                            case={"boundary_prefix": "all"}, expected=[0, 1], observed=finished)
    finally:
        crawler_mod.time = saved_time
        import shutil
        shutil.rmtree(base, ignore_errors=True)


def run(ctx):
    boundary_prefixes(ctx)
    ctx.correspondence("crawler-run-vs-model")
    ctx.correspondence("prefix-table-vs-translator")
    from translate import crawlconsts
    bits, table = crawlconsts.prefix_table()
    batch = Batch(ctx)
    thorough = ctx.tier == "thorough" or ctx.search
    layouts = []
    if thorough:
        seenshape = set()
        li = 0
        for ps, sizes in (([0, 500, 1023], range(0, 7)), ([0, 1, 2], (2, 3)), ([1021, 1022, 1023], (1, 3)),
                          ([0, 1, 500, 1023], (4,)), ([511, 512], (2, 5))):
            for n in sizes:
                for comp in compositions(n, len(ps)):
                    counts = {p: c for p, c in zip(ps, comp) if c}
                    shape = tuple(sorted(counts.items()))
                    if shape in seenshape:
                        continue
                    seenshape.add(shape)
                    if len(ps) == 4 and li % 3:
                        li += 1
                        continue
                    layouts.append(Layout("t%d" % li, counts, ctx.rng("layout", li)))
                    li += 1
    else:
        nl = ctx.n(10, 60)
        for li in range(nl):
            r = ctx.rng("layout", li)
            ps = r.choice(PREFIX_SETS)
            n = r.choice([0, 1, 2, 3, 3, 4, 5, 6, 6])
            counts = {}
            for _ in range(n):
                p = r.choice(ps)
                counts[p] = counts.get(p, 0) + 1
            layouts.append(Layout("q%d" % li, counts, r))

    # the prefix table the crawler really uses vs. the one the theorems are about
    real = layouts[0].prefixes if layouts else None
    if real is not None and real != table:
        ctx.mismatch("prefix-table-differs", "ShareCrawler.prefixes differs from the table the translator computed from the source",
                     case={"bits": bits}, expected=table[:8], observed=real[:8], correspondence="prefix-table-vs-translator")
    ctx.note("prefix table: %d names, compared with the running crawler's" % len(table))

    for li, layout in enumerate(layouts):
        pts = layout.interesting()
        # undisturbed: two cycles in two slices
        batch.add(layout, [([], None), ([], None), ([], None)], "undisturbed")
        # single interruption points
        singles = pts if thorough else ctx.rng("single", li).sample(pts, min(len(pts), 4))
        for p in singles:
            specs = schedule_from_points([p])
            slices, _ = batch.add(layout, specs, "one-interruption")
            # kills in each slice of this schedule (thorough: for interruptions at buckets and used prefixes)
            cp = layout.checkpoints()[p]
            if thorough and layout.n > 2 and cp[0] == "prefix" and not layout.buckets.get(cp[1]):
                continue
            for sj in range(len(specs) - 1):
                kp = interesting_kills(slices[sj], layout.watch())
                if not thorough:
                    kp = ctx.rng("kill", li, p, sj).sample(kp, min(len(kp), 2))
                elif layout.n > 2 and len(kp) > 3:
                    kp = sorted(ctx.rng("kill", li, p, sj).sample(kp, 3))
                for k in kp:
                    ks = list(specs)
                    ks[sj] = (specs[sj][0], k)
                    ks = ks + [([], None)]
                    batch.add(layout, ks, "kill")
        # the process dies (or the disk fills) inside save_state
        if thorough or li < 8:
            for specs in save_crash_schedules(layout, thorough and li % 4 == 0, ctx.rng("savecrash", li)):
                batch.add(layout, specs, "crash-inside-save_state")
        # pairs / all subsets
        if thorough:
            import itertools
            small = layout.n <= 2 and len(pts) <= 8
            maxr = len(pts) if small else 2
            for rsize in range(2, maxr + 1):
                subs = list(itertools.combinations(pts, rsize))
                if layout.n > 4 and len(subs) > 24:
                    subs = ctx.rng("pairs", li).sample(subs, 24)
                for sub in subs:
                    batch.add(layout, schedule_from_points(sub, cycles_extra=0), "interruptions-%s" % ("subset" if rsize > 2 else "pair"))
        else:
            r = ctx.rng("multi", li)
            for _ in range(3):
                rsize = r.choice([2, 2, 3, 4, len(pts)])
                sub = r.sample(pts, min(rsize, len(pts)))
                batch.add(layout, schedule_from_points(sub), "interruptions-multi")
            # random schedules: arbitrary ticks and kills, several cycles
            for j in range(3):
                r2 = ctx.rng("rand", li, j)
                specs = []
                for _ in range(r2.randint(2, 7)):
                    nt = r2.choice([0, 1, 2, 3, layout.n + 2, 600, 1030])
                    ticks = [r2.random() < 0.3 for _ in range(nt)]
                    kill = r2.choice([None, None, None, 0, 1, 2, 3, r2.randint(0, 1040)])
                    specs.append((ticks, kill))
                specs.append(([], None))
                batch.add(layout, specs, "random-schedule")
        if len(batch.terms) >= 400:
            batch.flush("c27")
    # ---- the bucket set changes while the crawler is idle between cycles (same crawler object) ----
    recipes = epoch_recipes(ctx, thorough)
    for k, recipe in enumerate(recipes):
        run_recipe(ctx, batch, recipe, "e%d" % k)
        if len(batch.terms) >= 400:
            batch.flush("c27")
    batch.flush("c27")
    # ---- damaged stores under the real lease checker ----
    ctx.correspondence("lease-checker-on-damaged-store-vs-model")
    dterms, dinfo = [], []
    for recipe in damaged_recipes(ctx, thorough):
        run_damaged(ctx, recipe, "d%d" % recipe["key"], dterms, dinfo)
    bad = ctx.coq_check(IMPORTS_EXP, dterms, tag="c27dmg")
    for ix in bad:
        case, b32, st = dinfo[ix]
        ctx.mismatch("lease-checker-damaged-store-model-vs-impl", "Model/Expirer.v process_bucket and the real lease checker differ on a bucket of a damaged store",
                     case=case, observed={"bucket": b32, "before_after": st}, correspondence="lease-checker-on-damaged-store-vs-model")
    ctx.trace(len(dterms) - len(bad))
    batch.finish()


# ---- damaged stores under the lease checker (the crawler the node really runs) -----------------
DAMAGE_KINDS = ["zero-length", "cut-immutable-header", "mutable-magic-cut-header", "bad-magic-full-length"]
T0 = 1700000000
D40 = 40 * 86400


class _Fixed(object):
    def __init__(self, now):
        self.now = now

    def time(self):
        return self.now


class _Counting(object):
    def __init__(self):
        self.n = 0

    def time(self):
        self.n += 1
        return self.n


def damaged_recipes(ctx, thorough):
    out = []
    k = 0
    for kind in DAMAGE_KINDS:
        for where in ("first", "middle", "last"):
            for placement in ("extra-file", "only-file"):
                if not thorough and (k % 2) and kind == "bad-magic-full-length":
                    k += 1
                    continue
                out.append({"key": k, "damage": kind, "where": where, "placement": placement,
                            "enabled": bool(k % 2 == 0), "style": ["one-slice", "slices", "restart"][k % 3],
                            "prefix_bytes": [[0, 0, 0], [0, 120, 255], [37, 37, 200, 255], [255, 255]][k % 4],
                            "mutable": [bool((k + j) % 3 == 0) for j in range(4)]})
                k += 1
    return out


def run_damaged(ctx, recipe, tag, terms, info):
    """Real StorageServer + LeaseCheckingCrawler (recording subclass) over a store with one damaged share file."""
    import shutil
    from twisted.internet.task import Clock
    from allmydata.storage import crawler as crawler_mod, expirer as expirer_mod, lease as lease_mod
    from allmydata.storage.common import si_b2a, storage_index_to_dir
    from allmydata.storage.expirer import LeaseCheckingCrawler
    from allmydata.storage.server import StorageServer
    from allmydata.storage.shares import get_share_file

    calls = []

    class RecordingLeaseChecker(LeaseCheckingCrawler):
        def process_bucket(self, cycle, prefix, prefixdir, storage_index_b32):
            calls.append((cycle, storage_index_b32))
            return LeaseCheckingCrawler.process_bucket(self, cycle, prefix, prefixdir, storage_index_b32)

    class Server(StorageServer):
        LeaseCheckerClass = RecordingLeaseChecker

    base = os.path.join(env.subdir("c27"), tag)
    clock = Clock()
    clock.advance(T0)
    enabled = recipe["enabled"]

    def make():
        return Server(base, b"\x27" * 20, expiration_enabled=enabled, expiration_mode="age", clock=clock)
    ss = make()
    sis = []
    for j, pb in enumerate(recipe["prefix_bytes"]):
        si = bytes([pb, j]) + b"%014d" % (recipe["key"] * 10 + j)
        if recipe["mutable"][j % 4]:
            ss.slot_testv_and_readv_and_writev(si, (b"W" * 32, b"r" * 32, b"c" * 32), {0: ([], [(0, b"mutable data")], None)}, [])
        else:
            _, w = ss.allocate_buckets(si, b"r" * 32, b"c" * 32, {0}, 5)
            w[0].write(0, b"hello")
            w[0].close()
        sis.append(si)
    order = sorted(sis, key=lambda x: (ss.lease_checker.prefixes.index(si_b2a(x)[:2].decode()), si_b2a(x)))
    victim = {"first": order[0], "middle": order[len(order) // 2], "last": order[-1]}[recipe["where"]]
    bdir = os.path.join(ss.sharedir, storage_index_to_dir(victim))
    good = os.path.join(bdir, "0")
    target = os.path.join(bdir, "7" if recipe["placement"] == "extra-file" else "0")
    # material for the damage: real container headers
    scratch_si = b"\xfe" * 16
    ss.slot_testv_and_readv_and_writev(scratch_si, (b"W" * 32, b"r" * 32, b"c" * 32), {0: ([], [(0, b"x" * 50)], None)}, [])
    mpath = os.path.join(ss.sharedir, storage_index_to_dir(scratch_si), "0")
    mutable_bytes = open(mpath, "rb").read()
    shutil.rmtree(os.path.dirname(mpath))
    good_bytes = open(good, "rb").read()
    kind = recipe["damage"]
    if kind == "zero-length":
        data = b""
    elif kind == "cut-immutable-header":
        data = (good_bytes if not recipe["mutable"][sis.index(victim) % 4] else b"\x00\x00\x00\x02" + b"\x00" * 20)[:7]
    elif kind == "mutable-magic-cut-header":
        data = mutable_bytes[:45]
    else:
        data = b"BAD MAGIC" + good_bytes[9:] if len(good_bytes) > 9 else b"BAD MAGIC"
    with open(target, "wb") as f:
        f.write(data)
    damaged_shnum = int(os.path.basename(target))
    all_buckets = set(si_b2a(x).decode() for x in sis)
    now = T0 + D40

    def share_files():
        st = {}
        for x in sis:
            d = os.path.join(ss.sharedir, storage_index_to_dir(x))
            for fn in os.listdir(d):
                st[(si_b2a(x).decode(), int(fn))] = os.path.join(d, fn)
        return st

    def read(path):
        if not os.path.exists(path):
            return None
        try:
            return [int(li.get_expiration_time()) for li in get_share_file(path).get_leases()]
        except Exception:
            return "unreadable"

    listing_before = {x: [fn for fn in os.listdir(os.path.join(ss.sharedir, storage_index_to_dir(x)))] for x in sis}
    files = share_files()
    before = {k2: read(pth) for k2, pth in files.items()}
    types = {}
    for (b32, shnum), pth in files.items():
        try:
            types[(b32, shnum)] = get_share_file(pth).sharetype
        except Exception:
            types[(b32, shnum)] = "immutable"
    case = {"damaged_recipe": recipe}
    saved = (crawler_mod.time, expirer_mod.time, lease_mod.time, expirer_mod.twlog)

    class _QuietLog(object):
        """process_bucket reports a corrupt share with twlog.msg/twlog.err; keep that off the check's output"""
        @staticmethod
        def msg(*a, **k):
            pass

        @staticmethod
        def err(*a, **k):
            pass
    fixed = _Fixed(now)
    style = recipe["style"]
    problems = False
    try:
        expirer_mod.time = fixed
        expirer_mod.twlog = _QuietLog
        lease_mod.time = fixed
        crawler_mod.time = fixed if style == "one-slice" else _Counting()
        for cyc in range(2):
            del calls[:]
            finished = False
            exc = None
            for k in range(40):
                lc = ss.lease_checker
                lc.cpu_slice = 10 ** 9 if style == "one-slice" else 450
                try:
                    lc.start_slice()
                except Exception as e:
                    exc = e
                    break
                if lc.state["last-cycle-finished"] == cyc:
                    finished = True
                    break
                if style == "restart" and k in (0, 2):
                    ss = make()
            ctx.case(("damaged", recipe["damage"], recipe["where"], recipe["placement"], style, enabled, cyc), kind="damaged-store-" + recipe["damage"])
            if exc is not None:
                problems = True
                ctx.oracle_fail("lease-checker-dies-on-unreadable-share",
                                "cycle %d: the lease checker raised %s (%s) at a %s share file in the %s bucket; the slice ended without save_state, "
                                "%d of %d buckets were processed" % (cyc, type(exc).__name__, exc, kind, recipe["where"], len(set(b for _, b in calls)), len(all_buckets)),
                                case=case, expected="recorded under corrupt-shares, crawl continues", observed=type(exc).__name__)
                break
            if not finished:
                problems = True
                ctx.oracle_fail("crawler-cycle-never-finishes", "cycle %d not finished after 40 slices" % cyc, case=case)
                break
            processed = set(b for c2, b in calls if c2 == cyc)
            if not all_buckets <= processed:
                problems = True
                ctx.oracle_fail("crawler-cycle-finished-with-unprocessed-bucket",
                                "cycle %d finished but buckets %s were not processed" % (cyc, sorted(all_buckets - processed)[:3]), case=case,
                                expected=sorted(all_buckets), observed=sorted(processed))
            hist = ss.lease_checker.get_state()["history"].get(str(cyc), {})
            examined = hist.get("space-recovered", {}).get("examined-buckets")
            if examined != len(all_buckets):
                problems = True
                ctx.oracle_fail("crawler-cycle-finished-with-unprocessed-bucket",
                                "cycle %d: examined-buckets is %r, the store has %d buckets" % (cyc, examined, len(all_buckets)), case=case,
                                expected=len(all_buckets), observed=examined)
            corrupt = sorted(tuple(x) for x in hist.get("corrupt-shares", []))
            want = [(si_b2a(victim).decode(), damaged_shnum)]
            if corrupt != want:
                problems = True
                ctx.oracle_fail("lease-checker-corrupt-shares-record", "cycle %d: corrupt-shares is %r, the damaged file is %r" % (cyc, corrupt, want),
                                case=case, expected=want, observed=corrupt)
            if cyc == 0:
                after = {k2: read(pth) for k2, pth in files.items()}
                for k2 in files:
                    if before[k2] == "unreadable":
                        ok = after[k2] == "unreadable"
                    elif enabled:
                        ok = after[k2] is None          # every good share was renewed 40 days ago
                    else:
                        ok = after[k2] == before[k2]
                    if not ok:
                        problems = True
                        ctx.oracle_fail("gc-damaged-store-share-decision",
                                        "share %r: before %r, after one cycle %r (expiration %s)" % (k2, before[k2], after[k2], "enabled" if enabled else "disabled"),
                                        case=case, observed=after[k2])
                # model: one process_bucket call per bucket
                pol = "(mk_policy %s (ModeAge None) true true)" % T.boolean(enabled)
                for x in sis:
                    b32 = si_b2a(x).decode()
                    ents, afts, cor = [], [], []
                    for fn in listing_before[x]:
                        k2 = (b32, int(fn))
                        ty = "Immutable" if types[k2] == "immutable" else "Mutable"

                        def st(v):
                            if v is None:
                                return "Gone"
                            if v == "unreadable":
                                return "Unreadable"
                            return "(Present %s)" % T.lst(["(mk_lease %s %s)" % (T.Z(e), T.N(j2)) for j2, e in enumerate(v)])
                        ents.append("(%s, %s, %s)" % (T.N(int(fn)), ty, st(before[k2])))
                        afts.append("(%s, %s, %s)" % (T.N(int(fn)), ty, st(after[k2])))
                        if before[k2] == "unreadable":
                            cor.append(T.N(int(fn)))
                    terms.append("bucket_agrees %s %s %s %s %s" % (pol, T.Z(now), T.lst(ents), T.lst(afts), T.lst(cor)))
                    info.append((case, b32, {str(k2): (before[k2], after[k2]) for k2 in files if k2[0] == b32}))
    finally:
        crawler_mod.time, expirer_mod.time, lease_mod.time, expirer_mod.twlog = saved
        shutil.rmtree(base, ignore_errors=True)
    return not problems


def epoch_recipes(ctx, thorough):
    """Histories of several cycles with buckets added/removed between cycles.  A recipe is
    {"counts": {prefix index: buckets at the start}, "epochs": [[ops, specs], ...], "key": ...}."""
    full = [[], None]
    out = []
    k = 0
    singles = [0, 1, 500, 1023] if thorough else [0, 500, 1023]
    for idx in singles:
        for start in ((0, 1, 2, 3) if thorough else (0, 1, 2)):
            # exactly one populated prefix directory, no interruption at all
            out.append({"counts": {idx: start} if start else {}, "key": k, "epochs": [
                [[], [full]], [[["add", idx]], [full]], [[], [full]], [[["remove", idx, 0]], [full]],
                [[["add", idx], ["add", idx]], [full, full]], [[["remove", idx, 1], ["add", idx]], [full]]]})
            k += 1
    n = ctx.n(8, 60)
    for j in range(n):
        r = ctx.rng("epochs", j)
        ps = r.choice([[0], [500], [1023], [3], [0, 1], [0, 1023], [511, 512], [7, 600, 1023]])
        counts = {}
        for _ in range(r.choice([0, 1, 2, 3])):
            q = r.choice(ps)
            counts[q] = counts.get(q, 0) + 1
        epochs = []
        for e in range(r.randint(2, 5)):
            ops = []
            for _ in range(r.choice([0, 1, 1, 2])):
                if r.random() < 0.65:
                    ops.append(["add", r.choice(ps)])
                else:
                    ops.append(["remove", r.choice(ps), r.randrange(4)])
            specs = []
            for _ in range(r.choice([0, 0, 1, 2])):
                nt = r.choice([1, 2, 3, 1025])
                specs.append([[r.random() < 0.4 for _ in range(nt)], r.choice([None, None, None, 1, 2, 3, r.randint(0, 1040)])])
            specs.append([[], None])      # the epoch ends between two cycles
            epochs.append([ops if e else [], specs])
        out.append({"counts": counts, "key": k, "epochs": epochs})
        k += 1
    return out


def run_recipe(ctx, batch, recipe, tag):
    rng = ctx.rng("recipe", recipe["key"])
    counts = {int(i): c for i, c in recipe["counts"].items()}
    layout = Layout(tag, counts, rng)
    # prefixes that get buckets later must be watched as well
    for ops, _ in recipe["epochs"]:
        for op in ops:
            layout.buckets.setdefault(int(op[1]), [])
    watch_extra = sorted(layout.buckets)
    orig_watch = layout.watch

    def watch():
        w = set(orig_watch())
        for i in watch_extra:
            w.update(j for j in (i - 1, i, i + 1) if 0 <= j < len(layout.prefixes))
        return sorted(w)
    layout.watch = watch
    epochs = [([tuple(op) for op in ops], [([bool(b) for b in t], kl) for t, kl in specs]) for ops, specs in recipe["epochs"]]
    populated = len([i for i in counts if counts[i]])
    kind = "epochs-one-prefix" if len(watch_extra) <= 1 else "epochs-several-prefixes"
    return batch.add_epochs(layout, epochs, rng, kind, recipe)


def replay(ctx, rec):
    case = rec["case"]
    if "boundary_prefix" in case or "prefix_table" in case:
        boundary_prefixes(ctx)
        return {"note": "the boundary-prefix run is deterministic; failures are listed above"}
    if "damaged_recipe" in case:
        ok = run_damaged(ctx, case["damaged_recipe"], "replay-damaged", [], [])
        return {"damaged_store": case["damaged_recipe"], "property_holds": ok}
    if "epochs_recipe" in case:
        b = Batch(ctx)
        result, final = run_recipe(ctx, b, case["epochs_recipe"], "replay-epochs")
        return {"note": "bucket names are regenerated from the recipe (same prefixes, counts, operations and schedule)",
                "log_without_finished_prefix": [list(ev) for _, _, _, slices in result for sl in slices for ev in sl if ev[0] != "pdone"][:200],
                "final_state": final}
    counts = {int(k): v for k, v in case["layout"].items()}
    layout = Layout("replay", counts, ctx.rng("replay"))
    specs = [([bool(b) for b in ticks], kill) for ticks, kill in case["specs"]]
    slices, final, _, restarts = run_impl_ex(layout, specs)
    oracle(ctx, layout, specs, slices, final, case_record(layout, specs))
    judge_restarts(ctx, restarts, case_record(layout, specs))
    return {"note": "bucket names are regenerated (same shape: buckets per prefix directory)",
            "log_without_finished_prefix": [list(ev) for sl in slices for ev in sl if ev[0] != "pdone"], "final_state": final}
