"""C45  Immutable check, verify and repair."""
import os
import re
import struct

from core import term as T
from props import c02 as C

ID = "C45"
GEN = ["immconsts"]
RULE = ("grid cases: files of 56..300 bytes, 1<=k<=N<=10, max segment size 16..100, grids of N/2..N+2 servers, then any subset of share "
        "files deleted, and any subset damaged: one field (version, offset-table entry, UEB, share-hash-chain number/value, block-hash-tree "
        "node, crypttext-hash-tree node, block, unused region), random flips, truncation, a share file copied under another share number, "
        "a share of another file, a good share file copied to a second server (duplicate share number: N or more files with fewer than N "
        "distinct numbers); a sweep of every single-field mutation over one share of one-segment and multi-segment files; plus files whose UEB "
        "disagrees with the cap; each checked with verify=False and verify=True, then "
        "check_and_repair, then (when repair wrote >= k shares) all older shares deleted and the file read; non-trivial = at least one share "
        "deleted or damaged; distinct = distinct (parameters, damage)")
META = {
    "title": "Immutable check, verify and repair",
    "level_text": ("Theorems in Coq over a model of the verifier (ValidatedExtendedURIProxy, ValidatedReadBucketProxy, Checker._download_and_verify) "
                   "on the C35 hash trees: a share reported good carries the uploader's UEB and, for the share number it is announced under, the "
                   "uploader's blocks, block hash tree, crypttext hash tree and share hash chain, for arbitrary share contents; _format_results is "
                   "healthy exactly when the shares found good have N distinct numbers and recoverable exactly when at least k; a repair that "
                   "completes re-encodes the validated ciphertext with the cap's parameters and so writes exactly the uploader's shares (same "
                   "capability).  The per-share verdict, the health decision and the post-repair decision of the model are compared with the real "
                   "checker/repairer on a real in-process grid, and the property statement is evaluated on the files on disk (shares valid by an "
                   "independent hashlib recomputation, existing good shares byte-identical after repair, file readable from the repaired shares alone)."),
    "level_note": ("core (partial): repair_output_validates_under_readcap is proved as 'the repaired shares equal the originals'; that the validation "
                   "accepts genuine shares in every state (completeness) is shown on examples and exercised on the grid, not proved.  Which servers "
                   "the repairer places shares on, leases and the network are exercised, not modelled.  A share whose header cannot be read makes "
                   "the real verify errback (AssertionError from a precondition): such cases are judged by the oracle only.  Hash hypotheses as C02."),
    "technique": "Coq proof over an executable model of verifier/decision/repair + differential run vs the real checker + grid check/repair histories with oracle",
    "design_ref": "8/C45",
    "trusted_base": ["abstraction of a share's bytes into what ReadBucketProxy reads (harness/props/c45.py: vshare_view)",
                     "symbolic naming of hash values by their position in the recomputed genuine trees (harness/props/c02.py)"],
    "assumptions": ["hash injectivity on the values hashed", "unpack_extension(pack_extension(d)) = d"],
}
IMPORTS = ["Lib.Hex", "Model.HashTree", "Model.ImmFile", "Model.ImmVerify", "Model.ImmCheck"]


# ---- what ReadBucketProxy reads out of a share ---------------------------------------------------------
def vshare_view(payload, g):
    """dict(version, header_ok, ueb=('bytes', b)|('short',)|('large',), share_hashes list|None, block_hashes [bytes],
    ct_hashes [bytes], blocks {blocknum: bytes}) following layout.ReadBucketProxy; reads past the end are short."""
    def rd(start, length):
        if length <= 0 or start >= len(payload):
            return b""
        return payload[start:start + length]

    head = rd(0, 0x44)
    if len(head) < 4:
        return {"header_ok": False}
    (version,) = struct.unpack(">L", head[:4])
    if version not in (1, 2):
        return {"header_ok": True, "version": version}
    need, start, fs, fmt = (0x24, 0x0c, 4, ">L") if version == 1 else (0x44, 0x14, 8, ">Q")
    if len(head) < need:
        return {"header_ok": False}
    offs = {}
    for i, name in enumerate(C.FIELDS):
        (offs[name],) = struct.unpack(fmt, head[start + i * fs:start + (i + 1) * fs])
    v = {"header_ok": True, "version": version, "offsets": offs}
    lf = rd(offs["uri_extension"], fs)
    if len(lf) != fs:
        v["ueb"] = ("short",)
    else:
        (ln,) = struct.unpack(fmt, lf)
        v["ueb"] = ("large",) if ln >= 2000 else ("bytes", rd(offs["uri_extension"] + fs, ln))
    size = offs["uri_extension"] - offs["share_hashes"]
    v["share_hashes"] = None
    if size % 34 == 0:
        d = rd(offs["share_hashes"], size)
        if len(d) == size and size >= 0:
            v["share_hashes"] = [(struct.unpack(">H", d[i:i + 2])[0], d[i + 2:i + 34]) for i in range(0, size, 34)]
    d = rd(offs["block_hashes"], offs["share_hashes"] - offs["block_hashes"])
    v["block_hashes"] = [d[i:i + 32] for i in range(0, len(d), 32)]
    d = rd(offs["crypttext_hash_tree"], offs["block_hashes"] - offs["crypttext_hash_tree"])
    v["ct_hashes"] = [d[i:i + 32] for i in range(0, len(d), 32)]
    # ValidatedReadBucketProxy.get_block: block_size = div_ceil(segment size, k), last = share_size % block_size or block_size
    bs = C.div_ceil(g.segsize, g.k)
    share_size = C.div_ceil(g.size, g.k)
    v["blocks"] = {}
    for j in range(g.nseg):
        ln = bs if j < g.nseg - 1 else (share_size % bs or bs)
        v["blocks"][j] = rd(offs["data"] + j * bs, ln)
    return v


def share_valid(view, g, shnum):
    """The property's 'good share', decided without the checker: everything the verifier is shown is what the
    uploader produced for this share number (hashlib recomputation in c02.Genuine)."""
    if not view.get("header_ok") or view.get("version") not in (1, 2):
        return False
    if view["ueb"] != ("bytes", g.ueb_bytes):
        return False
    nn = len(g.cht)
    if view["block_hashes"] != g.bht[shnum] or view["ct_hashes"] != g.cht or len(g.bht[shnum]) != nn:
        return False
    if view["share_hashes"] is None:
        return False
    chain = dict(view["share_hashes"])
    if any(i >= len(g.sht) or g.sht[i] != h for i, h in chain.items()):
        return False
    if not set(C.needed_chain(g.n, shnum)) <= set(chain):
        return False
    return all(view["blocks"].get(j) == g.blocks[shnum][j] for j in range(g.nseg))


def coq_vshare(view, g, name, namer, ueb_term=None):
    if view["ueb"][0] == "short":
        ueb = "UebShort"
    elif view["ueb"][0] == "large":
        ueb = "UebTooLarge"
    elif view["ueb"][1] == g.ueb_bytes:
        ueb = "(UebBytes %s)" % (ueb_term or (name + "_ueb"))
    else:
        ueb = "(UebBytes (UbJunk 1))"
    if view["share_hashes"] is None:
        sh = "None"
    else:
        sh = "(Some %s)" % T.lst(["(%s, %s)" % (T.Z(i), namer(h)) for i, h in view["share_hashes"]])
    bh = T.lst([namer(h) for h in view["block_hashes"]])
    ch = T.lst([namer(h) for h in view["ct_hashes"]])
    bl = T.lst(["(%s, %s)" % (T.Z(j), namer.block(b)) for j, b in sorted(view["blocks"].items())])
    return "(mkVshare %s %s %s %s %s %s)" % (T.N(view["version"]), ueb, sh, bh, ch, bl)


VERDICTS = {"good": 0, "corrupt": 1, "incompatible": 2}


def results_of(g, cr):
    """CheckResults -> ({(server, shnum): verdict}, aggregate tuple)."""
    per = {}
    for shnum, servers in cr.get_sharemap().items():
        for s in servers:
            per[(g.server_index(s.get_serverid()), shnum)] = "good"
    for (s, _si, shnum) in cr.get_corrupt_shares():
        per[(g.server_index(s.get_serverid()), shnum)] = "corrupt"
    for (s, _si, shnum) in cr.get_incompatible_shares():
        per[(g.server_index(s.get_serverid()), shnum)] = "incompatible"
    agg = (cr.is_healthy(), cr.is_recoverable(), cr.get_share_counter_good(), cr.get_host_counter_good_shares(),
           len(cr.get_corrupt_shares()), len(cr.get_incompatible_shares()))
    return per, agg


def coq_server_results(per_server):
    """[(server, verified, corrupt, incompatible, responded)] -> Coq list server_result."""
    return T.lst(["(mkSr %s %s %s %s %s)" % (T.Z(srv), T.lst([T.Z(x) for x in sorted(ver)]), T.lst([T.Z(x) for x in sorted(cor)]),
                                              T.lst([T.Z(x) for x in sorted(inc)]), T.boolean(resp)) for srv, ver, cor, inc, resp in per_server])


def coq_cr(agg):
    healthy, rec, good, hosts, cor, inc = agg
    return "(mkCr %s %s %s %s %s %s [])" % (T.boolean(healthy), T.boolean(rec), T.N(good), T.N(hosts), T.N(cor), T.N(inc))


# ---- damage -----------------------------------------------------------------------------------------------
def apply_damage(r, g, shares, raws, gen, other_raws):
    """Delete and damage random subsets of the share files; returns a description."""
    desc = []
    pool = list(shares)
    r.shuffle(pool)
    ndel = r.choice([0, 0, 0, 1, 1, 1, 1, 2, 2, max(0, len(pool) - gen.k), max(0, len(pool) - gen.k), max(0, len(pool) - gen.k + 1), len(pool)])
    ndel = min(ndel, len(pool))
    ndam_pick = r.choice([0, 0, 1, 1, 1, 1, 2, 2, 3, len(pool)])
    if r.random() < 0.7:
        # most histories stay recoverable: at least k intact shares remain
        spare = max(0, len(pool) - gen.k)
        ndel = min(ndel, spare)
        ndam_pick = min(ndam_pick, spare - ndel)
    for s in pool[:ndel]:
        g.delete_share(s)
        desc.append(("delete", s.shnum))
    rest = pool[ndel:]
    ndam = min(len(rest), ndam_pick)
    for s in rest[:ndam]:
        raw = raws[(s.server, s.shnum)]
        head, pay, leases = C.split_container(raw)
        how = r.choice(["field", "field", "field", "field", "flips", "truncate", "renumber", "other-file"])
        if how == "field":
            label, newp = r.choice(C.targeted_mutations(r, gen, s.shnum, pay))
            g.write_share(s, C.join_container(head, newp, leases))
            desc.append((label, s.shnum))
        elif how == "flips":
            b = bytearray(pay)
            for _ in range(r.choice([1, 1, 3])):
                b[r.randrange(len(b))] ^= r.choice([1, 0x10, 0xff])
            g.write_share(s, C.join_container(head, bytes(b), leases))
            desc.append(("flips", s.shnum))
        elif how == "truncate":
            floor = 36 if pay[3] == 1 else 68
            cut = r.choice([floor, len(pay) - 1, r.randrange(floor, len(pay)), r.randrange(floor, len(pay))])
            g.write_share(s, C.join_container(head, pay[:cut], leases))
            desc.append(("truncate:%d" % cut, s.shnum))
        elif how == "renumber":
            src = r.choice(shares)
            g.write_share(s, raws[(src.server, src.shnum)])
            desc.append(("holds-bytes-of-share-%d" % src.shnum, s.shnum))
        else:
            g.write_share(s, r.choice(other_raws))
            desc.append(("other-file", s.shnum))
    return desc


def place_share(g, cap, server, shnum, raw):
    """Write a share file for `cap` under number `shnum` on server `server` (creating the bucket directory)."""
    from allmydata.storage.server import storage_index_to_dir
    d = os.path.join(g.server(server).sharedir, storage_index_to_dir(g._si(cap)))
    os.makedirs(d, exist_ok=True)
    with open(os.path.join(d, "%d" % shnum), "wb") as f:
        f.write(raw)


# (numbers deleted, numbers copied to a second server): N or more share files with fewer than N distinct numbers
LAYOUTS = [("N-files/N-1-distinct", 1, 1), ("N-files/N-2-distinct", 2, 2), ("N+1-files/N-1-distinct", 1, 2),
           ("N+1-files/N-distinct", 0, 1), ("N+2-files/N-1-distinct", 1, 3), ("N-1-files/N-2-distinct", 2, 1),
           # every number present and good, plus extra CORRUPT copies of some numbers on other servers (4th field)
           ("N-good+1-corrupt-copy", 0, 0, 1), ("N-good+2-corrupt-copies", 0, 0, 2), ("N-1-good+1-corrupt-copy", 1, 0, 1),
           ("N-good+1-good-copy+1-corrupt-copy", 0, 1, 1)]


def apply_layout(r, g, cap, shares, raws, nservers, layout):
    """Delete some share numbers and copy other (good) share files to servers that do not hold that number."""
    label, ndel, ndup = layout[:3]
    ncorrupt = layout[3] if len(layout) > 3 else 0
    desc = []
    pool = list(shares)
    r.shuffle(pool)
    gone = pool[:min(ndel, max(0, len(pool) - 1))]
    for s in gone:
        g.delete_share(s)
        desc.append(("delete", s.shnum))
    left = pool[len(gone):]
    for _ in range(ndup):
        src = r.choice(left)
        holders = set(s.server for s in left if s.shnum == src.shnum) | set(srv for (what, srv, sh) in [d for d in desc if len(d) == 3] if sh == src.shnum)
        free = [x for x in range(nservers) if x not in holders]
        if not free:
            continue
        dst = r.choice(free)
        place_share(g, cap, dst, src.shnum, raws[(src.server, src.shnum)])
        desc.append(("duplicate-on-server", dst, src.shnum))
    for _ in range(ncorrupt):
        src = r.choice(left)
        holders = set(s.server for s in left if s.shnum == src.shnum) | set(d[1] for d in desc if len(d) == 3 and d[2] == src.shnum)
        free = [x for x in range(nservers) if x not in holders]
        if not free:
            continue
        dst = r.choice(free)
        head, pay, leases = C.split_container(raws[(src.server, src.shnum)])
        ver, fs, offs = C.parse_header(pay)
        b = bytearray(pay)
        where = r.choice(["data", "block_hashes", "crypttext_hash_tree", "share_hashes"])
        b[offs[where] + r.randrange(2, 30)] ^= r.choice([1, 0x80, 0xff])
        place_share(g, cap, dst, src.shnum, C.join_container(head, bytes(b), leases))
        desc.append(("corrupt-copy-on-server:" + where, dst, src.shnum))
    return desc


def disk_state(g, cap):
    return {(s.server, s.shnum): g.read_share(s) for s in g.find_shares(cap)}


# ---- one grid history --------------------------------------------------------------------------------------
def history(ctx, i, jobs, layout=None):
    from core import grid as G
    from allmydata.monitor import Monitor
    r = ctx.rng("hist" if layout is None else "layout", i)
    k = r.choice([1, 1, 2, 2, 3, 3, 4, 7])
    n = r.choice([x for x in [k, k + 1, k + 2, 2 * k, 2 * k + 1, 10] if k <= x <= 10])
    mss = r.choice([16, 24, 40, 64, 100])
    size = max(56, min(r.choice([56, 57, mss + 1, 2 * mss, 3 * mss - 1, 4 * mss + 2, 150, 300]), 8 * mss, 300))
    data = bytes(r.getrandbits(8) for _ in range(size))
    nservers = r.choice([n, n, n + 1, n + 2, max(1, (n + 1) // 2)])
    if layout is not None:
        n = max(n, 3)
        nservers = max(nservers, n + 1)
    seed = r.getrandbits(30)
    name = "%s%d" % ("F" if layout is None else "L", i)
    case = {"i": i, "k": k, "n": n, "size": size, "max_segment_size": mss, "servers": nservers, "seed": seed}
    with G.Grid(num_servers=nservers, k=k, n=n, happy=1, max_segment_size=mss, seed=seed, timeout=180) as g:
        other = g.run(g.upload(bytes(r.getrandbits(8) for _ in range(size)), convergence=b"c45"))
        other_raws = [g.read_share(s) for s in g.find_shares(other)]
        cap, shares, raws0, gen = C.upload_file(g, data, conv=b"c45")
        raws = {(s.server, s.shnum): g.read_share(s) for s in shares}
        for p in gen.problems:
            ctx.mismatch("uploaded-share-differs-from-recomputed-trees", p, case=case, correspondence="verifier-verdict-vs-model")
        if layout is not None:
            desc = apply_layout(r, g, cap, shares, raws, nservers, layout)
            case["layout"] = layout[0]
        else:
            desc = apply_damage(r, g, shares, raws, gen, other_raws)
            if r.random() < 0.25:
                # a good share file also copied to a server that does not hold that number
                left = [s for s in g.find_shares(cap)]
                if left:
                    src = r.choice(left)
                    free = [x for x in range(nservers) if x not in set(s.server for s in left if s.shnum == src.shnum)]
                    if free:
                        dst = r.choice(free)
                        place_share(g, cap, dst, src.shnum, g.read_share(src))
                        desc.append(("duplicate-on-server", dst, src.shnum))
        case["damage"] = desc
        before = disk_state(g, cap)
        views = {key: vshare_view(C.split_container(raw)[1], gen) for key, raw in before.items()}
        valid = {key: share_valid(views[key], gen, key[1]) for key in before}
        unreadable = [key for key in before if not views[key].get("header_ok")]
        namer = C.Namer(name, gen)
        pre = C.preamble_for(name, gen, namer)
        terms, info = [], []

        # --- check without verification: the servers' word
        node = C.fresh_node(g, cap)
        out = g.run(lambda: node.check(Monitor(), verify=False), outcome=True, timeout=90)
        present = sorted(set(sh for (_s, sh) in before))
        if out.status != "ok":
            ctx.oracle_fail("check-without-verify-failed", "check(verify=False) ended with %s" % (out.error or out.status), case=case)
        else:
            per, agg = results_of(g, out.value)
            if agg[0] != (len(present) == n) or agg[1] != (len(present) >= k):
                ctx.oracle_fail("check-health-rule:verify=False",
                                "%d distinct share numbers are stored (k=%d, N=%d) but check says healthy=%s recoverable=%s" % (len(present), k, n, agg[0], agg[1]),
                                case=case, expected=[len(present) == n, len(present) >= k], observed=list(agg[:2]))
            by_server = {}
            for (srv, sh) in before:
                by_server.setdefault(srv, []).append(sh)
            rs = [(srv, by_server.get(srv, []), [], [], True) for srv in range(nservers)]
            terms.append("match format_results %s %s %s with Some cr => cr_eqb cr %s | None => false end" % (T.N(k), T.N(n), coq_server_results(rs), coq_cr(agg)))
            info.append(("health-decision-vs-model", dict(case, verify=False), list(agg)))

        # --- check with verification
        node = C.fresh_node(g, cap)
        out = g.run(lambda: node.check(Monitor(), verify=True), outcome=True, timeout=90)
        good_numbers = sorted(set(sh for (srv, sh), ok in valid.items() if ok))
        if out.status != "ok":
            # the real verifier errbacks when a share's header cannot be read at all (precondition -> AssertionError)
            if not unreadable:
                ctx.mismatch("verify-failed-unexpectedly", "check(verify=True) ended with %s although every share header is readable" % (out.error or out.status),
                             case=case, correspondence="verifier-verdict-vs-model")
            ctx.count("verify-errback-unreadable-header")
        else:
            per, agg = results_of(g, out.value)
            for key, verdict in sorted(per.items()):
                if verdict == "good" and not valid.get(key, False):
                    what = [d for d in desc if d[-1] == key[1]]
                    kind = "verify-reports-share-good-under-wrong-number" if any(str(d[0]).startswith("holds-bytes-of-share") for d in what) \
                        else "verify-reports-damaged-share-good"
                    ctx.oracle_fail(kind, "verify=True reports share %d on server %d good, but what it holds is not the uploader's share %d (%s)" % (
                        key[1], key[0], key[1], what or "no such file"), case=case, observed={"server": key[0], "shnum": key[1]})
            for key, ok in sorted(valid.items()):
                if ok and per.get(key) != "good":
                    ctx.oracle_fail("verify-rejects-genuine-share", "share %d on server %d is byte-for-byte what the uploader wrote where the verifier looks, "
                                    "but verify=True reports it %s" % (key[1], key[0], per.get(key, "absent")), case=case)
            if agg[0] != (len(good_numbers) == n) or agg[1] != (len(good_numbers) >= k):
                ctx.oracle_fail("check-health-rule:verify=True",
                                "%d distinct share numbers have a valid share (k=%d, N=%d) but verify says healthy=%s recoverable=%s" % (len(good_numbers), k, n, agg[0], agg[1]),
                                case=case, expected=[len(good_numbers) == n, len(good_numbers) >= k], observed=list(agg[:2]))
            # model: per-share verdicts, then the decision from the implementation's own verdicts
            for key in sorted(before):
                if key in unreadable:
                    continue
                terms.append("(verdict_code (sym_verify_share %s_cap %s %s (fun _ => []) (fun _ _ => [])) =? %s)%%N" % (
                    name, T.Z(key[1]), coq_vshare(views[key], gen, name, namer) if views[key].get("version") in (1, 2)
                    else "(mkVshare %s UebShort None [] [] [])" % T.N(views[key]["version"]), T.N(VERDICTS[per.get(key, "absent")] if key in per else 9)))
                info.append(("verifier-verdict-vs-model", dict(case, server=key[0], shnum=key[1], what=[d for d in desc if d[-1] == key[1]]), per.get(key, "absent")))
            rs = []
            for srv in range(nservers):
                mine = {sh: v for (s_, sh), v in per.items() if s_ == srv}
                rs.append((srv, [sh for sh, v in mine.items() if v == "good"], [sh for sh, v in mine.items() if v == "corrupt"],
                           [sh for sh, v in mine.items() if v == "incompatible"], True))
            terms.append("match format_results %s %s %s with Some cr => cr_eqb cr %s | None => false end" % (T.N(k), T.N(n), coq_server_results(rs), coq_cr(agg)))
            info.append(("health-decision-vs-model", dict(case, verify=True), list(agg)))

        # --- check and repair
        verify = r.random() < 0.6
        node = C.fresh_node(g, cap)
        out = g.run(lambda: node.check_and_repair(Monitor(), verify=verify), outcome=True, timeout=120)
        after = disk_state(g, cap)
        case_r = dict(case, repair_verify=verify)
        for key, raw in before.items():
            # the share itself (container payload); the lease records behind it are renewed by the repairer's upload
            if valid[key] and (key not in after or C.split_container(after[key])[1] != C.split_container(raw)[1]):
                ctx.oracle_fail("repair-altered-existing-good-share", "share %d on server %d was good before check_and_repair and is %s after" % (
                    key[1], key[0], "gone" if key not in after else "different"), case=case_r)
        new = sorted(key for key in after if key not in before)
        identical = 0
        for key in new:
            v = vshare_view(C.split_container(after[key])[1], gen)
            if not share_valid(v, gen, key[1]):
                ctx.oracle_fail("repair-wrote-invalid-share", "repair wrote share %d on server %d which does not validate under the original cap" % (key[1], key[0]), case=case_r)
            if C.split_container(after[key])[1] == gen.payloads[key[1]]:
                identical += 1
        ctx.count("repair-new-shares", len(new))
        ctx.count("repair-new-shares-byte-identical-to-original", identical)
        outcome = "not-run"
        if out.status == "ok":
            crr = out.value
            outcome = "healthy-no-repair" if not crr.get_repair_attempted() else ("repaired" if crr.get_repair_successful() else "repair-unsuccessful")
            pre_per, pre_agg = results_of(g, crr.get_pre_repair_results())
            post_per, post_agg = results_of(g, crr.get_post_repair_results())
            distinct_before = len(good_numbers) if verify else len(present)
            if distinct_before == n and crr.get_repair_attempted() and not unreadable:
                ctx.oracle_fail("repair-attempted-on-healthy-file",
                                "all %d share numbers have a %s share (%d share files, damage: %s) but check_and_repair(verify=%s) started a repair" % (
                                    n, "valid" if verify else "stored", len(before), desc, verify), case=case_r)
            if distinct_before < n and not crr.get_repair_attempted() and not unreadable:
                ctx.oracle_fail("repair-not-attempted-on-unhealthy-file",
                                "only %d distinct %s share numbers are stored (N=%d, %d share files) but check_and_repair(verify=%s) found the file healthy and did not repair" % (
                                    distinct_before, "valid" if verify else "present", n, len(before), verify), case=case_r)
            if crr.get_repair_attempted():
                now_good = set(sh for (srv, sh) in after if (share_valid(vshare_view(C.split_container(after[(srv, sh)])[1], gen), gen, sh) if verify else True))
                if crr.get_repair_successful() and len(now_good) != n:
                    ctx.oracle_fail("repair-reported-successful-without-N-good-shares",
                                    "check_and_repair(verify=%s) reports success but only %d distinct %s share numbers are stored (N=%d)" % (
                                        verify, len(now_good), "valid" if verify else "present", n), case=case_r)
                placed = sorted(set(sh for (_s, sh) in new))
                terms.append("(let p := post_repair %s %s %s %s in Bool.eqb (cr_healthy p) %s && Bool.eqb (cr_recoverable p) %s && (cr_good p =? %s)%%N)" % (
                    T.N(k), T.N(n), "(mkCr %s %s %s %s %s %s %s)" % (T.boolean(pre_agg[0]), T.boolean(pre_agg[1]), T.N(pre_agg[2]), T.N(pre_agg[3]), T.N(pre_agg[4]), T.N(pre_agg[5]),
                                                                 T.lst([T.Z(x) for x in sorted(set(sh for (_s, sh), v in pre_per.items() if v == "good"))])),
                    T.lst([T.Z(x) for x in placed]), T.boolean(post_agg[0]), T.boolean(post_agg[1]), T.N(post_agg[2])))
                info.append(("post-repair-decision-vs-model", case_r, list(post_agg)))
        elif out.status == "error":
            outcome = "repair-error:" + str(out.error)
        # --- the file must be readable from the repaired shares alone
        if len(set(sh for (_s, sh) in new)) >= k:
            for s in g.find_shares(cap):
                if (s.server, s.shnum) in before:
                    g.delete_share(s)
            status, err, chunks = C.read_through(g, C.fresh_node(g, cap), 0, None, timeout=90)
            if status != "ok" or b"".join(chunks) != data:
                ctx.oracle_fail("cannot-read-from-repaired-shares-alone", "with only the %d shares written by repair left, download gives %s" % (
                    len(new), err or status if status != "ok" else "wrong bytes"), case=case_r)
            ctx.count("read-from-repaired-shares-alone")
        ctx.case((k, n, size, mss, nservers, repr(desc)) if desc else None, kind=("history:" if layout is None else "layout:%s:" % layout[0]) + outcome)
        if i < 4:
            ctx.sample({"k": k, "n": n, "size": size, "servers": nservers, "damage": [list(d) for d in desc][:6], "repair": outcome,
                        "valid_share_numbers_before": good_numbers, "new_shares": [list(x) for x in new]})
        jobs.append((pre, terms, info))


# ---- every field of one share, one at a time, single- and multi-segment files ---------------------------------
def field_sweep(ctx, i, jobs):
    """One file; each targeted single-field mutation (c02.targeted_mutations: version, header sizes, every offset-table
    entry, every block, the unused region, EVERY crypttext-hash-tree and block-hash-tree node, every share-chain entry,
    UEB length and body, truncations) applied in turn to one share, verify=True, per-share verdict against the oracle
    (stored field differs from the genuine one => not good) and against the model.  Even i: a ONE-segment file (its
    hash trees are a single root node each)."""
    from core import grid as G
    from allmydata.monitor import Monitor
    r = ctx.rng("sweep", i)
    k = r.choice([1, 2, 3])
    n = r.choice([k, k + 1, k + 2])
    single = (i % 2 == 0)
    size = r.choice([56, 57, 60, 75, 100])
    mss = r.choice([size, size + 1, size + k, 2 * size]) if single else r.choice([16, 24, 33])
    data = bytes(r.getrandbits(8) for _ in range(size))
    seed = r.getrandbits(30)
    name = "S%d" % i
    base = {"i": i, "sweep": True, "k": k, "n": n, "size": size, "max_segment_size": mss, "seed": seed}
    with G.Grid(num_servers=n, k=k, n=n, happy=1, max_segment_size=mss, seed=seed, timeout=180) as g:
        cap, shares, raws0, gen = C.upload_file(g, data, conv=b"c45s")
        if single and gen.nseg != 1:
            ctx.mismatch("sweep-not-single-segment", "expected a one-segment file, got %d segments" % gen.nseg, case=base, correspondence="verifier-verdict-vs-model")
        raws = {(s.server, s.shnum): g.read_share(s) for s in shares}
        namer = C.Namer(name, gen)
        pre = C.preamble_for(name, gen, namer)
        terms, info = [], []
        muts_all = []
        for s in shares:
            pay = C.split_container(raws[(s.server, s.shnum)])[1]
            muts_all.extend((s, label, newp) for label, newp in C.targeted_mutations(r, gen, s.shnum, pay))
        # every mutation class at least once (round-robin over the shares), then a random remainder
        by_label = {}
        for s, label, newp in muts_all:
            by_label.setdefault("truncate" if label.startswith("truncate") else re.sub(r"[+-]\d+$", "", label), []).append((s, label, newp))
        picked = [r.choice(v) for _k, v in sorted(by_label.items())]       # every class, none dropped
        extra = [m for m in muts_all if m not in picked]
        r.shuffle(extra)
        picked += extra[:ctx.n(8, 60)]
        for s, label, newp in picked:
            raw = raws[(s.server, s.shnum)]
            head, _p, leases = C.split_container(raw)
            g.write_share(s, C.join_container(head, newp, leases))
            key = (s.server, s.shnum)
            view = vshare_view(newp, gen)
            case = dict(base, shnum=s.shnum, mutation=label, segments=gen.nseg)
            kind = label.split(":")[0]
            ok_expected = share_valid(view, gen, s.shnum)
            node = C.fresh_node(g, cap)
            out = g.run(lambda: node.check(Monitor(), verify=True), outcome=True, timeout=90)
            if out.status != "ok":
                if view.get("header_ok"):
                    ctx.mismatch("verify-failed-unexpectedly", "check(verify=True) ended with %s although every share header is readable" % (out.error or out.status),
                                 case=case, correspondence="verifier-verdict-vs-model")
            else:
                per, agg = results_of(g, out.value)
                verdict = per.get(key, "absent")
                if verdict == "good" and not ok_expected:
                    ctx.oracle_fail("verify-reports-damaged-share-good", "%d-segment file: share %d with a damaged %s is reported good by verify=True" % (gen.nseg, s.shnum, label),
                                    case=case, observed={"server": key[0], "shnum": key[1]})
                if verdict != "good" and ok_expected:
                    ctx.oracle_fail("verify-rejects-genuine-share", "%d-segment file: share %d (%s: nothing the verifier looks at differs from the upload) is reported %s" % (
                        gen.nseg, s.shnum, label, verdict), case=case)
                want_healthy = ok_expected        # all other shares are intact
                if agg[0] != want_healthy:
                    ctx.oracle_fail("check-health-rule:verify=True", "%d distinct share numbers have a valid share (N=%d) but verify says healthy=%s" % (
                        n if ok_expected else n - 1, n, agg[0]), case=case, expected=want_healthy, observed=agg[0])
                if view.get("header_ok"):
                    vs = coq_vshare(view, gen, name, namer) if view.get("version") in (1, 2) else "(mkVshare %s UebShort None [] [] [])" % T.N(view["version"])
                    terms.append("(verdict_code (sym_verify_share %s_cap %s %s (fun _ => []) (fun _ _ => [])) =? %s)%%N" % (
                        name, T.Z(s.shnum), vs, T.N(VERDICTS.get(verdict, 9))))
                    info.append(("verifier-verdict-vs-model", case, verdict))
            g.write_share(s, raw)
            ctx.case((i, label, s.shnum), kind="sweep:%s:%s" % ("1-segment" if gen.nseg == 1 else "multi-segment", kind))
        jobs.append((pre, terms, info))


# ---- repair of files whose segments are larger than the upload default -------------------------------------------
def large_segment_repair(ctx, i):
    """A file uploaded with a max segment size above the 1 MiB default and larger than it (segment size > 1 MiB),
    some shares deleted, check_and_repair (through the read-cap node or a node made from the verify cap), then:
    old shares unchanged, verify, delete the OLD shares, verify again and read back -- the shares repair wrote must
    validate under the original cap on their own."""
    from core import grid as G
    from allmydata import uri
    from allmydata.monitor import Monitor
    r = ctx.rng("bigseg", i)
    k, n, size, mss = [(2, 4, 1200000, 1 << 21), (3, 4, 2300001, 1150000), (1, 3, 1100000, 1 << 21), (2, 5, 1500000, 1500000)][i % 4]
    size += r.randrange(0, 3000)
    data = r.randbytes(size)
    seed = r.getrandbits(30)
    via_verifycap = r.random() < 0.5
    verify = r.random() < 0.5
    case = {"i": i, "bigseg": True, "k": k, "n": n, "size": size, "max_segment_size": mss, "seed": seed, "via_verify_cap": via_verifycap, "repair_verify": verify}
    with G.Grid(num_servers=n + 1, k=k, n=n, happy=1, max_segment_size=mss, seed=seed, timeout=240) as g:
        cap = g.run(g.upload(data, convergence=b"c45L"))
        shares = g.find_shares(cap)
        orig = {s.shnum: C.split_container(g.read_share(s))[1] for s in shares}
        gone = r.sample(shares, r.randrange(1, n - k + 1))
        for s in gone:
            g.delete_share(s)
        case["deleted"] = sorted(s.shnum for s in gone)
        before = disk_state(g, cap)
        if via_verifycap:
            node = g.client(0).nodemaker._create_immutable_verifier(uri.from_string(cap).get_verify_cap())
        else:
            node = C.fresh_node(g, cap)
        out = g.run(lambda: node.check_and_repair(Monitor(), verify=verify), outcome=True, timeout=120)
        after = disk_state(g, cap)
        for key, raw in before.items():
            if key not in after or C.split_container(after[key])[1] != C.split_container(raw)[1]:
                ctx.oracle_fail("repair-altered-existing-good-share", "share %d on server %d was good before check_and_repair and is %s after" % (
                    key[1], key[0], "gone" if key not in after else "different"), case=case)
        new = sorted(key for key in after if key not in before)
        same = [key for key in new if C.split_container(after[key])[1] == orig.get(key[1])]
        ctx.count("repair-new-shares", len(new))
        ctx.count("repair-new-shares-byte-identical-to-original", len(same))
        outcome = out.error or out.status
        if out.status == "ok":
            crr = out.value
            outcome = "healthy-no-repair" if not crr.get_repair_attempted() else ("repaired" if crr.get_repair_successful() else "repair-unsuccessful")
            if not crr.get_repair_attempted():
                ctx.oracle_fail("repair-not-attempted-on-unhealthy-file", "%d of %d shares deleted but check_and_repair did not repair" % (len(gone), n), case=case)
            # verify everything that is stored now
            cr = g.run(lambda: C.fresh_node(g, cap).check(Monitor(), verify=True), outcome=True, timeout=120)
            if cr.status == "ok":
                per, agg = results_of(g, cr.value)
                for key in new:
                    if per.get(key) != "good":
                        ctx.oracle_fail("repair-wrote-invalid-share", "repair wrote share %d on server %d; verify=True under the original cap reports it %s (%s the share first uploaded)" % (
                            key[1], key[0], per.get(key, "absent"), "byte-identical to" if key in same else "different from"), case=case)
                numbers = set(sh for (_s, sh) in after)
                if crr.get_repair_successful() and (not agg[0] or len(numbers) != n):
                    ctx.oracle_fail("repair-reported-successful-without-N-good-shares",
                                    "check_and_repair reports success; verify=True afterwards: healthy=%s, %d good shares, %d corrupt (N=%d)" % (agg[0], agg[2], agg[4], n), case=case)
            else:
                ctx.oracle_fail("verify-after-repair-failed", "check(verify=True) after repair ended with %s" % (cr.error or cr.status), case=case)
        # the repaired shares alone
        if new:
            for s in g.find_shares(cap):
                if (s.server, s.shnum) in before:
                    g.delete_share(s)
            cr = g.run(lambda: C.fresh_node(g, cap).check(Monitor(), verify=True), outcome=True, timeout=120)
            if cr.status == "ok":
                per, agg = results_of(g, cr.value)
                bad = [key for key in new if per.get(key) != "good"]
                if bad:
                    ctx.oracle_fail("repaired-shares-alone-do-not-verify", "with the older shares deleted, verify=True reports %d of the %d shares written by repair not good (%s)" % (
                        len(bad), len(new), sorted(set(per.get(key, "absent") for key in bad))), case=case)
            if len(set(sh for (_s, sh) in new)) >= k:
                status, err, chunks = C.read_through(g, C.fresh_node(g, cap), 0, None, timeout=120)
                if status != "ok" or b"".join(chunks) != data:
                    ctx.oracle_fail("cannot-read-from-repaired-shares-alone", "with only the %d shares written by repair left, download gives %s" % (
                        len(new), (err or status) if status != "ok" else "wrong bytes"), case=case)
                ctx.count("read-from-repaired-shares-alone")
        ctx.case((k, n, size, mss, tuple(case["deleted"]), via_verifycap, verify), kind="large-segment-repair:" + str(outcome))


# ---- checks that also add a lease --------------------------------------------------------------------------------
def lease_checks(ctx, i):
    """Upload from client 0; afterwards some share-holding servers turn read-only or full; a SECOND client (no lease
    of its own anywhere yet) and the uploading client check the file with and without add_lease, with and without
    verify.  What a check reports must not depend on add_lease nor on whether the lease could be added."""
    from core import grid as G
    from allmydata import uri
    from allmydata.monitor import Monitor
    r = ctx.rng("lease", i)
    k = r.choice([1, 2, 3])
    n = r.choice([k + 1, k + 2, 5, 10])
    size = r.choice([56, 100, 200])
    mss = r.choice([24, 64, 128])
    data = bytes(r.getrandbits(8) for _ in range(size))
    nservers = r.choice([n, n, n + 1, max(2, n // 2)])
    seed = r.getrandbits(30)
    case = {"i": i, "lease": True, "k": k, "n": n, "size": size, "servers": nservers, "seed": seed}
    with G.Grid(num_clients=2, num_servers=nservers, k=k, n=n, happy=1, max_segment_size=mss, seed=seed, timeout=180) as g:
        cap = g.run(g.upload(data, convergence=b"c45l"))
        shares = g.find_shares(cap)
        ndel = r.choice([0, 0, 0, 1, 2])
        for s in r.sample(shares, min(ndel, len(shares))):
            g.delete_share(s)
        holders = sorted(set(s.server for s in g.find_shares(cap)))
        mode = {}
        for srv in r.sample(holders, r.randrange(1, len(holders) + 1)) if holders else []:
            mode[srv] = r.choice(["readonly", "full"])
            if mode[srv] == "readonly":
                g.set_readonly(srv, True)
            else:
                g.set_full(srv, True)
        case["deleted"] = ndel
        case["servers_closed"] = {str(a): b for a, b in sorted(mode.items())}
        before = disk_state(g, cap)
        present = sorted(set(sh for (_s, sh) in before))
        reports = {}
        order = [(c, v, a) for c in (1, 0) for v in (False, True) for a in (True, False)]
        for (client, verify, add_lease) in order:
            node = g.client(client).nodemaker._create_immutable(uri.from_string(cap))
            out = g.run(lambda: node.check(Monitor(), verify=verify, add_lease=add_lease), outcome=True, timeout=90)
            if out.status != "ok":
                ctx.oracle_fail("check-with-add-lease-failed" if add_lease else "check-without-verify-failed",
                                "check(verify=%s, add_lease=%s) from client %d ended with %s" % (verify, add_lease, client, out.error or out.status), case=case)
                continue
            per, agg = results_of(g, out.value)
            reports[(client, verify, add_lease)] = (agg, sorted(per.items()))
            if agg[0] != (len(present) == n) or agg[1] != (len(present) >= k) or agg[2] != len(present):
                ctx.oracle_fail("check-health-rule:add_lease=%s" % add_lease,
                                "%d distinct intact share numbers are stored (k=%d, N=%d; servers %s closed to new leases) but check(verify=%s, add_lease=%s) from client %d says "
                                "healthy=%s recoverable=%s good=%d" % (len(present), k, n, sorted(mode.items()), verify, add_lease, client, agg[0], agg[1], agg[2]),
                                case=dict(case, client=client, verify=verify, add_lease=add_lease), expected=[len(present) == n, len(present) >= k, len(present)], observed=list(agg[:3]))
        for (client, verify, add_lease), rep in reports.items():
            other = reports.get((client, verify, not add_lease))
            if add_lease and other is not None and other != rep:
                ctx.oracle_fail("check-result-depends-on-add-lease", "client %d, verify=%s: the check reports %s with add_lease and %s without" % (client, verify, list(rep[0]), list(other[0])),
                                case=dict(case, client=client, verify=verify))
        # check_and_repair with add_lease: no repair of a healthy file, and nothing on disk changes then
        node = g.client(1).nodemaker._create_immutable(uri.from_string(cap))
        out = g.run(lambda: node.check_and_repair(Monitor(), verify=r.random() < 0.5, add_lease=True), outcome=True, timeout=120)
        outcome = out.error or out.status
        if out.status == "ok":
            crr = out.value
            outcome = "healthy-no-repair" if not crr.get_repair_attempted() else ("repaired" if crr.get_repair_successful() else "repair-unsuccessful")
            if crr.get_repair_attempted() != (len(present) < n):
                ctx.oracle_fail("repair-attempted-on-healthy-file" if len(present) == n else "repair-not-attempted-on-unhealthy-file",
                                "%d distinct intact share numbers stored (N=%d): check_and_repair(add_lease=True) %s" % (
                                    len(present), n, "started a repair" if crr.get_repair_attempted() else "did not repair"), case=case)
        after = disk_state(g, cap)
        for key, raw in before.items():
            if key not in after or C.split_container(after[key])[1] != C.split_container(raw)[1]:
                ctx.oracle_fail("repair-altered-existing-good-share", "share %d on server %d changed during check_and_repair(add_lease=True)" % (key[1], key[0]), case=case)
        ctx.case((k, n, nservers, ndel, tuple(sorted(mode.items()))), kind="add-lease:" + str(outcome))


# ---- a server that fails in the middle of a verification -------------------------------------------------------------
def read_fault_checks(ctx, i):
    """All stored shares are genuine, but one server answers get_buckets and the first reads of one share and then
    raises on a later read of the verification (fault plan `error` / `error_after` on the n-th read of that share):
    a share whose verification could not be completed must not be reported good."""
    from core import grid as G
    from allmydata.monitor import Monitor
    r = ctx.rng("readfault", i)
    k = r.choice([1, 2, 3])
    n = r.choice([k + 1, k + 2, 5, 10])
    mss = r.choice([24, 40, 100])
    size = r.choice([56, 100, 200])
    data = bytes(r.getrandbits(8) for _ in range(size))
    nservers = r.choice([n, n, n + 1, max(2, n // 2)])
    seed = r.getrandbits(30)
    case = {"i": i, "readfault": True, "k": k, "n": n, "size": size, "max_segment_size": mss, "servers": nservers, "seed": seed}
    with G.Grid(num_servers=nservers, k=k, n=n, happy=1, max_segment_size=mss, seed=seed, timeout=180) as g:
        cap = g.run(g.upload(data, convergence=b"c45r"))
        shares = g.find_shares(cap)
        nseg = C.div_ceil(size, C.div_ceil(min(size, mss), k) * k)
        victims = r.sample(shares, r.choice([1, 1, 1, 2]))
        plan = []
        for v in victims:
            plan.append({"server": v.server, "method": "read", "shnum": v.shnum, "nth": r.randrange(0, 7 + nseg), "count": r.choice([1, 1, None]),
                         "action": r.choice(["error", "error_after"])})
        case["faults"] = plan

        def fired(trace_from):
            hit = set()
            for t in g.sched.trace[trace_from:]:
                if t[3] == "read" and t[5] in ("error", "error_after"):
                    hit.add((t[2], t[4]))
            return hit

        for (what, run) in (("check", lambda nd: nd.check(Monitor(), verify=True)), ("check_and_repair", lambda nd: nd.check_and_repair(Monitor(), verify=True))):
            g.set_faults([dict(f) for f in plan])
            mark = len(g.sched.trace)
            before = disk_state(g, cap)
            node = C.fresh_node(g, cap)
            out = g.run(lambda: run(node), outcome=True, timeout=120)
            failed = fired(mark) & set(before)
            # a failed read belongs to the verification only if it happened before any repair traffic; the repairer
            # reads through the downloader, whose failures do not concern the check results: judge the pre-repair results
            good_expected = set(before) - failed
            numbers_expected = set(sh for (_s, sh) in good_expected)
            if out.status != "ok":
                if what == "check":
                    ctx.oracle_fail("verify-failed-on-server-read-error", "check(verify=True) ended with %s when server reads failed (%s)" % (out.error or out.status, plan), case=case)
                ctx.case((i, what, repr(plan)), kind="read-fault:%s:%s" % (what, out.error or out.status))
                continue
            cr = out.value if what == "check" else out.value.get_pre_repair_results()
            per, agg = results_of(g, cr)
            if what == "check":
                for key in sorted(failed):
                    if per.get(key) == "good":
                        ctx.oracle_fail("verify-reports-share-good-though-its-reads-failed",
                                        "the server raised on a read of share %d (server %d) during verification, yet verify=True reports that share good" % (key[1], key[0]),
                                        case=case, observed={"server": key[0], "shnum": key[1]})
                for key in sorted(good_expected):
                    if per.get(key) != "good":
                        ctx.oracle_fail("verify-rejects-genuine-share", "share %d on server %d is genuine and all its reads were answered, but verify=True reports it %s" % (
                            key[1], key[0], per.get(key, "absent")), case=case)
                if agg[0] != (len(numbers_expected) == n) or agg[2] != len(numbers_expected):
                    ctx.oracle_fail("check-health-rule:verify=True", "%d distinct share numbers were verified completely (N=%d; reads failed for %s) but verify says healthy=%s good=%d" % (
                        len(numbers_expected), n, sorted(failed), agg[0], agg[2]), case=case, expected=[len(numbers_expected) == n, len(numbers_expected)], observed=[agg[0], agg[2]])
            else:
                crr = out.value
                # which reads failed during the verification phase is not separable from the repair's own reads by the
                # trace alone: use the pre-repair results' own sharemap against the rule
                pre_good = set(key for key, v in per.items() if v == "good")
                if failed and pre_good == set(before) and len(set(sh for (_s, sh) in before)) == n and not crr.get_repair_attempted():
                    ctx.oracle_fail("repair-not-attempted-on-unhealthy-file",
                                    "reads of %s failed during check_and_repair(verify=True); every share is still reported good, the file healthy, and no repair was attempted" % sorted(failed), case=case)
            ctx.case((i, what, repr(plan)) if failed else None, kind="read-fault:%s:%s" % (what, "fired" if failed else "not-reached"))
        g.set_faults([])


# ---- repair on a grid that accepts nothing ------------------------------------------------------------------------------
def closed_grid_repair(ctx, i):
    """Exactly k, k+1 (sometimes k-1 or N-1) good shares are left and EVERY server has turned read-only or full, so the
    repairer (happy=0) can place nothing.  The post-repair results must say what an independent check of the resulting
    grid says, which is what is on disk: recoverable exactly when at least k distinct good shares, healthy exactly when N."""
    from core import grid as G
    from allmydata.monitor import Monitor
    r = ctx.rng("closed", i)
    k = r.choice([1, 2, 3, 4])
    n = r.choice([x for x in [k + 1, k + 2, 2 * k + 1, 10] if x <= 10])
    mss = r.choice([24, 64, 128])
    size = r.choice([56, 100, 200])
    data = bytes(r.getrandbits(8) for _ in range(size))
    nservers = r.choice([n, n, n + 1, max(1, n // 2)])
    seed = r.getrandbits(30)
    left = [k, k, k, k + 1, k + 1, max(0, k - 1), n - 1][i % 7]
    left = min(left, n)
    verify = r.random() < 0.5
    case = {"i": i, "closed": True, "k": k, "n": n, "size": size, "servers": nservers, "seed": seed, "shares_left": left, "verify": verify}
    with G.Grid(num_servers=nservers, k=k, n=n, happy=1, max_segment_size=mss, seed=seed, timeout=180) as g:
        cap = g.run(g.upload(data, convergence=b"c45c"))
        shares = g.find_shares(cap)
        numbers = sorted(set(s.shnum for s in shares))
        keep_numbers = set(r.sample(numbers, min(left, len(numbers))))
        for s in shares:
            if s.shnum not in keep_numbers:
                g.delete_share(s)
        closed = {}
        for srv in range(nservers):
            closed[srv] = r.choice(["readonly", "full"])
            if closed[srv] == "readonly":
                g.set_readonly(srv, True)
            else:
                g.set_full(srv, True)
        before = disk_state(g, cap)
        out = g.run(lambda: C.fresh_node(g, cap).check_and_repair(Monitor(), verify=verify), outcome=True, timeout=120)
        after = disk_state(g, cap)
        new = sorted(key for key in after if key not in before)
        for key, raw in before.items():
            if key not in after or C.split_container(after[key])[1] != C.split_container(raw)[1]:
                ctx.oracle_fail("repair-altered-existing-good-share", "share %d on server %d changed during check_and_repair on a closed grid" % (key[1], key[0]), case=case)
        distinct = len(set(sh for (_s, sh) in after))
        outcome = out.error or out.status
        if out.status == "ok":
            crr = out.value
            outcome = "healthy-no-repair" if not crr.get_repair_attempted() else ("repaired" if crr.get_repair_successful() else "repair-unsuccessful")
            post_per, post = results_of(g, crr.get_post_repair_results())
            ind = g.run(lambda: C.fresh_node(g, cap).check(Monitor(), verify=verify), outcome=True, timeout=90)
            if ind.status == "ok":
                _p, ind_agg = results_of(g, ind.value)
                if (post[0], post[1], post[2]) != (ind_agg[0], ind_agg[1], ind_agg[2]):
                    ctx.oracle_fail("post-repair-results-differ-from-independent-check",
                                    "after check_and_repair(verify=%s) with %d distinct good shares stored (k=%d, N=%d, every server closed, %d shares placed): post-repair results say "
                                    "healthy=%s recoverable=%s good=%d, an independent check of the same grid says healthy=%s recoverable=%s good=%d" % (
                                        verify, distinct, k, n, len(new), post[0], post[1], post[2], ind_agg[0], ind_agg[1], ind_agg[2]),
                                    case=case, expected=list(ind_agg[:3]), observed=list(post[:3]))
            if post[1] != (distinct >= k) or post[0] != (distinct == n):
                ctx.oracle_fail("post-repair-health-rule", "%d distinct good shares are stored after check_and_repair (k=%d, N=%d) but the post-repair results say healthy=%s recoverable=%s" % (
                    distinct, k, n, post[0], post[1]), case=case, expected=[distinct == n, distinct >= k], observed=list(post[:2]))
            prr = crr.get_post_repair_results()
            if (prr.get_version_counter_recoverable(), prr.get_version_counter_unrecoverable()) != ((1, 0) if distinct >= k else (0, 1)):
                ctx.oracle_fail("post-repair-health-rule", "%d distinct good shares (k=%d): post-repair results count %d recoverable / %d unrecoverable versions" % (
                    distinct, k, prr.get_version_counter_recoverable(), prr.get_version_counter_unrecoverable()), case=case)
        if distinct >= k:
            status, err, chunks = C.read_through(g, C.fresh_node(g, cap), 0, None, timeout=90)
            if status != "ok" or b"".join(chunks) != data:
                ctx.oracle_fail("cannot-read-recoverable-file", "%d distinct good shares stored (k=%d) but download gives %s" % (distinct, k, (err or status) if status != "ok" else "wrong bytes"), case=case)
        ctx.case((k, n, nservers, left, verify, tuple(sorted(closed.items()))), kind="closed-grid:k%+d-left:%s" % (left - k, outcome))


# ---- files whose UEB disagrees with the cap ------------------------------------------------------------------
UEB_EDITS = [
    ("size+1", lambda d: d.update(size=d["size"] + 1), False),
    ("size-1", lambda d: d.update(size=d["size"] - 1), False),
    ("num_segments+1", lambda d: d.update(num_segments=d["num_segments"] + 1), False),
    ("needed_shares+1", lambda d: d.update(needed_shares=d["needed_shares"] + 1), False),
    ("total_shares-1", lambda d: d.update(total_shares=d["total_shares"] - 1), False),
    ("codec_name", lambda d: d.update(codec_name=b"xor"), False),
    ("codec_params-k", lambda d: d.update(codec_params=b"%d-%d-%d" % (d["segment_size"], d["needed_shares"] + 1, d["total_shares"])), False),
    ("tail_codec_params-size", lambda d: d.update(tail_codec_params=b"%d-%d-%d" % (int(d["tail_codec_params"].split(b"-")[0]) + d["needed_shares"], d["needed_shares"], d["total_shares"])), False),
    ("crypttext_hash-short", lambda d: d.update(crypttext_hash=d["crypttext_hash"][:31]), False),
    ("drop-size", lambda d: d.pop("size"), True),
    ("drop-num_segments", lambda d: d.pop("num_segments"), True),
    ("drop-codec", lambda d: (d.pop("codec_name"), d.pop("codec_params"), d.pop("tail_codec_params")), True),
    ("drop-shares", lambda d: (d.pop("needed_shares"), d.pop("total_shares")), True),
    ("drop-crypttext_hash", lambda d: d.pop("crypttext_hash"), True),
    ("unchanged", lambda d: None, True),
]


def coq_ueb(d, namer):
    def p3(s):
        if s is None:
            return "None"
        a, b, c = (int(x) for x in s.split(b"-"))
        return "(Some (%s, %s, %s))" % (T.N(a), T.N(b), T.N(c))

    def on(key):
        return "(Some %s)" % T.N(d[key]) if key in d else "None"
    return "(mkUeb %s %s %s %s %s %s %s %s %s %s %s)" % (
        T.N(d["segment_size"]), namer(d["crypttext_root_hash"]), namer(d["share_root_hash"]), T.boolean(d.get("codec_name", b"crs") == b"crs"),
        p3(d.get("codec_params")), p3(d.get("tail_codec_params")), on("num_segments"), on("size"), on("needed_shares"), on("total_shares"),
        "(Some %s)" % T.N(len(d["crypttext_hash"])) if "crypttext_hash" in d else "None")


def inconsistent_ueb(ctx, i, jobs):
    """An uploader that wrote a UEB whose redundant fields disagree with the cap (the cap's hash matches that UEB)."""
    from core import grid as G
    from allmydata import uri
    from allmydata.monitor import Monitor
    r = ctx.rng("ueb", i)
    k = r.choice([1, 2, 3])
    n = r.choice([k, k + 1, k + 3])
    mss = r.choice([24, 40, 64])
    size = max(56, r.choice([56, 100, 131, 2 * mss]))
    data = bytes(r.getrandbits(8) for _ in range(size))
    label, edit, consistent = UEB_EDITS[i % len(UEB_EDITS)]
    name = "U%d" % i
    case = {"i": i, "k": k, "n": n, "size": size, "max_segment_size": mss, "ueb_edit": label}
    with G.Grid(num_servers=n, k=k, n=n, happy=1, max_segment_size=mss, seed=i, timeout=180) as g:
        cap, shares, raws0, gen = C.upload_file(g, data, conv=b"c45u")
        d = dict(gen.ueb)
        edit(d)
        new_ueb = uri.pack_extension(d)
        for s in shares:
            head, pay, leases = C.split_container(g.read_share(s))
            ver, fs, offs = C.parse_header(pay)
            newp = pay[:offs["uri_extension"]] + struct.pack(">L" if fs == 4 else ">Q", len(new_ueb)) + new_ueb
            g.write_share(s, C.join_container(head, newp, leases))
        cap2 = uri.CHKFileURI(gen.u.key, C.ueb_hash(new_ueb), k, n, size).to_string()
        node = C.fresh_node(g, cap2)
        out = g.run(lambda: node.check(Monitor(), verify=True), outcome=True, timeout=90)
        if out.status == "ok":
            per, agg = results_of(g, out.value)
            good = sorted(sh for (_s, sh), v in per.items() if v == "good")
            code = 0 if len(good) == n else (1 if not good else 8)
            if not consistent and good:
                ctx.oracle_fail("verify-accepts-ueb-inconsistent-with-cap", "UEB edited (%s) so that it disagrees with the capability; verify=True still reports shares %s good" % (label, good), case=case)
        else:
            code = 3
            if consistent:
                ctx.oracle_fail("verify-rejects-consistent-ueb", "UEB edited (%s) without contradicting the capability; verify=True ended with %s" % (label, out.error or out.status), case=case)
        namer = C.Namer(name, gen)
        pre = C.preamble_for(name, gen, namer)
        pre += "Definition %s_ueb2 : ub := UbOk %s.\nDefinition %s_cap2 := mkCap [] (sym_ueb_hash %s_ueb2) %s %s %s.\n" % (name, coq_ueb(d, namer), name, name, T.N(k), T.N(n), T.N(size))
        s0 = shares[0]
        gen2 = gen
        view = vshare_view(C.split_container(g.read_share(s0))[1], gen)
        view["ueb"] = ("bytes", gen.ueb_bytes)          # rendered as the edited UEB term below
        term = "(verdict_code (sym_verify_share %s_cap2 %s %s (fun _ => []) (fun _ _ => [])) =? %s)%%N" % (
            name, T.Z(s0.shnum), coq_vshare(view, gen2, name, namer, ueb_term=name + "_ueb2"), T.N(code))
        jobs.append((pre, [term], [("ueb-consistency-vs-model", case, out.error or out.status)]))
        ctx.case((label, k, n, size), kind="ueb-edit:" + ("consistent" if consistent else "inconsistent"))


def run(ctx):
    for name in ("verifier-verdict-vs-model", "health-decision-vs-model", "post-repair-decision-vs-model", "ueb-consistency-vs-model"):
        ctx.correspondence(name)
    jobs = []
    for i in range(ctx.n(60, 700)):
        history(ctx, i, jobs)
    for i in range(ctx.n(30, 150)):
        history(ctx, i, jobs, layout=LAYOUTS[i % len(LAYOUTS)])
    for i in range(ctx.n(15, 60)):
        inconsistent_ueb(ctx, i, jobs)
    for i in range(ctx.n(6, 40)):
        field_sweep(ctx, i, jobs)
    for i in range(ctx.n(2, 12)):
        large_segment_repair(ctx, i)
    for i in range(ctx.n(12, 120)):
        lease_checks(ctx, i)
    for i in range(ctx.n(20, 200)):
        read_fault_checks(ctx, i)
    for i in range(ctx.n(14, 140)):
        closed_grid_repair(ctx, i)
    evaluate(ctx, jobs)


def replay(ctx, record):
    """Re-run the single recorded history (its random choices derive from (seed, property, index))."""
    case = record.get("case") or {}
    if "i" not in case:
        return {"note": "record names no case index"}
    jobs = []
    if case.get("closed"):
        closed_grid_repair(ctx, case["i"])
        return {"i": case["i"]}
    if case.get("readfault"):
        read_fault_checks(ctx, case["i"])
        return {"i": case["i"]}
    if case.get("lease"):
        lease_checks(ctx, case["i"])
        return {"i": case["i"]}
    if case.get("bigseg"):
        large_segment_repair(ctx, case["i"])
        return {"i": case["i"]}
    if case.get("sweep"):
        field_sweep(ctx, case["i"], jobs)
    elif "ueb_edit" in case:
        inconsistent_ueb(ctx, case["i"], jobs)
    elif "layout" in case:
        history(ctx, case["i"], jobs, layout=[l for l in LAYOUTS if l[0] == case["layout"]][0])
    else:
        history(ctx, case["i"], jobs)
    evaluate(ctx, jobs)
    return {"i": case["i"], "model_terms": sum(len(t) for _p, t, _i in jobs)}


def evaluate(ctx, jobs):
    # evaluate the model: group the per-file jobs so that a handful of coqc processes run concurrently
    groups = []
    for j in range(0, len(jobs), 10):
        chunk = jobs[j:j + 10]
        groups.append(("\n".join(p for p, _t, _i in chunk), [t for _p, ts, _i in chunk for t in ts], [x for _p, _t, inf in chunk for x in inf]))
    results = coq_check_parallel(ctx, [(p, t) for p, t, _i in groups])
    for (pre, terms, info), bad in zip(groups, results):
        for ix in bad:
            corr, case, obs = info[ix]
            ctx.mismatch(corr + "-differs", "implementation (%s) and Model/ImmCheck.v disagree on %s" % (obs, corr), case=case, observed=obs, correspondence=corr)
        ctx.trace(len(terms) - len(bad))


def coq_check_parallel(ctx, jobs):
    import concurrent.futures

    def one(ix):
        pre, terms = jobs[ix]
        return ctx.coq_check(IMPORTS, terms, preamble=pre, tag="c45j%d" % ix, shard=400)
    with concurrent.futures.ThreadPoolExecutor(max_workers=8) as ex:
        return list(ex.map(one, range(len(jobs))))
