"""C16  Capabilities attenuate correctly."""
import hashlib

from core import term as T
from props import uri_common as U

ID = "C16"
GEN = ["hashutil", "uri"]
RULE = ("cases: (a) every cap kind (9 file kinds x file/directory wrapper) with random secrets: get_readonly, "
        "get_verify_cap (also of the derived caps), is_readonly, is_mutable, storage index, compared with the model and "
        "with an independent hashlib derivation; (b) cap strings (valid, mutated, random, future-test) under every prefix "
        "('', ro., imm.) x deep_immutable in {False, True}, also through the typed entry points from_string_dirnode/"
        "_filenode/_mutable_filenode/_verifier with deep_immutable= and name=; (c) UnknownNode(rw, ro, deep_immutable) over None / empty / "
        "unknown / known strings with every prefix, and NodeMaker.create_from_cap in both contexts; (d) histories of 6-10 "
        "create_from_cap calls on one NodeMaker with every node kept alive (same cap in the ordinary and in the "
        "deep-immutable context in both orders, both slots, prefixed variants), each answer compared with a fresh "
        "NodeMaker's; (e) children (known caps of every kind and unknown caps with none/ro./imm./doubled prefixes in "
        "either slot) attached through NodeMaker to SSK, MDMF and deep-immutable directories, serialized by the real "
        "dirnode pack code and read back by _unpack_contents through the write cap, the read cap and after a rewrite, "
        "with a NodeMaker whose access.blacklist lists about half of the children (ProhibitedNode wrappers); the same children linked with {no-write: true} "
        "through Adder and MetadataSetter (no write cap may remain in the stored entry); every node "
        "class, bare and wrapped, is asked for get_uri/get_write_uri/get_readonly_uri/get_readcap.  "
        "distinct non-trivial "
        "= distinct (cap, operation) or (string, prefix, context) that reach a known kind's parser or a non-opaque node")
META = {
    "title": "Capabilities attenuate correctly",
    "level_text": ("Theorems in Coq over the executable model of uri.py/unknown.py: along write->read->verify the storage index "
                   "and fingerprint (UEB hash, k/N/size) are preserved and are the hashutil derivations; derived caps have no "
                   "field for the stronger secret and are functions of its hash only; is_readonly/is_mutable agree with the "
                   "keys held; for EVERY string s, from_string('ro.'+s) is never writeable and from_string('imm.'+s) or a "
                   "deep-immutable context never mutable; UnknownNode never keeps a write cap in a deep-immutable context, "
                   "is opaque on error, and always prefixes its read cap."),
    "level_note": ("No cryptographic claim: one-wayness of SHA-256d is not modelled (the derived cap is shown to depend on the "
                   "secret only through the hash).  NodeMaker.create_from_cap is modelled down to which node class is built "
                   "around which cap and to the node cache (keys, only mutable nodes cached, entries may vanish); the nodes' "
                   "other behaviour is not."),
    "technique": "Coq proof over a hand-written model pinned to regenerated tables + differential run + direct oracle",
    "design_ref": "8/C16",
    "trusted_base": ["translator harness/translate/uri.py", "Gen/Hashutil.v (C17)"],
    "assumptions": [],
}

IMPORTS = U.IMPORTS + ["Model.UriNodes"]
WRITE_KINDS = ("SSK", "MDMF")
MUTABLE_KINDS = ("SSK", "SSKRO", "MDMF", "MDMFRO")
VERIFY_OF = {"CHK": "CHKVerifier", "CHKVerifier": "CHKVerifier", "LIT": None, "SSK": "SSKVerifier", "SSKRO": "SSKVerifier",
             "SSKVerifier": "SSKVerifier", "MDMF": "MDMFVerifier", "MDMFRO": "MDMFVerifier", "MDMFVerifier": "MDMFVerifier"}
RO_OF = {"SSK": "SSKRO", "MDMF": "MDMFRO"}


def _ns(b):
    return b"%d:" % len(b) + b + b","


def _tag(tag, val, n=16):
    return hashlib.sha256(hashlib.sha256(_ns(tag) + val).digest()).digest()[:n]


def spec_si(kind, fields):
    """Storage index by the documented derivation (hashlib only)."""
    if kind == "CHK":
        return _tag(b"allmydata_immutable_key_to_storage_index_v1", fields[0])
    if kind in ("SSK", "MDMF"):
        rk = _tag(b"allmydata_mutable_writekey_to_readkey_v1", fields[0])
        return _tag(b"allmydata_mutable_readkey_to_storage_index_v1", rk)
    if kind in ("SSKRO", "MDMFRO"):
        return _tag(b"allmydata_mutable_readkey_to_storage_index_v1", fields[0])
    if kind == "LIT":
        return None
    return fields[0]


def b32(b):
    from allmydata.util import base32
    return base32.b2a(b)


def opt(x, f):
    return "None" if x is None else "(Some %s)" % f(x)


def safe(f):
    try:
        return ("ok", f())
    except Exception as e:
        return ("raises", type(e).__name__)


def attenuation(ctx):
    u = U.uri_mod()
    ctx.correspondence("attenuation-vs-model")
    terms, info = [], []
    n = ctx.n(72, 720)
    for i in range(n):
        r = ctx.rng("att", i)
        kind = U.FILE_KINDS[i % 9]
        is_dir = (i // 9) % 2 == 1
        fields = U.gen_fields(r, kind)
        fields = tuple((x % 2 ** 70) if isinstance(x, int) else x for x in fields)
        c = U.make_cap(kind, fields, is_dir)
        cname = type(c).__name__
        d = U.describe(c)
        case = {"class": cname, "string": U.show(c.to_string())}
        ctx.case((cname, c.to_string()), kind="attenuate:" + cname)
        if i < 3:
            ctx.sample(case)

        def fail(kind_, what, expected=None, observed=None):
            ctx.oracle_fail(kind_, "%s: %s" % (cname, what), case=case, expected=expected, observed=observed)

        ro = safe(c.get_readonly)
        vc = safe(c.get_verify_cap)
        if ro[0] != "ok" or vc[0] != "ok":
            fail("attenuation-raises", "get_readonly/get_verify_cap raises %s/%s" % (ro, vc))
            continue
        ro, vc = ro[1], vc[1]
        # ---- flags (specification: write caps are exactly those holding a write key)
        want_ro = kind not in WRITE_KINDS
        want_mut = kind in MUTABLE_KINDS
        if c.is_readonly() != want_ro:
            fail("flag-is-readonly-wrong:" + cname, "is_readonly() = %s" % c.is_readonly(), want_ro, c.is_readonly())
        if c.is_mutable() != want_mut:
            fail("flag-is-mutable-wrong:" + cname, "is_mutable() = %s" % c.is_mutable(), want_mut, c.is_mutable())
        # ---- read-only cap
        ro_s = safe(ro.to_string)
        if ro_s[0] != "ok":
            fail("readonly-cap-unprintable:" + cname, "get_readonly().to_string() raises " + ro_s[1])
            continue
        if not ro.is_readonly() or ro.is_mutable() != want_mut:
            fail("readonly-cap-flags-wrong:" + cname, "get_readonly() has is_readonly=%s is_mutable=%s" % (ro.is_readonly(), ro.is_mutable()))
        if want_ro and ro.to_string() != c.to_string():
            fail("readonly-of-readonly-differs:" + cname, "get_readonly() of a read-only cap is a different cap")
        inner_ro = ro.get_filenode_cap() if is_dir else ro
        if hasattr(inner_ro, "writekey") or (kind in WRITE_KINDS and b32(fields[0]) in ro.to_string().split(b":")):
            fail("readonly-cap-carries-writekey:" + cname, "the read-only cap still holds the write key", None, U.show(ro.to_string()))
        si = spec_si(kind, fields)
        if ro.get_storage_index() != si or c.get_storage_index() != si:
            fail("storage-index-differs-along-chain:" + cname, "storage index of cap / read-only cap is not the specified derivation",
                 si.hex() if si else None, [x.hex() if x else None for x in (c.get_storage_index(), ro.get_storage_index())])
        if kind in WRITE_KINDS:
            want = U.describe(U.make_cap(RO_OF[kind], (_tag(b"allmydata_mutable_writekey_to_readkey_v1", fields[0]), fields[1]), is_dir))
            if U.describe(ro) != want:
                fail("readonly-cap-wrong:" + cname, "get_readonly() is not (H(writekey), fingerprint)", U.jcase(want), U.jcase(U.describe(ro)))
        # ---- verify cap
        vkind = VERIFY_OF[kind]
        if vkind is None:
            if vc is not None:
                fail("verify-cap-wrong:" + cname, "LIT caps have no verify cap", None, repr(vc))
        else:
            vs = safe(vc.to_string)
            if vs[0] != "ok":
                fail("verify-cap-unprintable:" + cname, "get_verify_cap().to_string() raises " + vs[1])
                continue
            rest = fields[1:]
            want = U.describe(U.make_cap(vkind, (si,) + tuple(rest), is_dir))
            if U.describe(vc) != want:
                fail("verify-cap-wrong:" + cname, "get_verify_cap() is not (storage index, fingerprint/UEB hash...)", U.jcase(want), U.jcase(U.describe(vc)))
            if not vc.is_readonly() or vc.is_mutable():
                fail("verify-cap-flags-wrong:" + cname, "verify cap has is_readonly=%s is_mutable=%s" % (vc.is_readonly(), vc.is_mutable()))
            inner_v = vc.get_filenode_cap() if is_dir else vc
            secrets = [fields[0]] if kind in ("CHK", "SSK", "SSKRO", "MDMF", "MDMFRO") else []
            if kind in WRITE_KINDS:
                secrets.append(_tag(b"allmydata_mutable_writekey_to_readkey_v1", fields[0]))
            if any(hasattr(inner_v, a) for a in ("writekey", "readkey", "key")) or any(b32(x) in vc.to_string().split(b":") for x in secrets):
                fail("verify-cap-carries-secret:" + cname, "the verify cap still holds a read or write secret", None, U.show(vc.to_string()))
            via_ro = safe(lambda: ro.get_verify_cap().to_string())
            if via_ro != ("ok", vc.to_string()):
                fail("verify-cap-depends-on-route:" + cname, "get_readonly().get_verify_cap() differs from get_verify_cap()", U.show(vc.to_string()), via_ro)
            again = safe(lambda: vc.get_verify_cap().to_string())
            if again != ("ok", vc.to_string()):
                fail("verify-cap-of-dir-verifier-broken" if is_dir else "verify-cap-of-verifier-wrong:" + cname,
                     "get_verify_cap() of the verify cap is not the verify cap itself", U.show(vc.to_string()), again)
        # ---- model
        ct = U.cap_term(d)
        terms.append("opt_eqb cap_eqb (get_readonly %s) (Some %s)" % (ct, U.cap_term(U.describe(ro))))
        info.append(("get_readonly", cname, case))
        terms.append("opt_eqb cap_eqb (get_verify_cap %s) %s" % (ct, U.opt_cap_term(U.describe(vc))))
        info.append(("get_verify_cap", cname, case))
        terms.append("opt_eqb Bool.eqb (is_readonly %s) (Some %s) && opt_eqb Bool.eqb (is_mutable %s) (Some %s)" % (
            ct, T.boolean(c.is_readonly()), ct, T.boolean(c.is_mutable())))
        info.append(("flags", cname, case))
        terms.append("opt_eqb list_N_eqb (storage_index %s) %s" % (ct, opt(c.get_storage_index(), T.bytes_)))
        info.append(("storage_index", cname, case))
    bad = ctx.coq_check(IMPORTS, terms, tag="c16att", shard=100)
    for ix in bad:
        fn, cname, case = info[ix]
        ctx.mismatch("model-vs-impl:" + fn, "Model %s and %s.%s differ" % (fn, cname, fn), case=case, correspondence="attenuation-vs-model")
    ctx.trace(len(terms) - len(bad))


FUTURE = [b"x-tahoe-future-test-writeable:abc", b"x-tahoe-future-test-mutable:abc", b"x-tahoe-future-test-writeable:",
          b"lafs://from_the_future", b"x-tahoe-crazy://I_am_from_the_future.", b"", b"URI:", b"ro.", b"imm."]


def prefixes(ctx):
    u = U.uri_mod()
    ctx.correspondence("prefix-and-context-vs-model")
    terms, info = [], []
    n = ctx.n(45, 450)
    for i in range(n):
        r = ctx.rng("pre", i)
        kind = U.FILE_KINDS[i % 9]
        is_dir = (i // 9) % 2 == 1
        fields = tuple((x % 2 ** 40) if isinstance(x, int) else x for x in U.gen_fields(r, kind))
        c = U.make_cap(kind, fields, is_dir)
        base = c.to_string()
        how = "valid"
        if i % 5 == 3:
            how, base = U.mutate(r, base, r.choice(["append-newline", "wrong-tail-128", "leading-zero", "extension", "swap-prefix",
                                                     "upper-case", "ro-prefix", "imm-prefix", "double-prefix", "field-shorter"]))
        elif i % 5 == 4:
            how, base = "future", r.choice(FUTURE + [U.random_printable(r)])
        writeable = how == "valid" and kind in WRITE_KINDS
        mutable = how == "valid" and kind in MUTABLE_KINDS
        for prefix in (b"", b"ro.", b"imm."):
            for di in (False, True):
                s = prefix + base
                o = U.impl_from_string(s, di)
                case = {"string": s.hex(), "printable": U.show(s), "deep_immutable": di, "base": how}
                reach = o[0] == "ok" and o[1][0] != "unknown"
                ctx.case((s, di) if (reach or how == "valid") else None, kind="context:%s:%s:%s" % (prefix.decode() or "none", "deep-immutable" if di else "mutable-ok", how))
                if o[0] != "ok":
                    ctx.oracle_fail("from-string-raises:" + o[0], "uri.from_string(%s, deep_immutable=%s) raises %s" % (U.show(s), di, o[0]), case=case)
                    continue
                cap = o[2]
                unknown = isinstance(cap, u.UnknownURI)
                if not unknown:
                    if (prefix or di) and not cap.is_readonly():
                        ctx.oracle_fail("alleged-prefix-upgraded-to-writeable", "from_string(%s, deep_immutable=%s) is a writeable %s" % (U.show(s), di, type(cap).__name__),
                                        case=case, expected="read-only or unknown", observed=type(cap).__name__)
                    if (prefix == b"imm." or di) and cap.is_mutable():
                        ctx.oracle_fail("alleged-immutable-interpreted-as-mutable", "from_string(%s, deep_immutable=%s) is a mutable %s" % (U.show(s), di, type(cap).__name__),
                                        case=case, expected="immutable or unknown", observed=type(cap).__name__)
                else:
                    if cap.to_string() != s:
                        ctx.oracle_fail("unknown-does-not-keep-string", "UnknownURI of %s holds %s" % (U.show(s), U.show(cap.to_string())), case=case)
                if how == "valid":
                    forbidden = (writeable and (prefix or di)) or (mutable and (prefix == b"imm." or di))
                    if forbidden:
                        want_err = "MustBeDeepImmutableError" if (prefix == b"imm." or di) else "MustBeReadonlyError"
                        got_err = type(cap.get_error()).__name__ if unknown and cap.get_error() is not None else None
                        if not unknown or got_err != want_err:
                            ctx.oracle_fail("constraint-violation-not-recorded", "%s in context prefix=%r deep_immutable=%s: expected UnknownURI with %s, got %s/%s" % (
                                type(c).__name__, prefix, di, want_err, type(cap).__name__, got_err), case=case, expected=want_err, observed=got_err)
                    elif unknown or U.describe(cap) != U.describe(c):
                        ctx.oracle_fail("allowed-cap-rejected-in-context", "%s is allowed with prefix=%r deep_immutable=%s but came back as %s" % (
                            type(c).__name__, prefix, di, type(cap).__name__), case=case, expected=type(c).__name__, observed=type(cap).__name__)
                terms.append("outcome_eqb (from_string %s %s) %s" % (T.boolean(di), T.bytes_(s), U.outcome_term(o)))
                info.append(case)
    bad = ctx.coq_check(IMPORTS, terms, tag="c16pre", shard=100)
    for ix in bad:
        ctx.mismatch("model-vs-impl:from_string-context", "Model from_string and uri.from_string differ on %s (deep_immutable=%s)" % (
            info[ix]["printable"], info[ix]["deep_immutable"]), case=info[ix], correspondence="prefix-and-context-vs-model")
    ctx.trace(len(terms) - len(bad))


def unknown_nodes(ctx):
    from allmydata.unknown import UnknownNode
    from allmydata.nodemaker import NodeMaker
    u = U.uri_mod()
    ctx.correspondence("unknown-node-vs-model")
    terms, info = [], []
    nm = NodeMaker(None, None, None, None, None, {"k": 3, "n": 10}, None, None)
    n = ctx.n(110, 1300)
    for i in range(n):
        r = ctx.rng("unk", i)

        def pick():
            c = r.random()
            if c < 0.12:
                return None
            if c < 0.18:
                return b""
            if c < 0.55:
                base = r.choice(FUTURE[:5] + [b"lafs://other", b"URI:FUTURE:abc"])
            else:
                kind, is_dir, fields, cap = U.gen_cap(r)
                fields = tuple((x % 2 ** 30) if isinstance(x, int) else x for x in fields)
                base = U.make_cap(kind, fields, is_dir).to_string()
                if r.random() < 0.15:
                    base = U.mutate(r, base, r.choice(["append-newline", "wrong-tail-256", "leading-zero"]))[1]
            return r.choice([b"", b"", b"ro.", b"imm.", b"ro.imm.", b"imm.ro."]) + base
        rw, ro, di = pick(), pick(), r.random() < 0.5
        case = {"rw": None if rw is None else U.show(rw), "ro": None if ro is None else U.show(ro), "deep_immutable": di,
                "rw_hex": None if rw is None else rw.hex(), "ro_hex": None if ro is None else ro.hex()}
        try:
            node = UnknownNode(rw, ro, deep_immutable=di)
        except Exception as e:
            ctx.case(None, kind="unknown-node:raises")
            ctx.oracle_fail("unknown-node-raises:" + type(e).__name__, "UnknownNode(%r, %r, deep_immutable=%s) raises %s" % (rw, ro, di, type(e).__name__), case=case)
            continue
        err = type(node.error).__name__ if node.error is not None else None
        ctx.case((rw, ro, di) if err is None else None, kind="unknown-node:" + ("opaque" if err else "kept"))
        if i < 2:
            ctx.sample(dict(case, error=err, rw_uri=None if node.rw_uri is None else U.show(node.rw_uri), ro_uri=None if node.ro_uri is None else U.show(node.ro_uri)))
        # ---- the rules, on the implementation
        if di and node.rw_uri is not None:
            ctx.oracle_fail("unknown-node-keeps-rw-in-immutable-context", "UnknownNode keeps rw_uri %s in a deep-immutable context" % U.show(node.rw_uri), case=case)
        if err and (node.rw_uri is not None or node.ro_uri is not None):
            ctx.oracle_fail("unknown-node-with-error-not-opaque", "UnknownNode records %s but keeps caps" % err, case=case)
        if node.ro_uri is not None:
            if not (node.ro_uri.startswith(b"ro.") or node.ro_uri.startswith(b"imm.")) or (di and not node.ro_uri.startswith(b"imm.")):
                ctx.oracle_fail("unknown-node-ro-uri-not-prefixed", "UnknownNode ro_uri %s lacks the %s prefix" % (U.show(node.ro_uri), "imm." if di else "ro./imm."), case=case)
            # the stored read cap must itself never parse as writeable (or, when imm., as mutable)
            back = U.impl_from_string(node.ro_uri, di)
            if back[0] == "ok" and not isinstance(back[2], u.UnknownURI) and (not back[2].is_readonly() or (di and back[2].is_mutable())):
                ctx.oracle_fail("unknown-node-ro-uri-is-writeable", "UnknownNode ro_uri %s parses as a writeable/mutable cap" % U.show(node.ro_uri), case=case)
        if node.rw_uri is not None and (node.rw_uri != rw or not ro):
            ctx.oracle_fail("unknown-node-rw-uri-invented", "UnknownNode rw_uri %s was not given as such, or without a separate read cap" % U.show(node.rw_uri), case=case)
        if node.get_write_uri() != node.rw_uri or node.get_readonly_uri() != node.ro_uri or node.get_uri() != (node.rw_uri or node.ro_uri):
            ctx.oracle_fail("unknown-node-accessors-inconsistent", "get_write_uri/get_readonly_uri/get_uri disagree with the slots", case=case)
        want = "(UOk {| un_error := %s; un_rw := %s; un_ro := %s |})" % (U.ERR.get(err, "EBadURI"), opt(node.rw_uri, T.bytes_), opt(node.ro_uri, T.bytes_))
        if err not in U.ERR:
            ctx.oracle_fail("unknown-node-unexpected-error:" + str(err), "UnknownNode records an error of class %s" % err, case=case)
        terms.append("unode_outcome_eqb (unknown_node %s %s %s) %s" % (opt(rw, T.bytes_), opt(ro, T.bytes_), T.boolean(di), want))
        info.append(case)

        # ---- NodeMaker.create_from_cap with the same strings (writecap slot, readcap slot)
        try:
            nd = nm.create_from_cap(rw, ro, deep_immutable=di)
        except Exception as e:
            ctx.oracle_fail("create-from-cap-raises:" + type(e).__name__, "NodeMaker.create_from_cap(%r, %r, deep_immutable=%s) raises" % (rw, ro, di), case=case)
            continue
        ctx.case(None, kind="create_from_cap:" + type(nd).__name__)
        if isinstance(nd, UnknownNode):
            if di and nd.get_write_uri() is not None:
                ctx.oracle_fail("unknown-node-keeps-rw-in-immutable-context", "create_from_cap gives an UnknownNode with a write cap in a deep-immutable context", case=case)
        else:
            readonly = nd.is_readonly() if hasattr(nd, "is_readonly") else True      # CiphertextFileNode: verify cap only
            if di and (nd.is_mutable() or not readonly):
                ctx.oracle_fail("alleged-immutable-interpreted-as-mutable", "create_from_cap(deep_immutable=True) built a mutable/writeable %s" % type(nd).__name__, case=case)
            big = rw or ro
            if (big.startswith(b"ro.") or big.startswith(b"imm.")) and not readonly:
                ctx.oracle_fail("alleged-prefix-upgraded-to-writeable", "create_from_cap of %s built a writeable %s" % (U.show(big), type(nd).__name__), case=case)
            if big.startswith(b"imm.") and nd.is_mutable():
                ctx.oracle_fail("alleged-immutable-interpreted-as-mutable", "create_from_cap of %s built a mutable %s" % (U.show(big), type(nd).__name__), case=case)
    bad = ctx.coq_check(IMPORTS, terms, tag="c16unk", shard=100)
    for ix in bad:
        ctx.mismatch("model-vs-impl:UnknownNode", "Model unknown_node and UnknownNode(%s, %s, deep_immutable=%s) differ" % (
            info[ix]["rw"], info[ix]["ro"], info[ix]["deep_immutable"]), case=info[ix], correspondence="unknown-node-vs-model")
    ctx.trace(len(terms) - len(bad))


def node_view(nd):
    """Canonical observable of what create_from_cap returned."""
    from allmydata.unknown import UnknownNode
    if isinstance(nd, UnknownNode):
        return ("unknown", type(nd.error).__name__ if nd.error is not None else None, nd.rw_uri, nd.ro_uri)
    cap = nd.get_verify_cap() if type(nd).__name__ == "CiphertextFileNode" else nd.get_cap()
    readonly = nd.is_readonly() if hasattr(nd, "is_readonly") else True
    return ("node", type(nd).__name__, cap.to_string(), bool(nd.is_mutable()), bool(readonly))


def made_term(nd):
    from allmydata.unknown import UnknownNode
    if isinstance(nd, UnknownNode):
        err = type(nd.error).__name__ if nd.error is not None else None
        return "(MUnknown (UOk {| un_error := %s; un_rw := %s; un_ro := %s |}))" % (U.ERR.get(err, "EBadURI"), opt(nd.rw_uri, T.bytes_), opt(nd.ro_uri, T.bytes_))
    cap = nd.get_verify_cap() if type(nd).__name__ == "CiphertextFileNode" else nd.get_cap()
    return "(MNode %s)" % U.cap_term(U.describe(cap))


def histories(ctx):
    """Sequences of create_from_cap calls on ONE NodeMaker whose nodes stay alive (the node cache
    is a WeakValueDictionary): every answer must respect its own context whatever was asked before,
    and equal the answer of a fresh NodeMaker."""
    from allmydata.nodemaker import NodeMaker
    ctx.correspondence("nodemaker-history-vs-model")

    def maker():
        return NodeMaker(None, None, None, None, None, {"k": 3, "n": 10}, None, None)
    terms, info = [], []
    n = ctx.n(18, 180)
    for i in range(n):
        r = ctx.rng("hist", i)
        kind = U.FILE_KINDS[i % 9]
        is_dir = (i // 9) % 2 == 1
        fields = tuple((x % 2 ** 30) if isinstance(x, int) else x for x in U.gen_fields(r, kind))
        if kind == "LIT":
            fields = (fields[0][:20],)
        c = U.make_cap(kind, fields, is_dir)
        s = c.to_string()
        ro_s = c.get_readonly().to_string()
        strings = [s, s, ro_s, b"ro." + s, b"imm." + s, b"ro." + ro_s, r.choice(FUTURE[:4])]
        calls = []
        for _ in range(r.choice([4, 6, 8])):
            st = r.choice(strings)
            slot = r.random() < 0.5
            calls.append((st, None, r.random() < 0.5) if slot else (None, st, r.random() < 0.5))
        # make sure the pattern "ordinary context first, then the same string deep-immutable" (and the reverse) occurs
        j = r.randrange(len(calls))
        first = (s, None, False) if r.random() < 0.5 else (None, ro_s, False)
        calls[j:j] = [first, first[:2] + (True,)] if r.random() < 0.7 else [first[:2] + (True,), first]
        nm = maker()
        alive = []
        seq_ok = True
        for step, (rw, ro, di) in enumerate(calls):
            case = {"cap": type(c).__name__, "step": step, "deep_immutable": di,
                    "calls": [[None if a is None else a.hex(), None if b is None else b.hex(), d] for a, b, d in calls[:step + 1]],
                    "printable": [U.show(a or b) + (" deep_immutable" if d else "") for a, b, d in calls[:step + 1]]}
            try:
                nd = nm.create_from_cap(rw, ro, deep_immutable=di)
                fresh = maker().create_from_cap(rw, ro, deep_immutable=di)
            except Exception as e:
                ctx.oracle_fail("create-from-cap-raises:" + type(e).__name__, "create_from_cap raises in a history", case=case)
                seq_ok = False
                break
            alive.append(nd)
            v, fv = node_view(nd), node_view(fresh)
            ctx.case((type(c).__name__, tuple(calls[:step + 1])) if v[0] == "node" else None,
                     kind="history:%s:%s" % ("deep-immutable" if di else "ordinary", v[1] if v[0] == "node" else "UnknownNode"))
            big = rw or ro
            if v[0] == "node":
                if di and (v[3] or not v[4]):
                    ctx.oracle_fail("alleged-immutable-interpreted-as-mutable",
                                    "create_from_cap(%s, deep_immutable=True) after %d earlier calls on the same NodeMaker returned a %s (mutable=%s, readonly=%s)" % (
                                        U.show(big), step, v[1], v[3], v[4]), case=case, expected="immutable read-only node or opaque UnknownNode", observed=list(v))
                if (big.startswith(b"ro.") or big.startswith(b"imm.")) and not v[4]:
                    ctx.oracle_fail("alleged-prefix-upgraded-to-writeable", "create_from_cap(%s) in a history returned a writeable %s" % (U.show(big), v[1]), case=case)
                if big.startswith(b"imm.") and v[3]:
                    ctx.oracle_fail("alleged-immutable-interpreted-as-mutable", "create_from_cap(%s) in a history returned a mutable %s" % (U.show(big), v[1]), case=case)
            elif di and v[2] is not None:
                ctx.oracle_fail("unknown-node-keeps-rw-in-immutable-context", "UnknownNode with a write cap in a deep-immutable context (history)", case=case)
            if v != fv:
                ctx.oracle_fail("create-from-cap-depends-on-history", "create_from_cap(%s, deep_immutable=%s) answers %s after %d earlier calls but %s on a fresh NodeMaker" % (
                    U.show(big), di, str(v)[:160], step, str(fv)[:160]), case=case, expected=str(fv)[:300], observed=str(v)[:300])
        if seq_ok:
            callt = "[" + "; ".join("(%s, %s, %s)" % (opt(a, T.bytes_), opt(b, T.bytes_), T.boolean(d)) for a, b, d in calls) + "]"
            terms.append("made_list_eqb (run_calls [] %s) [%s]" % (callt, "; ".join(made_term(x) for x in alive)))
            info.append({"cap": type(c).__name__, "printable": [U.show(a or b) + (" deep_immutable" if d else "") for a, b, d in calls]})
    bad = ctx.coq_check(IMPORTS, terms, tag="c16hist", shard=12)
    for ix in bad:
        ctx.mismatch("model-vs-impl:create_from_cap-history", "Model run_calls and NodeMaker.create_from_cap differ on a history over a %s" % info[ix]["cap"],
                     case=info[ix], correspondence="nodemaker-history-vs-model")
    ctx.trace(len(terms) - len(bad))


def strength(s):
    """2 = alleged immutable, 1 = alleged read-only, 0 = no allegation."""
    if s is None:
        return None
    return 2 if s.startswith(b"imm.") else 1 if s.startswith(b"ro.") else 0


def dir_candidates(r):
    """(label, rw_uri, ro_uri) a client may try to attach to a directory."""
    out = []
    kinds = list(U.FILE_KINDS)
    r.shuffle(kinds)
    for kind in kinds[:4]:
        for is_dir in (False, True):
            if kind == "CHKVerifier":
                continue        # NodeMaker builds a CiphertextFileNode, which is not an IFilesystemNode: pack asserts
            fields = tuple((x % 2 ** 30) if isinstance(x, int) else x for x in U.gen_fields(r, kind))
            if kind == "LIT":
                fields = (fields[0][:12],)
            c = U.make_cap(kind, fields, is_dir)
            label = type(c).__name__
            s, rs = c.to_string(), c.get_readonly().to_string()
            if not c.is_readonly():
                out.append((label + " rw+ro", s, rs))
                out.append((label + " rw only", s, None))
                out.append(("ro." + label + " in ro slot", None, b"ro." + s))
            out.append((label + " readcap", None, rs))
            out.append(("ro." + label + " readcap", None, b"ro." + rs))
            out.append(("imm." + label + " readcap", None, b"imm." + rs))
    for _ in range(2):
        f = r.choice([b"x-some-future-cap:", b"lafs://", b"URI:FUTURE:", b"x-tahoe-future-test-writeable:", b"x-tahoe-future-test-mutable:"]) + U.rbytes(r, 6).hex().encode()
        w = b"x-some-future-rw:" + U.rbytes(r, 4).hex().encode()
        for pre in (b"", b"ro.", b"imm.", b"ro.ro.", b"ro.imm.", b"imm.ro.", b"imm.imm."):
            out.append((pre.decode() + "future ro-slot", None, pre + f))
            if pre:
                out.append((pre.decode() + "future single", pre + f, None))
        out.append(("future rw+ro", w, f))
        out.append(("future rw+ro.ro", w, b"ro." + f))
        out.append(("future rw+imm.ro", w, b"imm." + f))
        out.append(("ro.future rw + ro", b"ro." + w, f))
    r.shuffle(out)
    return out


TYPED = [("from_string_dirnode", "IDirnodeURI"), ("from_string_filenode", "IFileURI"),
         ("from_string_mutable_filenode", "IMutableFileURI"), ("from_string_verifier", "IVerifierURI")]


def typed_entry_points(ctx):
    """uri.from_string_dirnode / _filenode / _mutable_filenode / _verifier with deep_immutable= and
    name=: whatever they return must be what from_string returns for the same arguments."""
    u = U.uri_mod()
    ctx.correspondence("typed-entry-points-vs-model")
    terms, info = [], []
    n = ctx.n(18, 180)
    for i in range(n):
        r = ctx.rng("typed", i)
        kind = U.FILE_KINDS[i % 9]
        is_dir = (i // 9) % 2 == 1
        fields = tuple((x % 2 ** 30) if isinstance(x, int) else x for x in U.gen_fields(r, kind))
        if kind == "LIT":
            fields = (fields[0][:16],)
        c = U.make_cap(kind, fields, is_dir)
        base = c.to_string()
        strings = [base, (b"ro." + base, b"imm." + base)[i % 2]] if not ctx.search and ctx.tier == "quick" else [base, b"ro." + base, b"imm." + base]
        if i % 6 == 5:
            strings.append(r.choice(FUTURE[:4]))
        for s in strings:
            for di in (False, True):
                ref = U.impl_from_string(s, di)
                for fname, iface in TYPED:
                    case = {"entry_point": fname, "string": s.hex(), "printable": U.show(s), "deep_immutable": di, "typed_case": True}
                    try:
                        got = getattr(u, fname)(s, deep_immutable=di, name=u"child")
                        o = ("ok", U.describe(got), got)
                    except AssertionError:
                        o = ("AssertionError",)
                    except ValueError:
                        o = ("ValueError",)
                    except Exception as e:
                        ctx.oracle_fail("typed-entry-point-raises:" + type(e).__name__, "%s(%s, deep_immutable=%s) raises %s" % (fname, U.show(s), di, type(e).__name__), case=case)
                        continue
                    ctx.case((fname, s, di) if o[0] == "ok" else None, kind="typed:%s:%s:%s" % (fname, "deep-immutable" if di else "ordinary", o[0]))
                    if o[0] == "ok":
                        cap = o[2]
                        if ref[0] != "ok" or ref[1] != o[1]:
                            ctx.oracle_fail("typed-entry-point-ignores-context",
                                            "%s(%s, deep_immutable=%s) returns %s where from_string with the same arguments gives %s" % (
                                                fname, U.show(s), di, type(cap).__name__, type(ref[2]).__name__ if ref[0] == "ok" else ref[0]),
                                            case=case, expected=str(U.jcase(ref[1]))[:300] if ref[0] == "ok" else ref[0], observed=str(U.jcase(o[1]))[:300])
                        if not isinstance(cap, u.UnknownURI):
                            if (di or s.startswith(b"ro.") or s.startswith(b"imm.")) and not cap.is_readonly():
                                ctx.oracle_fail("alleged-prefix-upgraded-to-writeable", "%s(%s, deep_immutable=%s) is a writeable %s" % (fname, U.show(s), di, type(cap).__name__), case=case)
                            if (di or s.startswith(b"imm.")) and cap.is_mutable():
                                ctx.oracle_fail("alleged-immutable-interpreted-as-mutable", "%s(%s, deep_immutable=%s) is a mutable %s" % (fname, U.show(s), di, type(cap).__name__), case=case)
                    terms.append("outcome_eqb (typed_from_string %s %s %s) %s" % (iface, T.boolean(di), T.bytes_(s), U.outcome_term(o)))
                    info.append(case)
    bad = ctx.coq_check(IMPORTS, terms, tag="c16typed", shard=120)
    for ix in bad:
        ctx.mismatch("model-vs-impl:typed-entry-point", "Model typed_from_string and uri.%s differ on %s (deep_immutable=%s)" % (
            info[ix]["entry_point"], info[ix]["printable"], info[ix]["deep_immutable"]), case=info[ix], correspondence="typed-entry-points-vs-model")
    ctx.trace(len(terms) - len(bad))


_BL_COUNT = [0]


def nodemaker_with_blacklist(storage_indexes):
    """A NodeMaker whose access.blacklist lists the given storage indexes: create_from_cap wraps
    every node with one of them in blacklist.ProhibitedNode."""
    import os
    from core import env
    from allmydata.nodemaker import NodeMaker
    from allmydata.blacklist import Blacklist
    from allmydata.util import base32
    _BL_COUNT[0] += 1
    fn = os.path.join(env.subdir("c16-blacklist"), "access.blacklist.%d" % _BL_COUNT[0])
    with open(fn, "wb") as f:
        f.write(b"# storage indexes this client refuses to access\n")
        for si in storage_indexes:
            f.write(base32.b2a(si) + b" prohibited by the C16 driver\n")
    return NodeMaker(None, None, None, None, None, {"k": 3, "n": 10}, None, None, blacklist=Blacklist(fn))


def accessor_oracle(ctx, node, case):
    """Every node class (ProhibitedNode included) reports, as its read cap, the read-only form
    of its cap -- never a write cap -- and a write cap exactly when it is writeable."""
    u = U.uri_mod()
    cname = type(node).__name__
    if node.is_unknown():
        return          # UnknownNode: covered by unknown_nodes() and the directory round trip
    try:
        s = node.get_uri()
        c = u.from_string(s)
        if isinstance(c, u.UnknownURI):
            return
        want_ro = c.get_readonly().to_string()
        got_ro, got_rw = node.get_readonly_uri(), node.get_write_uri()
        readcap = node.get_readcap().to_string()
        flags = (bool(node.is_readonly()), bool(node.is_mutable()))
    except Exception as e:
        ctx.oracle_fail("node-accessor-raises:" + cname, "%s accessor raises %s" % (cname, type(e).__name__), case=case)
        return
    if got_ro != want_ro or readcap != want_ro:
        back = u.from_string(got_ro) if got_ro else None
        leak = back is not None and not isinstance(back, u.UnknownURI) and not back.is_readonly()
        ctx.oracle_fail("node-readonly-uri-is-not-the-read-cap:" + cname,
                        "%s.get_readonly_uri() = %s, get_readcap() = %s, but the read-only form of its cap %s is %s%s" % (
                            cname, U.show(got_ro or b""), U.show(readcap), U.show(s), U.show(want_ro), " (a WRITE cap is reported as read cap)" if leak else ""),
                        case=case, expected=U.show(want_ro), observed=U.show(got_ro or b""))
    if got_rw != (None if c.is_readonly() else s):
        ctx.oracle_fail("node-write-uri-wrong:" + cname, "%s.get_write_uri() = %r for cap %s" % (cname, got_rw, U.show(s)), case=case)
    if flags != (bool(c.is_readonly()), bool(c.is_mutable())):
        ctx.oracle_fail("node-flags-differ-from-cap:" + cname, "%s reports (readonly, mutable) = %s, its cap %s" % (cname, flags, (c.is_readonly(), c.is_mutable())), case=case)


def node_accessors(ctx):
    """Each node class NodeMaker builds, bare and wrapped in ProhibitedNode (blacklisted storage index)."""
    n = ctx.n(2, 12)
    for i in range(n):
        r = ctx.rng("acc", i)
        caps = []
        for kind in ("CHK", "LIT", "SSK", "SSKRO", "MDMF", "MDMFRO"):
            for is_dir in (False, True):
                fields = tuple((x % 2 ** 30) if isinstance(x, int) else x for x in U.gen_fields(r, kind))
                caps.append(U.make_cap(kind, fields, is_dir))
        sis = [c.get_storage_index() for c in caps if c.get_storage_index() is not None]
        for label, nm in (("blacklisted", nodemaker_with_blacklist(sis)), ("plain", nodemaker_with_blacklist([]))):
            for c in caps:
                s = c.to_string()
                for rw, ro in ((s, None), (None, s), (None, c.get_readonly().to_string())):
                    node = nm.create_from_cap(rw, ro)
                    case = {"class": type(node).__name__, "wrapped": type(getattr(node, "wrapped_node", node)).__name__, "blacklisted": label == "blacklisted",
                            "rw_hex": None if rw is None else rw.hex(), "ro_hex": None if ro is None else ro.hex(), "accessor_case": True}
                    ctx.case((label, rw, ro), kind="node-accessors:%s:%s" % (label, type(getattr(node, "wrapped_node", node)).__name__))
                    if label == "blacklisted" and c.get_storage_index() is not None and type(node).__name__ != "ProhibitedNode":
                        ctx.note("blacklisted storage index did not yield a ProhibitedNode for " + type(c).__name__)
                    accessor_oracle(ctx, node, case)


def no_write_links(ctx, which, dn_w, children, meta, packed, terms, info):
    """Children linked with metadata {"no-write": true} -- through Adder (set_node / set_uri /
    set_children) and through MetadataSetter (set_metadata_for): the directory layer attenuates
    the child (DirectoryNode._create_readonly_node), so neither the node handed back nor the
    stored entry (read through the directory's WRITE cap) may carry a write cap, whatever the
    child is -- known, blacklisted, or an unknown-format (write cap, read cap) pair."""
    from allmydata.dirnode import Adder, MetadataSetter
    from allmydata.unknown import UnknownNode
    from allmydata.interfaces import CapConstraintError
    results = []
    linkable = {}
    for name, (node, md) in children.items():
        try:
            dn_w._create_readonly_node(node, name)
            linkable[name] = (node, md)
        except CapConstraintError:
            ctx.case(None, kind="no-write:link-refused")      # e.g. ro.x-tahoe-future-test-writeable: the link is refused outright
    try:
        a = Adder(dn_w, overwrite=True, create_readonly_node=dn_w._create_readonly_node)
        for name, (node, _) in linkable.items():
            a.set_node(name, node, {"no-write": True})
        results.append(("Adder(no-write)", dn_w._unpack_contents(a.modify(b"", None, True))))
        p2 = packed
        for name in linkable:
            if name in dn_w._unpack_contents(p2):
                p2 = MetadataSetter(dn_w, name, {"no-write": True}, create_readonly_node=dn_w._create_readonly_node).modify(p2, None, True)
        results.append(("MetadataSetter(no-write)", dn_w._unpack_contents(p2)))
    except Exception as e:
        ctx.oracle_fail("no-write-link-raises:" + type(e).__name__, "linking children with no-write raises %s" % type(e).__name__, case={"directory": which})
        return
    children = linkable
    for via, got in results:
        for name, (before, _) in children.items():
            label, rw, ro = meta[name]
            b_ro = before.get_readonly_uri()
            case = {"directory": which, "via": via, "child": label, "no_write": True, "blacklisted": type(before).__name__ == "ProhibitedNode",
                    "rw_hex": None if rw is None else rw.hex(), "ro_hex": None if ro is None else ro.hex(),
                    "attached_as": [type(before).__name__, None if before.get_write_uri() is None else U.show(before.get_write_uri()), None if b_ro is None else U.show(b_ro)]}
            after = got[name][0] if name in got else None
            ctx.case((which, via, label, rw, ro) if after is not None else None,
                     kind="no-write:%s:%s" % (via.split("(")[0], "unknown" if isinstance(before, UnknownNode) else "known"))
            if after is None:
                if via.startswith("Adder"):
                    terms.append("opt_eqb made_eqb (dir_store_read (create_readonly_node %s) false true) None" % made_term(before))
                    info.append(case)
                continue
            a_rw, a_ro = after.get_write_uri(), after.get_readonly_uri()
            case["read_back_as"] = [type(after).__name__, None if a_rw is None else U.show(a_rw), None if a_ro is None else U.show(a_ro)]
            if got[name][1].get("no-write") is not True and via.startswith("Adder"):
                ctx.oracle_fail("no-write-metadata-lost", "%s, %s: the no-write flag of child %s is not stored" % (which, via, label), case=case)
            if a_rw:
                ctx.oracle_fail("no-write-link-keeps-write-cap",
                                "%s directory, %s: child %s was linked with no-write but its stored entry still holds the write cap %s" % (which, via, label, U.show(a_rw)),
                                case=case, expected="no write cap", observed=U.show(a_rw))
            if not isinstance(after, UnknownNode) and not after.is_readonly():
                ctx.oracle_fail("no-write-link-keeps-write-cap", "%s directory, %s: child %s linked with no-write reads back as a writeable %s" % (which, via, label, type(after).__name__), case=case)
            if isinstance(before, UnknownNode) and isinstance(after, UnknownNode) and strength(a_ro) < strength(b_ro):
                ctx.oracle_fail("directory-roundtrip-weakens-allegation", "%s, %s: child %s went in as %s and came back as %s" % (which, via, label, U.show(b_ro), U.show(a_ro)), case=case)
            if via.startswith("Adder"):
                terms.append("opt_eqb made_eqb (dir_store_read (create_readonly_node %s) false true) (Some %s)" % (made_term(before), made_term(after)))
                info.append(case)


def dir_roundtrip(ctx):
    """Children attached to a directory, the directory serialized by the real
    dirnode pack code and read back by _unpack_contents -- through the write cap and
    through the read cap, and once more after a rewrite: no child may come back with a
    weaker allegation (imm. -> ro. -> none), with a write cap it did not have, or as a
    writeable / mutable node where it went in read-only / immutable."""
    from allmydata.nodemaker import NodeMaker
    from allmydata.dirnode import pack_children
    from allmydata.unknown import UnknownNode
    u = U.uri_mod()
    ctx.correspondence("directory-store-read-vs-model")
    ctx.correspondence("no-write-link-vs-model")
    terms, info = [], []
    nw_terms, nw_info = [], []
    n = ctx.n(4, 45)
    for i in range(n):
        r = ctx.rng("dirrt", i)
        cands = dir_candidates(r)
        # about half of the children that have a storage index are blacklisted: NodeMaker hands them
        # out (when attached and when read back) wrapped in ProhibitedNode
        sis = []
        for _, rw_, ro_ in cands:
            c_ = u.from_string(rw_ or ro_)
            if not isinstance(c_, u.UnknownURI) and c_.get_storage_index() is not None and r.random() < 0.5:
                sis.append(c_.get_storage_index())
        nm = nodemaker_with_blacklist(sis)
        which = ("SSK", "MDMF", "CHK")[i % 3]
        di = which == "CHK"
        if di:
            dcap = u.ImmutableDirectoryURI(u.CHKFileURI(U.rbytes(r, 16), U.rbytes(r, 32), 3, 10, 999))
            views = [("immutable directory", nm.create_from_cap(dcap.to_string()), False)]
        else:
            W, D = (u.WriteableSSKFileURI, u.DirectoryURI) if which == "SSK" else (u.WriteableMDMFFileURI, u.MDMFDirectoryURI)
            dcap = D(W(U.rbytes(r, 16), U.rbytes(r, 32)))
            views = [(which + " directory via write cap", nm.create_from_cap(dcap.to_string()), True),
                     (which + " directory via read cap", nm.create_from_cap(dcap.get_readonly().to_string()), False)]
        children, meta = {}, {}
        for j, (label, rw, ro) in enumerate(cands):
            try:
                node = nm.create_from_cap(rw, ro, deep_immutable=di, name=u"child")
                node.raise_error()
            except Exception:
                ctx.case(None, kind="dir-child:refused")
                continue        # refused up front: nothing is stored
            if di and not node.is_allowed_in_immutable_directory():
                ctx.case(None, kind="dir-child:refused")
                continue
            name = u"c%03d" % j
            children[name] = (node, {})
            meta[name] = (label, rw, ro)
            accessor_oracle(ctx, node, {"class": type(node).__name__, "wrapped": type(getattr(node, "wrapped_node", node)).__name__,
                                        "blacklisted": type(node).__name__ == "ProhibitedNode", "accessor_case": True,
                                        "rw_hex": None if rw is None else rw.hex(), "ro_hex": None if ro is None else ro.hex()})
        try:
            packed = pack_children(children, None, deep_immutable=True) if di else views[0][1]._pack_contents(children)
        except Exception as e:
            ctx.oracle_fail("directory-pack-raises:" + type(e).__name__, "packing attachable children raises %s" % type(e).__name__,
                            case={"directory": which, "children": [[m[0], None if m[1] is None else m[1].hex(), None if m[2] is None else m[2].hex()] for m in meta.values()]})
            continue
        if not di:
            no_write_links(ctx, which, views[0][1], children, meta, packed, nw_terms, nw_info)
        generations = []
        for where, dn, writeable in views:
            got = dn._unpack_contents(packed)
            generations.append((where, got, writeable))
            if writeable:
                again = dn._unpack_contents(dn._pack_contents(dict((k, (c, md)) for k, (c, md) in got.items())))
                generations.append((where + ", second rewrite", again, writeable))
        for where, got, writeable in generations:
            for name, (before, _) in children.items():
                label, rw, ro = meta[name]
                b_rw, b_ro = before.get_write_uri(), before.get_readonly_uri()
                case = {"directory": which, "view": where, "child": label, "deep_immutable": di, "writeable_view": writeable,
                        "rw_hex": None if rw is None else rw.hex(), "ro_hex": None if ro is None else ro.hex(),
                        "blacklisted": type(before).__name__ == "ProhibitedNode",
                        "attached_as": [type(before).__name__, None if b_rw is None else U.show(b_rw), None if b_ro is None else U.show(b_ro)]}
                after = got[name][0] if name in got else None
                unk_b = isinstance(before, UnknownNode)
                ctx.case((which, where, label, rw, ro) if after is not None else None,
                         kind="dir-child:%s:%s:%s" % (which, "unknown" if unk_b else "known", "kept" if after is not None else "dropped"))
                if after is None:
                    if "second rewrite" not in where:
                        terms.append("opt_eqb made_eqb (dir_store_read %s %s %s) None" % (made_term(before), T.boolean(di), T.boolean(writeable)))
                        info.append(case)
                    # a child that is dropped on read-back (its stored form violates the directory's
                    # constraint, e.g. 'ro.imm.x-tahoe-future-test-mutable:' is stored as 'imm.x-...') fails
                    # closed: nothing is interpreted more strongly.  Compared with the model only.
                    continue
                a_rw, a_ro = after.get_write_uri(), after.get_readonly_uri()
                case["read_back_as"] = [type(after).__name__, None if a_rw is None else U.show(a_rw), None if a_ro is None else U.show(a_ro)]
                if a_rw and not b_rw:
                    ctx.oracle_fail("directory-child-gains-write-cap", "%s: child %s came back with write cap %s" % (where, label, U.show(a_rw)), case=case)
                if not writeable and a_rw:
                    ctx.oracle_fail("directory-child-gains-write-cap", "%s: child %s has a write cap in a read-only view" % (where, label), case=case)
                unk_a = isinstance(after, UnknownNode)
                if unk_b:
                    if not unk_a:
                        ctx.oracle_fail("directory-unknown-child-becomes-known", "%s: unknown child %s came back as %s" % (where, label, type(after).__name__), case=case)
                    elif strength(a_ro) < strength(b_ro):
                        ctx.oracle_fail("directory-roundtrip-weakens-allegation",
                                        "%s: child %s went in as %s and came back as %s: the '%s' allegation was weakened" % (
                                            where, label, U.show(b_ro), U.show(a_ro), "imm." if strength(b_ro) == 2 else "ro."),
                                        case=case, expected=U.show(b_ro), observed=U.show(a_ro))
                    elif before.is_alleged_immutable() and not after.is_alleged_immutable():
                        ctx.oracle_fail("directory-roundtrip-weakens-allegation", "%s: child %s was alleged immutable and is no longer" % (where, label), case=case)
                else:
                    if unk_a:
                        ctx.oracle_fail("directory-known-child-becomes-unknown", "%s: known child %s came back unknown" % (where, label), case=case)
                    else:
                        if not before.is_mutable() and after.is_mutable():
                            ctx.oracle_fail("alleged-immutable-interpreted-as-mutable", "%s: immutable child %s came back mutable" % (where, label), case=case)
                        if before.is_readonly() and not after.is_readonly():
                            ctx.oracle_fail("alleged-prefix-upgraded-to-writeable", "%s: read-only child %s came back writeable" % (where, label), case=case)
                        if a_ro != b_ro:
                            ctx.oracle_fail("directory-child-read-cap-changes", "%s: read cap of %s changed %s -> %s" % (where, label, U.show(b_ro), U.show(a_ro)), case=case)
                if "second rewrite" not in where:
                    terms.append("opt_eqb made_eqb (dir_store_read %s %s %s) (Some %s)" % (made_term(before), T.boolean(di), T.boolean(writeable), made_term(after)))
                    info.append(case)
        if i < 2:
            ctx.sample({"directory": which, "children_stored": len(children), "views": [g[0] for g in generations]})
    bad = ctx.coq_check(IMPORTS, nw_terms, tag="c16nowrite", shard=60)
    for ix in bad:
        ctx.mismatch("model-vs-impl:no-write-link", "Model create_readonly_node/dir_store_read and a no-write link differ on child %s (%s)" % (nw_info[ix]["child"], nw_info[ix]["via"]),
                     case=nw_info[ix], correspondence="no-write-link-vs-model")
    ctx.trace(len(nw_terms) - len(bad))
    bad = ctx.coq_check(IMPORTS, terms, tag="c16dir", shard=60)
    for ix in bad:
        ctx.mismatch("model-vs-impl:directory-store-read", "Model dir_store_read and dirnode pack/_unpack_contents differ on child %s (%s)" % (info[ix]["child"], info[ix]["view"]),
                     case=info[ix], correspondence="directory-store-read-vs-model")
    ctx.trace(len(terms) - len(bad))


def run(ctx):
    attenuation(ctx)
    prefixes(ctx)
    unknown_nodes(ctx)
    typed_entry_points(ctx)
    histories(ctx)
    node_accessors(ctx)
    dir_roundtrip(ctx)


def replay_no_write(ctx, case):
    from allmydata.dirnode import Adder, MetadataSetter
    u = U.uri_mod()
    rw = None if case["rw_hex"] is None else bytes.fromhex(case["rw_hex"])
    ro = None if case["ro_hex"] is None else bytes.fromhex(case["ro_hex"])
    c0 = u.from_string(rw or ro)
    si = c0.get_storage_index() if not isinstance(c0, u.UnknownURI) else None
    nm = nodemaker_with_blacklist([si] if (case.get("blacklisted") and si) else [])
    W, D = (u.WriteableMDMFFileURI, u.MDMFDirectoryURI) if case["directory"] == "MDMF" else (u.WriteableSSKFileURI, u.DirectoryURI)
    dn = nm.create_from_cap(D(W(b"k" * 16, b"f" * 32)).to_string())
    node = nm.create_from_cap(rw, ro)
    if case["via"].startswith("Adder"):
        a = Adder(dn, overwrite=True, create_readonly_node=dn._create_readonly_node)
        a.set_node(u"child", node, {"no-write": True})
        packed = a.modify(b"", None, True)
    else:
        packed = dn._pack_contents({u"child": (node, {})})
        packed = MetadataSetter(dn, u"child", {"no-write": True}, create_readonly_node=dn._create_readonly_node).modify(packed, None, True)
    got = dn._unpack_contents(packed)
    after = got[u"child"][0] if u"child" in got else None
    if after is not None and after.get_write_uri():
        ctx.oracle_fail("no-write-link-keeps-write-cap", "the no-write link still stores the write cap %s" % U.show(after.get_write_uri()), case=case)
    return {"attached": [type(node).__name__, node.get_write_uri(), node.get_readonly_uri()],
            "stored_and_read_back_via_write_cap": None if after is None else [type(after).__name__, after.get_write_uri(), after.get_readonly_uri()]}


def replay_dir_child(ctx, case):
    """One child, one directory: attach, pack, read back through the recorded view."""
    from allmydata.nodemaker import NodeMaker
    from allmydata.dirnode import pack_children
    u = U.uri_mod()
    di = bool(case["deep_immutable"])
    rw = None if case["rw_hex"] is None else bytes.fromhex(case["rw_hex"])
    ro = None if case["ro_hex"] is None else bytes.fromhex(case["ro_hex"])
    c0 = u.from_string(rw or ro)
    si = c0.get_storage_index() if not isinstance(c0, u.UnknownURI) else None
    nm = nodemaker_with_blacklist([si] if (case.get("blacklisted") and si) else [])
    node = nm.create_from_cap(rw, ro, deep_immutable=di)
    children = {u"child": (node, {})}
    if di:
        dn = nm.create_from_cap(u.ImmutableDirectoryURI(u.CHKFileURI(b"k" * 16, b"h" * 32, 3, 10, 999)).to_string())
        packed = pack_children(children, None, deep_immutable=True)
    else:
        W, D = (u.WriteableMDMFFileURI, u.MDMFDirectoryURI) if case["directory"] == "MDMF" else (u.WriteableSSKFileURI, u.DirectoryURI)
        dcap = D(W(b"k" * 16, b"f" * 32))
        dn_w = nm.create_from_cap(dcap.to_string())
        packed = dn_w._pack_contents(children)
        dn = dn_w if case["writeable_view"] else nm.create_from_cap(dcap.get_readonly().to_string())
    got = dn._unpack_contents(packed)
    after = got[u"child"][0] if u"child" in got else None
    out = {"attached": [type(node).__name__, node.get_write_uri(), node.get_readonly_uri()],
           "read_back": None if after is None else [type(after).__name__, after.get_write_uri(), after.get_readonly_uri()]}
    b_ro = node.get_readonly_uri()
    if after is not None and not case["writeable_view"] and after.get_write_uri():
        ctx.oracle_fail("directory-child-gains-write-cap", "child read through a read-only view has write cap %s" % U.show(after.get_write_uri()), case=case)
    if after is not None and node.is_unknown() and after.is_unknown() and strength(after.get_readonly_uri()) < strength(b_ro):
        ctx.oracle_fail("directory-roundtrip-weakens-allegation", "child went in as %s and came back as %s" % (U.show(b_ro), U.show(after.get_readonly_uri())), case=case)
    out["model"] = ctx.coq_eval(IMPORTS, "dir_store_read %s %s %s" % (made_term(node), T.boolean(di), T.boolean(bool(case["writeable_view"]))))[-1500:]
    return out


def replay(ctx, rec):
    case = rec.get("case") or {}
    out = {}
    if "string" in case and "deep_immutable" in case and "class" not in case:
        s = bytes.fromhex(case["string"])
        o = U.impl_from_string(s, bool(case["deep_immutable"]))
        out = {"input": U.show(s), "deep_immutable": case["deep_immutable"], "implementation": U.jcase(o[1]) if o[0] == "ok" else o[0],
               "model": ctx.coq_eval(IMPORTS, "from_string %s %s" % (T.boolean(bool(case["deep_immutable"])), T.bytes_(s)))[-1200:]}
        if o[0] == "ok" and not isinstance(o[2], U.uri_mod().UnknownURI):
            out["is_readonly"], out["is_mutable"] = o[2].is_readonly(), o[2].is_mutable()
            if (s.startswith(b"ro.") or s.startswith(b"imm.") or case["deep_immutable"]) and not o[2].is_readonly():
                ctx.oracle_fail("alleged-prefix-upgraded-to-writeable", "still writeable on replay", case=case)
            if (s.startswith(b"imm.") or case["deep_immutable"]) and o[2].is_mutable():
                ctx.oracle_fail("alleged-immutable-interpreted-as-mutable", "still mutable on replay", case=case)
    elif case.get("typed_case"):
        u = U.uri_mod()
        s = bytes.fromhex(case["string"])
        di = bool(case["deep_immutable"])
        ref = U.impl_from_string(s, di)
        try:
            got = getattr(u, case["entry_point"])(s, deep_immutable=di, name=u"child")
            out = {"returned": U.jcase(U.describe(got)), "from_string": U.jcase(ref[1]) if ref[0] == "ok" else ref[0]}
            if ref[0] != "ok" or U.describe(got) != ref[1]:
                ctx.oracle_fail("typed-entry-point-ignores-context", "%s disagrees with from_string for the same arguments" % case["entry_point"], case=case)
        except AssertionError:
            out = {"returned": "AssertionError", "from_string": U.jcase(ref[1]) if ref[0] == "ok" else ref[0]}
    elif case.get("accessor_case"):
        rw = None if case["rw_hex"] is None else bytes.fromhex(case["rw_hex"])
        ro = None if case["ro_hex"] is None else bytes.fromhex(case["ro_hex"])
        c = U.uri_mod().from_string(rw or ro)
        si = c.get_storage_index() if hasattr(c, "get_storage_index") else None
        nm = nodemaker_with_blacklist([si] if (case.get("blacklisted") and si) else [])
        node = nm.create_from_cap(rw, ro)
        accessor_oracle(ctx, node, case)
        out = {"node": type(node).__name__, "get_uri": node.get_uri(), "get_write_uri": node.get_write_uri(), "get_readonly_uri": node.get_readonly_uri()}
    elif case.get("no_write"):
        out = replay_no_write(ctx, case)
    elif "directory" in case and "view" in case:
        out = replay_dir_child(ctx, case)
    elif "calls" in case:
        from allmydata.nodemaker import NodeMaker
        nm = NodeMaker(None, None, None, None, None, {"k": 3, "n": 10}, None, None)
        alive, views = [], []
        for a, b, d in case["calls"]:
            rw = None if a is None else bytes.fromhex(a)
            ro = None if b is None else bytes.fromhex(b)
            nd = nm.create_from_cap(rw, ro, deep_immutable=d)
            alive.append(nd)
            v = node_view(nd)
            views.append({"call": U.show(rw or ro), "deep_immutable": d, "answer": str(v)[:200]})
            if v[0] == "node" and d and (v[3] or not v[4]):
                ctx.oracle_fail("alleged-immutable-interpreted-as-mutable", "deep-immutable call answered with a mutable/writeable %s" % v[1], case=case)
        out = {"history": views}
    elif "rw_hex" in case:
        from allmydata.unknown import UnknownNode
        rw = None if case["rw_hex"] is None else bytes.fromhex(case["rw_hex"])
        ro = None if case["ro_hex"] is None else bytes.fromhex(case["ro_hex"])
        node = UnknownNode(rw, ro, deep_immutable=bool(case["deep_immutable"]))
        out = {"error": type(node.error).__name__ if node.error else None, "rw_uri": node.rw_uri, "ro_uri": node.ro_uri,
               "model": ctx.coq_eval(IMPORTS, "unknown_node %s %s %s" % (opt(rw, T.bytes_), opt(ro, T.bytes_), T.boolean(bool(case["deep_immutable"]))))[-1200:]}
    else:
        out = {"note": "the record holds the cap string; see expected/observed"}
    return out
