"""C16  Capabilities attenuate correctly."""
import hashlib

from core import term as T
from props import uri_common as U

ID = "C16"
GEN = ["hashutil", "uri"]
RULE = ("cases: (a) every cap kind (9 file kinds x file/directory wrapper) with random secrets: get_readonly, "
        "get_verify_cap (also of the derived caps), is_readonly, is_mutable, storage index, compared with the model and "
        "with an independent hashlib derivation; (b) cap strings (valid, mutated, random, future-test) under every prefix "
        "('', ro., imm.) x deep_immutable in {False, True}; (c) UnknownNode(rw, ro, deep_immutable) over None / empty / "
        "unknown / known strings with every prefix, and NodeMaker.create_from_cap in both contexts; (d) histories of 6-10 "
        "create_from_cap calls on one NodeMaker with every node kept alive (same cap in the ordinary and in the "
        "deep-immutable context in both orders, both slots, prefixed variants), each answer compared with a fresh "
        "NodeMaker's.  distinct non-trivial "
        "= distinct (cap, operation) or (string, prefix, context) that reach a known kind's parser or a non-opaque node")
META = {
    "title": "Capabilities attenuate correctly",
    "level_text": ("Theorems in Coq over the executable model of uri.py/unknown.py: along write->read->verify the storage index "
                   "and fingerprint (UEB hash, k/N/size) are preserved and are the hashutil derivations; derived caps have no "
                   "field for the stronger secret and are functions of its hash only; is_readonly/is_mutable agree with the "
                   "keys held; for EVERY string s, from_string('ro.'+s) is never writeable and from_string('imm.'+s) or a "
                   "deep-immutable context never mutable; UnknownNode never keeps a write cap in a deep-immutable context, "
                   "is opaque on error, and always prefixes its read cap."),
    "level_note": ("No cryptographic claim: one-wayness of SHA-256d is not modelled (the derived cap is shown to depend on the "
                   "secret only through the hash).  NodeMaker.create_from_cap is modelled down to which node class is built "
                   "around which cap and to the node cache (keys, only mutable nodes cached, entries may vanish); the nodes' "
                   "other behaviour is not."),
    "technique": "Coq proof over a hand-written model pinned to regenerated tables + differential run + direct oracle",
    "design_ref": "8/C16",
    "trusted_base": ["translator harness/translate/uri.py", "Gen/Hashutil.v (C17)"],
    "assumptions": [],
}

IMPORTS = U.IMPORTS + ["Model.UriNodes"]
WRITE_KINDS = ("SSK", "MDMF")
MUTABLE_KINDS = ("SSK", "SSKRO", "MDMF", "MDMFRO")
VERIFY_OF = {"CHK": "CHKVerifier", "CHKVerifier": "CHKVerifier", "LIT": None, "SSK": "SSKVerifier", "SSKRO": "SSKVerifier",
             "SSKVerifier": "SSKVerifier", "MDMF": "MDMFVerifier", "MDMFRO": "MDMFVerifier", "MDMFVerifier": "MDMFVerifier"}
RO_OF = {"SSK": "SSKRO", "MDMF": "MDMFRO"}


def _ns(b):
    return b"%d:" % len(b) + b + b","


def _tag(tag, val, n=16):
    return hashlib.sha256(hashlib.sha256(_ns(tag) + val).digest()).digest()[:n]


def spec_si(kind, fields):
    """Storage index by the documented derivation (hashlib only)."""
    if kind == "CHK":
        return _tag(b"allmydata_immutable_key_to_storage_index_v1", fields[0])
    if kind in ("SSK", "MDMF"):
        rk = _tag(b"allmydata_mutable_writekey_to_readkey_v1", fields[0])
        return _tag(b"allmydata_mutable_readkey_to_storage_index_v1", rk)
    if kind in ("SSKRO", "MDMFRO"):
        return _tag(b"allmydata_mutable_readkey_to_storage_index_v1", fields[0])
    if kind == "LIT":
        return None
    return fields[0]


def b32(b):
    from allmydata.util import base32
    return base32.b2a(b)


def opt(x, f):
    return "None" if x is None else "(Some %s)" % f(x)


def safe(f):
    try:
        return ("ok", f())
    except Exception as e:
        return ("raises", type(e).__name__)


def attenuation(ctx):
    u = U.uri_mod()
    ctx.correspondence("attenuation-vs-model")
    terms, info = [], []
    n = ctx.n(144, 720)
    for i in range(n):
        r = ctx.rng("att", i)
        kind = U.FILE_KINDS[i % 9]
        is_dir = (i // 9) % 2 == 1
        fields = U.gen_fields(r, kind)
        fields = tuple((x % 2 ** 70) if isinstance(x, int) else x for x in fields)
        c = U.make_cap(kind, fields, is_dir)
        cname = type(c).__name__
        d = U.describe(c)
        case = {"class": cname, "string": U.show(c.to_string())}
        ctx.case((cname, c.to_string()), kind="attenuate:" + cname)
        if i < 3:
            ctx.sample(case)

        def fail(kind_, what, expected=None, observed=None):
            ctx.oracle_fail(kind_, "%s: %s" % (cname, what), case=case, expected=expected, observed=observed)

        ro = safe(c.get_readonly)
        vc = safe(c.get_verify_cap)
        if ro[0] != "ok" or vc[0] != "ok":
            fail("attenuation-raises", "get_readonly/get_verify_cap raises %s/%s" % (ro, vc))
            continue
        ro, vc = ro[1], vc[1]
        # ---- flags (specification: write caps are exactly those holding a write key)
        want_ro = kind not in WRITE_KINDS
        want_mut = kind in MUTABLE_KINDS
        if c.is_readonly() != want_ro:
            fail("flag-is-readonly-wrong:" + cname, "is_readonly() = %s" % c.is_readonly(), want_ro, c.is_readonly())
        if c.is_mutable() != want_mut:
            fail("flag-is-mutable-wrong:" + cname, "is_mutable() = %s" % c.is_mutable(), want_mut, c.is_mutable())
        # ---- read-only cap
        ro_s = safe(ro.to_string)
        if ro_s[0] != "ok":
            fail("readonly-cap-unprintable:" + cname, "get_readonly().to_string() raises " + ro_s[1])
            continue
        if not ro.is_readonly() or ro.is_mutable() != want_mut:
            fail("readonly-cap-flags-wrong:" + cname, "get_readonly() has is_readonly=%s is_mutable=%s" % (ro.is_readonly(), ro.is_mutable()))
        if want_ro and ro.to_string() != c.to_string():
            fail("readonly-of-readonly-differs:" + cname, "get_readonly() of a read-only cap is a different cap")
        inner_ro = ro.get_filenode_cap() if is_dir else ro
        if hasattr(inner_ro, "writekey") or (kind in WRITE_KINDS and b32(fields[0]) in ro.to_string().split(b":")):
            fail("readonly-cap-carries-writekey:" + cname, "the read-only cap still holds the write key", None, U.show(ro.to_string()))
        si = spec_si(kind, fields)
        if ro.get_storage_index() != si or c.get_storage_index() != si:
            fail("storage-index-differs-along-chain:" + cname, "storage index of cap / read-only cap is not the specified derivation",
                 si.hex() if si else None, [x.hex() if x else None for x in (c.get_storage_index(), ro.get_storage_index())])
        if kind in WRITE_KINDS:
            want = U.describe(U.make_cap(RO_OF[kind], (_tag(b"allmydata_mutable_writekey_to_readkey_v1", fields[0]), fields[1]), is_dir))
            if U.describe(ro) != want:
                fail("readonly-cap-wrong:" + cname, "get_readonly() is not (H(writekey), fingerprint)", U.jcase(want), U.jcase(U.describe(ro)))
        # ---- verify cap
        vkind = VERIFY_OF[kind]
        if vkind is None:
            if vc is not None:
                fail("verify-cap-wrong:" + cname, "LIT caps have no verify cap", None, repr(vc))
        else:
            vs = safe(vc.to_string)
            if vs[0] != "ok":
                fail("verify-cap-unprintable:" + cname, "get_verify_cap().to_string() raises " + vs[1])
                continue
            rest = fields[1:]
            want = U.describe(U.make_cap(vkind, (si,) + tuple(rest), is_dir))
            if U.describe(vc) != want:
                fail("verify-cap-wrong:" + cname, "get_verify_cap() is not (storage index, fingerprint/UEB hash...)", U.jcase(want), U.jcase(U.describe(vc)))
            if not vc.is_readonly() or vc.is_mutable():
                fail("verify-cap-flags-wrong:" + cname, "verify cap has is_readonly=%s is_mutable=%s" % (vc.is_readonly(), vc.is_mutable()))
            inner_v = vc.get_filenode_cap() if is_dir else vc
            secrets = [fields[0]] if kind in ("CHK", "SSK", "SSKRO", "MDMF", "MDMFRO") else []
            if kind in WRITE_KINDS:
                secrets.append(_tag(b"allmydata_mutable_writekey_to_readkey_v1", fields[0]))
            if any(hasattr(inner_v, a) for a in ("writekey", "readkey", "key")) or any(b32(x) in vc.to_string().split(b":") for x in secrets):
                fail("verify-cap-carries-secret:" + cname, "the verify cap still holds a read or write secret", None, U.show(vc.to_string()))
            via_ro = safe(lambda: ro.get_verify_cap().to_string())
            if via_ro != ("ok", vc.to_string()):
                fail("verify-cap-depends-on-route:" + cname, "get_readonly().get_verify_cap() differs from get_verify_cap()", U.show(vc.to_string()), via_ro)
            again = safe(lambda: vc.get_verify_cap().to_string())
            if again != ("ok", vc.to_string()):
                fail("verify-cap-of-dir-verifier-broken" if is_dir else "verify-cap-of-verifier-wrong:" + cname,
                     "get_verify_cap() of the verify cap is not the verify cap itself", U.show(vc.to_string()), again)
        # ---- model
        ct = U.cap_term(d)
        terms.append("opt_eqb cap_eqb (get_readonly %s) (Some %s)" % (ct, U.cap_term(U.describe(ro))))
        info.append(("get_readonly", cname, case))
        terms.append("opt_eqb cap_eqb (get_verify_cap %s) %s" % (ct, U.opt_cap_term(U.describe(vc))))
        info.append(("get_verify_cap", cname, case))
        terms.append("opt_eqb Bool.eqb (is_readonly %s) (Some %s) && opt_eqb Bool.eqb (is_mutable %s) (Some %s)" % (
            ct, T.boolean(c.is_readonly()), ct, T.boolean(c.is_mutable())))
        info.append(("flags", cname, case))
        terms.append("opt_eqb list_N_eqb (storage_index %s) %s" % (ct, opt(c.get_storage_index(), T.bytes_)))
        info.append(("storage_index", cname, case))
    bad = ctx.coq_check(IMPORTS, terms, tag="c16att", shard=100)
    for ix in bad:
        fn, cname, case = info[ix]
        ctx.mismatch("model-vs-impl:" + fn, "Model %s and %s.%s differ" % (fn, cname, fn), case=case, correspondence="attenuation-vs-model")
    ctx.trace(len(terms) - len(bad))


FUTURE = [b"x-tahoe-future-test-writeable:abc", b"x-tahoe-future-test-mutable:abc", b"x-tahoe-future-test-writeable:",
          b"lafs://from_the_future", b"x-tahoe-crazy://I_am_from_the_future.", b"", b"URI:", b"ro.", b"imm."]


def prefixes(ctx):
    u = U.uri_mod()
    ctx.correspondence("prefix-and-context-vs-model")
    terms, info = [], []
    n = ctx.n(90, 450)
    for i in range(n):
        r = ctx.rng("pre", i)
        kind = U.FILE_KINDS[i % 9]
        is_dir = (i // 9) % 2 == 1
        fields = tuple((x % 2 ** 40) if isinstance(x, int) else x for x in U.gen_fields(r, kind))
        c = U.make_cap(kind, fields, is_dir)
        base = c.to_string()
        how = "valid"
        if i % 5 == 3:
            how, base = U.mutate(r, base, r.choice(["append-newline", "wrong-tail-128", "leading-zero", "extension", "swap-prefix",
                                                     "upper-case", "ro-prefix", "imm-prefix", "double-prefix", "field-shorter"]))
        elif i % 5 == 4:
            how, base = "future", r.choice(FUTURE + [U.random_printable(r)])
        writeable = how == "valid" and kind in WRITE_KINDS
        mutable = how == "valid" and kind in MUTABLE_KINDS
        for prefix in (b"", b"ro.", b"imm."):
            for di in (False, True):
                s = prefix + base
                o = U.impl_from_string(s, di)
                case = {"string": s.hex(), "printable": U.show(s), "deep_immutable": di, "base": how}
                reach = o[0] == "ok" and o[1][0] != "unknown"
                ctx.case((s, di) if (reach or how == "valid") else None, kind="context:%s:%s:%s" % (prefix.decode() or "none", "deep-immutable" if di else "mutable-ok", how))
                if o[0] != "ok":
                    ctx.oracle_fail("from-string-raises:" + o[0], "uri.from_string(%s, deep_immutable=%s) raises %s" % (U.show(s), di, o[0]), case=case)
                    continue
                cap = o[2]
                unknown = isinstance(cap, u.UnknownURI)
                if not unknown:
                    if (prefix or di) and not cap.is_readonly():
                        ctx.oracle_fail("alleged-prefix-upgraded-to-writeable", "from_string(%s, deep_immutable=%s) is a writeable %s" % (U.show(s), di, type(cap).__name__),
                                        case=case, expected="read-only or unknown", observed=type(cap).__name__)
                    if (prefix == b"imm." or di) and cap.is_mutable():
                        ctx.oracle_fail("alleged-immutable-interpreted-as-mutable", "from_string(%s, deep_immutable=%s) is a mutable %s" % (U.show(s), di, type(cap).__name__),
                                        case=case, expected="immutable or unknown", observed=type(cap).__name__)
                else:
                    if cap.to_string() != s:
                        ctx.oracle_fail("unknown-does-not-keep-string", "UnknownURI of %s holds %s" % (U.show(s), U.show(cap.to_string())), case=case)
                if how == "valid":
                    forbidden = (writeable and (prefix or di)) or (mutable and (prefix == b"imm." or di))
                    if forbidden:
                        want_err = "MustBeDeepImmutableError" if (prefix == b"imm." or di) else "MustBeReadonlyError"
                        got_err = type(cap.get_error()).__name__ if unknown and cap.get_error() is not None else None
                        if not unknown or got_err != want_err:
                            ctx.oracle_fail("constraint-violation-not-recorded", "%s in context prefix=%r deep_immutable=%s: expected UnknownURI with %s, got %s/%s" % (
                                type(c).__name__, prefix, di, want_err, type(cap).__name__, got_err), case=case, expected=want_err, observed=got_err)
                    elif unknown or U.describe(cap) != U.describe(c):
                        ctx.oracle_fail("allowed-cap-rejected-in-context", "%s is allowed with prefix=%r deep_immutable=%s but came back as %s" % (
                            type(c).__name__, prefix, di, type(cap).__name__), case=case, expected=type(c).__name__, observed=type(cap).__name__)
                terms.append("outcome_eqb (from_string %s %s) %s" % (T.boolean(di), T.bytes_(s), U.outcome_term(o)))
                info.append(case)
    bad = ctx.coq_check(IMPORTS, terms, tag="c16pre", shard=100)
    for ix in bad:
        ctx.mismatch("model-vs-impl:from_string-context", "Model from_string and uri.from_string differ on %s (deep_immutable=%s)" % (
            info[ix]["printable"], info[ix]["deep_immutable"]), case=info[ix], correspondence="prefix-and-context-vs-model")
    ctx.trace(len(terms) - len(bad))


def unknown_nodes(ctx):
    from allmydata.unknown import UnknownNode
    from allmydata.nodemaker import NodeMaker
    u = U.uri_mod()
    ctx.correspondence("unknown-node-vs-model")
    terms, info = [], []
    nm = NodeMaker(None, None, None, None, None, {"k": 3, "n": 10}, None, None)
    n = ctx.n(260, 1300)
    for i in range(n):
        r = ctx.rng("unk", i)

        def pick():
            c = r.random()
            if c < 0.12:
                return None
            if c < 0.18:
                return b""
            if c < 0.55:
                base = r.choice(FUTURE[:5] + [b"lafs://other", b"URI:FUTURE:abc"])
            else:
                kind, is_dir, fields, cap = U.gen_cap(r)
                fields = tuple((x % 2 ** 30) if isinstance(x, int) else x for x in fields)
                base = U.make_cap(kind, fields, is_dir).to_string()
                if r.random() < 0.15:
                    base = U.mutate(r, base, r.choice(["append-newline", "wrong-tail-256", "leading-zero"]))[1]
            return r.choice([b"", b"", b"ro.", b"imm.", b"ro.imm.", b"imm.ro."]) + base
        rw, ro, di = pick(), pick(), r.random() < 0.5
        case = {"rw": None if rw is None else U.show(rw), "ro": None if ro is None else U.show(ro), "deep_immutable": di,
                "rw_hex": None if rw is None else rw.hex(), "ro_hex": None if ro is None else ro.hex()}
        try:
            node = UnknownNode(rw, ro, deep_immutable=di)
        except Exception as e:
            ctx.case(None, kind="unknown-node:raises")
            ctx.oracle_fail("unknown-node-raises:" + type(e).__name__, "UnknownNode(%r, %r, deep_immutable=%s) raises %s" % (rw, ro, di, type(e).__name__), case=case)
            continue
        err = type(node.error).__name__ if node.error is not None else None
        ctx.case((rw, ro, di) if err is None else None, kind="unknown-node:" + ("opaque" if err else "kept"))
        if i < 2:
            ctx.sample(dict(case, error=err, rw_uri=None if node.rw_uri is None else U.show(node.rw_uri), ro_uri=None if node.ro_uri is None else U.show(node.ro_uri)))
        # ---- the rules, on the implementation
        if di and node.rw_uri is not None:
            ctx.oracle_fail("unknown-node-keeps-rw-in-immutable-context", "UnknownNode keeps rw_uri %s in a deep-immutable context" % U.show(node.rw_uri), case=case)
        if err and (node.rw_uri is not None or node.ro_uri is not None):
            ctx.oracle_fail("unknown-node-with-error-not-opaque", "UnknownNode records %s but keeps caps" % err, case=case)
        if node.ro_uri is not None:
            if not (node.ro_uri.startswith(b"ro.") or node.ro_uri.startswith(b"imm.")) or (di and not node.ro_uri.startswith(b"imm.")):
                ctx.oracle_fail("unknown-node-ro-uri-not-prefixed", "UnknownNode ro_uri %s lacks the %s prefix" % (U.show(node.ro_uri), "imm." if di else "ro./imm."), case=case)
            # the stored read cap must itself never parse as writeable (or, when imm., as mutable)
            back = U.impl_from_string(node.ro_uri, di)
            if back[0] == "ok" and not isinstance(back[2], u.UnknownURI) and (not back[2].is_readonly() or (di and back[2].is_mutable())):
                ctx.oracle_fail("unknown-node-ro-uri-is-writeable", "UnknownNode ro_uri %s parses as a writeable/mutable cap" % U.show(node.ro_uri), case=case)
        if node.rw_uri is not None and (node.rw_uri != rw or not ro):
            ctx.oracle_fail("unknown-node-rw-uri-invented", "UnknownNode rw_uri %s was not given as such, or without a separate read cap" % U.show(node.rw_uri), case=case)
        if node.get_write_uri() != node.rw_uri or node.get_readonly_uri() != node.ro_uri or node.get_uri() != (node.rw_uri or node.ro_uri):
            ctx.oracle_fail("unknown-node-accessors-inconsistent", "get_write_uri/get_readonly_uri/get_uri disagree with the slots", case=case)
        want = "(UOk {| un_error := %s; un_rw := %s; un_ro := %s |})" % (U.ERR.get(err, "EBadURI"), opt(node.rw_uri, T.bytes_), opt(node.ro_uri, T.bytes_))
        if err not in U.ERR:
            ctx.oracle_fail("unknown-node-unexpected-error:" + str(err), "UnknownNode records an error of class %s" % err, case=case)
        terms.append("unode_outcome_eqb (unknown_node %s %s %s) %s" % (opt(rw, T.bytes_), opt(ro, T.bytes_), T.boolean(di), want))
        info.append(case)

        # ---- NodeMaker.create_from_cap with the same strings (writecap slot, readcap slot)
        try:
            nd = nm.create_from_cap(rw, ro, deep_immutable=di)
        except Exception as e:
            ctx.oracle_fail("create-from-cap-raises:" + type(e).__name__, "NodeMaker.create_from_cap(%r, %r, deep_immutable=%s) raises" % (rw, ro, di), case=case)
            continue
        ctx.case(None, kind="create_from_cap:" + type(nd).__name__)
        if isinstance(nd, UnknownNode):
            if di and nd.get_write_uri() is not None:
                ctx.oracle_fail("unknown-node-keeps-rw-in-immutable-context", "create_from_cap gives an UnknownNode with a write cap in a deep-immutable context", case=case)
        else:
            readonly = nd.is_readonly() if hasattr(nd, "is_readonly") else True      # CiphertextFileNode: verify cap only
            if di and (nd.is_mutable() or not readonly):
                ctx.oracle_fail("alleged-immutable-interpreted-as-mutable", "create_from_cap(deep_immutable=True) built a mutable/writeable %s" % type(nd).__name__, case=case)
            big = rw or ro
            if (big.startswith(b"ro.") or big.startswith(b"imm.")) and not readonly:
                ctx.oracle_fail("alleged-prefix-upgraded-to-writeable", "create_from_cap of %s built a writeable %s" % (U.show(big), type(nd).__name__), case=case)
            if big.startswith(b"imm.") and nd.is_mutable():
                ctx.oracle_fail("alleged-immutable-interpreted-as-mutable", "create_from_cap of %s built a mutable %s" % (U.show(big), type(nd).__name__), case=case)
    bad = ctx.coq_check(IMPORTS, terms, tag="c16unk", shard=100)
    for ix in bad:
        ctx.mismatch("model-vs-impl:UnknownNode", "Model unknown_node and UnknownNode(%s, %s, deep_immutable=%s) differ" % (
            info[ix]["rw"], info[ix]["ro"], info[ix]["deep_immutable"]), case=info[ix], correspondence="unknown-node-vs-model")
    ctx.trace(len(terms) - len(bad))


def node_view(nd):
    """Canonical observable of what create_from_cap returned."""
    from allmydata.unknown import UnknownNode
    if isinstance(nd, UnknownNode):
        return ("unknown", type(nd.error).__name__ if nd.error is not None else None, nd.rw_uri, nd.ro_uri)
    cap = nd.get_verify_cap() if type(nd).__name__ == "CiphertextFileNode" else nd.get_cap()
    readonly = nd.is_readonly() if hasattr(nd, "is_readonly") else True
    return ("node", type(nd).__name__, cap.to_string(), bool(nd.is_mutable()), bool(readonly))


def made_term(nd):
    from allmydata.unknown import UnknownNode
    if isinstance(nd, UnknownNode):
        err = type(nd.error).__name__ if nd.error is not None else None
        return "(MUnknown (UOk {| un_error := %s; un_rw := %s; un_ro := %s |}))" % (U.ERR.get(err, "EBadURI"), opt(nd.rw_uri, T.bytes_), opt(nd.ro_uri, T.bytes_))
    cap = nd.get_verify_cap() if type(nd).__name__ == "CiphertextFileNode" else nd.get_cap()
    return "(MNode %s)" % U.cap_term(U.describe(cap))


def histories(ctx):
    """Sequences of create_from_cap calls on ONE NodeMaker whose nodes stay alive (the node cache
    is a WeakValueDictionary): every answer must respect its own context whatever was asked before,
    and equal the answer of a fresh NodeMaker."""
    from allmydata.nodemaker import NodeMaker
    ctx.correspondence("nodemaker-history-vs-model")

    def maker():
        return NodeMaker(None, None, None, None, None, {"k": 3, "n": 10}, None, None)
    terms, info = [], []
    n = ctx.n(36, 180)
    for i in range(n):
        r = ctx.rng("hist", i)
        kind = U.FILE_KINDS[i % 9]
        is_dir = (i // 9) % 2 == 1
        fields = tuple((x % 2 ** 30) if isinstance(x, int) else x for x in U.gen_fields(r, kind))
        if kind == "LIT":
            fields = (fields[0][:20],)
        c = U.make_cap(kind, fields, is_dir)
        s = c.to_string()
        ro_s = c.get_readonly().to_string()
        strings = [s, s, ro_s, b"ro." + s, b"imm." + s, b"ro." + ro_s, r.choice(FUTURE[:4])]
        calls = []
        for _ in range(r.choice([4, 6, 8])):
            st = r.choice(strings)
            slot = r.random() < 0.5
            calls.append((st, None, r.random() < 0.5) if slot else (None, st, r.random() < 0.5))
        # make sure the pattern "ordinary context first, then the same string deep-immutable" (and the reverse) occurs
        j = r.randrange(len(calls))
        first = (s, None, False) if r.random() < 0.5 else (None, ro_s, False)
        calls[j:j] = [first, first[:2] + (True,)] if r.random() < 0.7 else [first[:2] + (True,), first]
        nm = maker()
        alive = []
        seq_ok = True
        for step, (rw, ro, di) in enumerate(calls):
            case = {"cap": type(c).__name__, "step": step, "deep_immutable": di,
                    "calls": [[None if a is None else a.hex(), None if b is None else b.hex(), d] for a, b, d in calls[:step + 1]],
                    "printable": [U.show(a or b) + (" deep_immutable" if d else "") for a, b, d in calls[:step + 1]]}
            try:
                nd = nm.create_from_cap(rw, ro, deep_immutable=di)
                fresh = maker().create_from_cap(rw, ro, deep_immutable=di)
            except Exception as e:
                ctx.oracle_fail("create-from-cap-raises:" + type(e).__name__, "create_from_cap raises in a history", case=case)
                seq_ok = False
                break
            alive.append(nd)
            v, fv = node_view(nd), node_view(fresh)
            ctx.case((type(c).__name__, tuple(calls[:step + 1])) if v[0] == "node" else None,
                     kind="history:%s:%s" % ("deep-immutable" if di else "ordinary", v[1] if v[0] == "node" else "UnknownNode"))
            big = rw or ro
            if v[0] == "node":
                if di and (v[3] or not v[4]):
                    ctx.oracle_fail("alleged-immutable-interpreted-as-mutable",
                                    "create_from_cap(%s, deep_immutable=True) after %d earlier calls on the same NodeMaker returned a %s (mutable=%s, readonly=%s)" % (
                                        U.show(big), step, v[1], v[3], v[4]), case=case, expected="immutable read-only node or opaque UnknownNode", observed=list(v))
                if (big.startswith(b"ro.") or big.startswith(b"imm.")) and not v[4]:
                    ctx.oracle_fail("alleged-prefix-upgraded-to-writeable", "create_from_cap(%s) in a history returned a writeable %s" % (U.show(big), v[1]), case=case)
                if big.startswith(b"imm.") and v[3]:
                    ctx.oracle_fail("alleged-immutable-interpreted-as-mutable", "create_from_cap(%s) in a history returned a mutable %s" % (U.show(big), v[1]), case=case)
            elif di and v[2] is not None:
                ctx.oracle_fail("unknown-node-keeps-rw-in-immutable-context", "UnknownNode with a write cap in a deep-immutable context (history)", case=case)
            if v != fv:
                ctx.oracle_fail("create-from-cap-depends-on-history", "create_from_cap(%s, deep_immutable=%s) answers %s after %d earlier calls but %s on a fresh NodeMaker" % (
                    U.show(big), di, str(v)[:160], step, str(fv)[:160]), case=case, expected=str(fv)[:300], observed=str(v)[:300])
        if seq_ok:
            callt = "[" + "; ".join("(%s, %s, %s)" % (opt(a, T.bytes_), opt(b, T.bytes_), T.boolean(d)) for a, b, d in calls) + "]"
            terms.append("made_list_eqb (run_calls [] %s) [%s]" % (callt, "; ".join(made_term(x) for x in alive)))
            info.append({"cap": type(c).__name__, "printable": [U.show(a or b) + (" deep_immutable" if d else "") for a, b, d in calls]})
    bad = ctx.coq_check(IMPORTS, terms, tag="c16hist", shard=12)
    for ix in bad:
        ctx.mismatch("model-vs-impl:create_from_cap-history", "Model run_calls and NodeMaker.create_from_cap differ on a history over a %s" % info[ix]["cap"],
                     case=info[ix], correspondence="nodemaker-history-vs-model")
    ctx.trace(len(terms) - len(bad))


def run(ctx):
    attenuation(ctx)
    prefixes(ctx)
    unknown_nodes(ctx)
    histories(ctx)


def replay(ctx, rec):
    case = rec.get("case") or {}
    out = {}
    if "string" in case and "deep_immutable" in case and "class" not in case:
        s = bytes.fromhex(case["string"])
        o = U.impl_from_string(s, bool(case["deep_immutable"]))
        out = {"input": U.show(s), "deep_immutable": case["deep_immutable"], "implementation": U.jcase(o[1]) if o[0] == "ok" else o[0],
               "model": ctx.coq_eval(IMPORTS, "from_string %s %s" % (T.boolean(bool(case["deep_immutable"])), T.bytes_(s)))[-1200:]}
        if o[0] == "ok" and not isinstance(o[2], U.uri_mod().UnknownURI):
            out["is_readonly"], out["is_mutable"] = o[2].is_readonly(), o[2].is_mutable()
            if (s.startswith(b"ro.") or s.startswith(b"imm.") or case["deep_immutable"]) and not o[2].is_readonly():
                ctx.oracle_fail("alleged-prefix-upgraded-to-writeable", "still writeable on replay", case=case)
            if (s.startswith(b"imm.") or case["deep_immutable"]) and o[2].is_mutable():
                ctx.oracle_fail("alleged-immutable-interpreted-as-mutable", "still mutable on replay", case=case)
    elif "calls" in case:
        from allmydata.nodemaker import NodeMaker
        nm = NodeMaker(None, None, None, None, None, {"k": 3, "n": 10}, None, None)
        alive, views = [], []
        for a, b, d in case["calls"]:
            rw = None if a is None else bytes.fromhex(a)
            ro = None if b is None else bytes.fromhex(b)
            nd = nm.create_from_cap(rw, ro, deep_immutable=d)
            alive.append(nd)
            v = node_view(nd)
            views.append({"call": U.show(rw or ro), "deep_immutable": d, "answer": str(v)[:200]})
            if v[0] == "node" and d and (v[3] or not v[4]):
                ctx.oracle_fail("alleged-immutable-interpreted-as-mutable", "deep-immutable call answered with a mutable/writeable %s" % v[1], case=case)
        out = {"history": views}
    elif "rw_hex" in case:
        from allmydata.unknown import UnknownNode
        rw = None if case["rw_hex"] is None else bytes.fromhex(case["rw_hex"])
        ro = None if case["ro_hex"] is None else bytes.fromhex(case["ro_hex"])
        node = UnknownNode(rw, ro, deep_immutable=bool(case["deep_immutable"]))
        out = {"error": type(node.error).__name__ if node.error else None, "rw_uri": node.rw_uri, "ro_uri": node.ro_uri,
               "model": ctx.coq_eval(IMPORTS, "unknown_node %s %s %s" % (opt(rw, T.bytes_), opt(ro, T.bytes_), T.boolean(bool(case["deep_immutable"]))))[-1200:]}
    else:
        out = {"note": "the record holds the cap string; see expected/observed"}
    return out
