"""C06  A successful immutable upload meets servers-of-happiness."""
import os
import shutil

from core import term as T

ID = "C06"
GEN = []
RULE = ("grid cases: 1..12 servers, each normal / full / read-only (announced or not) / broken / failing on allocate_buckets / failing on a "
        "write or on close (error before or after execution) / slow (allocate answer lost, get_buckets lost); k, happy (1..N, sometimes "
        "N+1), N in 1..10; pre-existing complete shares placed by a first upload and then copied, moved or deleted between servers; 1-4 "
        "segments, write batches of 1 MB or of 40..400 bytes (several remote writes per share); every response ordering by seed; "
        "non-trivial = the upload meets at least one non-normal server, fault or pre-existing share; distinct = distinct scenario data")
META = {
    "title": "A successful immutable upload meets servers-of-happiness",
    "level_text": ("Theorems in Coq over a model of Tahoe2ServerSelector.get_shareholders (existing-share queries, allocation rounds, "
                   "bookkeeping, final happiness test, aborts), CHKUploader.set_shareholders/_encrypted_done and Encoder._remove_shareholder/"
                   "err/done, for every sequence of server responses: success (of the selector, and of the whole upload) implies that the "
                   "servers-of-happiness value (C08's verified maximum matching) of the shares found or closed is at least the threshold, and "
                   "hence that a matching of that size exists among shares a server reported or whose writer acknowledged close; the shares "
                   "the results name are exactly the allocated buckets whose every write and close were acknowledged; on unhappiness every "
                   "allocated bucket is sent abort, close is only sent after every write was acknowledged and nothing follows an abort, so no "
                   "bucket stays open and a visible share is complete.  The model is replayed on the request/response trace of real uploads on "
                   "an in-process grid with faults (same queries, verdict, maps, aborts), and the property is evaluated directly on the servers' "
                   "disks with an independent matching."),
    "level_note": ("core (partial): the share placement plan of each round (C07) is an input of the model (the theorems hold for every plan); "
                   "erasure coding, hashing and the share layout are not modelled (complete = byte-identical to the share of a fault-free "
                   "upload, checked by the driver); the storage server's bucket life cycle is the three-state abstraction of C22 "
                   "(visible iff closed, abort of an open writer removes it); response orders are exercised by seed, the proofs quantify over "
                   "all of them.  A lost answer (no timeout in the encoder) and lying servers are outside the model."),
    "technique": "Coq proof by induction over response sequences of a selector/encoder model on top of C08 + trace replay against the real uploader on a grid with fault plans + direct disk oracle",
    "design_ref": "8/C06",
    "trusted_base": ["trace recorder in harness/props/c06.py (wraps ServerTracker / Tahoe2ServerSelector / Encoder methods)"],
    "assumptions": ["an acknowledged write/close was executed by the server (honest servers)", "per-connection FIFO delivery (abort after the requests sent before it)"],
}
IMPORTS = ["Model.Matching", "Model.UploadSel"]
