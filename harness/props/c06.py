"""C06  A successful immutable upload meets servers-of-happiness."""
import os

from core import term as T

ID = "C06"
GEN = []
RULE = ("grid cases: 1..12 servers, each normal / full / read-only (announced or not) / broken / failing on allocate_buckets / failing on a "
        "write or on close (error before or after execution) / slow (allocate answer lost, get_buckets lost); k, happy (1..N, sometimes "
        "N+1), N in 1..10; pre-existing complete shares anywhere (share files of a fault-free upload of the same file copied onto chosen "
        "servers, several servers holding the same share, one or two servers holding most share numbers with happy exactly at what is "
        "reachable and a write/close fault on a server that receives one of those share numbers again, or a real earlier upload that "
        "could only reach a subset of the servers); slow servers whose allocate_buckets answer arrives just after the selector's 15 s "
        "timeout on grids that are only just big enough with / without them; 1-4 "
        "segments, write batches of 1 MB or of 40..400 bytes (several remote writes per share); every response ordering by seed; "
        "non-trivial = the upload meets at least one non-normal server, fault or pre-existing share; distinct = distinct scenario data")
META = {
    "title": "A successful immutable upload meets servers-of-happiness",
    "level_text": ("Theorems in Coq over a model of Tahoe2ServerSelector.get_shareholders (existing-share queries, allocation rounds, "
                   "bookkeeping, final happiness test, aborts), CHKUploader.set_shareholders/_encrypted_done and Encoder._remove_shareholder/"
                   "err/done, for every sequence of server responses: success (of the selector, and of the whole upload) implies that the "
                   "servers-of-happiness value (C08's verified maximum matching) of the shares found or closed is at least the threshold, and "
                   "hence that a matching of that size exists among shares a server reported or whose writer acknowledged close; the shares "
                   "the results name are exactly the allocated buckets whose every write and close were acknowledged; on unhappiness every "
                   "allocated bucket is sent abort so none stays open, and whatever the verdict a bucket that ends closed (visible) was sent close "
                   "only after every write had been acknowledged; with servers that allocate only what they were asked for the assertion of "
                   "set_shareholders cannot fail (the defect repaired in /repo 111e37b).  The model is replayed on the request/response trace of real uploads on "
                   "an in-process grid with faults (same queries, verdict, maps, aborts), and the property is evaluated directly on the servers' "
                   "disks with an independent matching."),
    "level_note": ("core (partial): the share placement plan of each round (C07) is an input of the model (the theorems hold for every plan); "
                   "erasure coding, hashing and the share layout are not modelled (complete = byte-identical to the share of a fault-free "
                   "upload, checked by the driver); the storage server's bucket life cycle is the three-state abstraction of C22 "
                   "(visible iff closed, abort of an open writer removes it); response orders are exercised by seed, the proofs quantify over "
                   "all of them.  An answer that never arrives during the transfer (the encoder has no timeout) ends the model in VPending; a server "
                   "that reports shares it does not hold is believed by the uploader and by the model alike (found = reported)."),
    "technique": "Coq proof by induction over response sequences of a selector/encoder model on top of C08 + trace replay against the real uploader on a grid with fault plans + direct disk oracle",
    "design_ref": "8/C06",
    "trusted_base": ["trace recorder in harness/props/c06.py (wraps ServerTracker / Tahoe2ServerSelector / Encoder methods)"],
    "assumptions": ["an acknowledged write/close was executed by the server (honest servers)", "per-connection FIFO delivery (abort after the requests sent before it)"],
}
IMPORTS = ["Model.Matching", "Model.UploadSel"]


# ---------------------------------------------------------------------------------------------
# trace recorder (module/class attribute substitution only; restored on exit)
# ---------------------------------------------------------------------------------------------
class Recorder(object):
    """Records what the real selector / uploader / encoder asked and were told.

    existing : [(server, "ro"|"rw", sorted shnums | None)]            get_buckets answers, arrival order
    rounds   : [{"plan": {shnum: server|None}, "alloc": [(server, [shnums])], "queries": [(server, [shnums])],
                 "resps": [(server, ("ok", [alreadygot], [allocated]) | ("err",))]}]
    aborts   : [(server, [shnums])]                                    ServerTracker.abort_some_buckets
    enc      : {"landlords": {shnum: server}, "servermap": {shnum: [servers]}, "fails": [(shnum, where, raised)],
                "err_landlords": [...]|None, "done_landlords": [...]|None}
    """

    def __init__(self, g, batch=None, late=()):
        self.g = g
        self.batch = batch
        self.late = set(late)        # slow servers: the withheld allocate_buckets answer arrives just after the selector timed it out
        self.late_delivered = []
        self.existing = []
        self.rounds = []
        self.aborts = []
        self.enc = {"landlords": None, "servermap": None, "fails": [], "err_landlords": None, "done_landlords": None, "assert": False}
        self.selector = None
        self.tracker_lists = None
        self.sel_verdict = None
        self.initial = None
        self._saved = []

    def ix(self, serverid):
        return self.g.server_index(serverid)

    def _patch(self, obj, name, new):
        self._saved.append((obj, name, obj.__dict__[name]))
        setattr(obj, name, new)

    def __enter__(self):
        import allmydata.immutable.upload as U
        import allmydata.immutable.encode as E
        import allmydata.immutable.layout as L
        from twisted.python.failure import Failure
        rec = self

        o_create = U.Tahoe2ServerSelector._create_trackers

        def create_trackers(sel, *a, **kw):
            ro, rw = o_create(sel, *a, **kw)
            rec.selector = sel
            rec.tracker_lists = (ro, rw)
            rec.initial = {"ro": [rec.ix(t.get_serverid()) for t in ro], "rw": [rec.ix(t.get_serverid()) for t in rw]}
            return ro, rw
        self._patch(U.Tahoe2ServerSelector, "_create_trackers", create_trackers)

        o_he = U.Tahoe2ServerSelector._handle_existing_response

        def he(sel, res, tracker):
            rec.existing.append((rec.ix(tracker.get_serverid()), "ro", None if isinstance(res, Failure) else sorted(res.keys())))
            return o_he(sel, res, tracker)
        self._patch(U.Tahoe2ServerSelector, "_handle_existing_response", he)

        o_hw = U.Tahoe2ServerSelector._handle_existing_write_response

        def hw(sel, res, tracker, shares_to_ask):
            rec.existing.append((rec.ix(tracker.get_serverid()), "rw", None if isinstance(res, Failure) else sorted(res.keys())))
            return o_hw(sel, res, tracker, shares_to_ask)
        self._patch(U.Tahoe2ServerSelector, "_handle_existing_write_response", hw)

        o_plan = U.PeerSelector.get_share_placements

        def plan(ps):
            m = o_plan(ps)
            rec.rounds.append({"plan": dict((sh, (None if p is None else rec.ix(p))) for sh, p in m.items()),
                               "alloc": [], "queries": [], "resps": []})
            return m
        self._patch(U.PeerSelector, "get_share_placements", plan)

        o_alloc = U.Tahoe2ServerSelector._allocation_for

        def alloc(sel, tr):
            s = o_alloc(sel, tr)
            rec.rounds[-1]["alloc"].append((rec.ix(tr.get_serverid()), sorted(s)))
            return s
        self._patch(U.Tahoe2ServerSelector, "_allocation_for", alloc)

        o_query = U.ServerTracker.query

        def query(tr, sharenums):
            rec.rounds[-1]["queries"].append((rec.ix(tr.get_serverid()), sorted(sharenums)))
            return o_query(tr, sharenums)
        self._patch(U.ServerTracker, "query", query)

        o_ba = U.Tahoe2ServerSelector._buckets_allocated

        def ba(sel, res, tracker, shares_to_ask):
            if isinstance(res, Failure):
                rec.rounds[-1]["resps"].append((rec.ix(tracker.get_serverid()), ("err",)))
                if rec.ix(tracker.get_serverid()) in rec.late:
                    from foolscap.eventual import eventually
                    eventually(rec.deliver_late, rec.ix(tracker.get_serverid()))
            else:
                rec.rounds[-1]["resps"].append((rec.ix(tracker.get_serverid()), ("ok", sorted(res[0]), sorted(res[1]))))
            return o_ba(sel, res, tracker, shares_to_ask)
        self._patch(U.Tahoe2ServerSelector, "_buckets_allocated", ba)

        o_abort = U.ServerTracker.abort_some_buckets

        def abort_some(tr, sharenums):
            rec.aborts.append((rec.ix(tr.get_serverid()), sorted(s for s in sharenums if s in tr.buckets)))
            return o_abort(tr, sharenums)
        self._patch(U.ServerTracker, "abort_some_buckets", abort_some)

        o_failed = U.Tahoe2ServerSelector._failed

        def failed(sel, msg):
            rec.sel_verdict = "unhappy"
            rec.final = rec.selector_state()
            return o_failed(sel, msg)
        self._patch(U.Tahoe2ServerSelector, "_failed", failed)

        o_set = U.CHKUploader.set_shareholders

        def set_shareholders(up, upload_trackers, already, encoder):
            rec.sel_verdict = "ok"
            rec.final = rec.selector_state()
            rec.sel_result = {"use": dict((rec.ix(t.get_serverid()), sorted(t.buckets.keys())) for t in upload_trackers),
                              "already": dict((sh, sorted(rec.ix(p) for p in ps)) for sh, ps in already.items())}
            try:
                return o_set(up, upload_trackers, already, encoder)
            except AssertionError:
                rec.enc["assert"] = True
                raise
        self._patch(U.CHKUploader, "set_shareholders", set_shareholders)

        o_eset = E.Encoder.set_shareholders

        def eset(enc, landlords, servermap):
            rec.enc["landlords"] = dict((sh, rec.ix(b.get_peerid())) for sh, b in landlords.items())
            rec.enc["servermap"] = dict((sh, sorted(rec.ix(p) for p in ps)) for sh, ps in servermap.items())
            rec.encoder = enc
            rec.enc["nseg"] = enc.num_segments
            return o_eset(enc, landlords, servermap)
        self._patch(E.Encoder, "set_shareholders", eset)

        o_rm = E.Encoder._remove_shareholder

        def rm(enc, why, shareid, where):
            present = shareid in enc.landlords
            try:
                r = o_rm(enc, why, shareid, where)
            except U.UploadUnhappinessError:
                rec.enc["fails"].append((shareid, where, present, True))
                raise
            rec.enc["fails"].append((shareid, where, present, False))
            return r
        self._patch(E.Encoder, "_remove_shareholder", rm)

        o_err = E.Encoder.err

        def err(enc, f):
            if rec.enc["err_landlords"] is None:
                rec.enc["err_landlords"] = sorted(enc.landlords.keys())
                rec.enc["err_at"] = len(rec.enc["fails"])
            return o_err(enc, f)
        self._patch(E.Encoder, "err", err)

        o_done = E.Encoder.done

        def done(enc, res):
            rec.enc["done_landlords"] = sorted(enc.landlords.keys())
            rec.enc["done_servermap"] = dict((sh, sorted(rec.ix(p) for p in ps)) for sh, ps in enc.servermap.items())
            return o_done(enc, res)
        self._patch(E.Encoder, "done", done)

        if self.batch:
            o_wb = L._WriteBuffer
            b = self.batch
            self._patch(L, "_WriteBuffer", lambda batch_size: o_wb(b))
        return self

    def __exit__(self, *a):
        for obj, name, old in reversed(self._saved):
            setattr(obj, name, old)
        self._saved = []
        return False

    def deliver_late(self, server):
        """The answer the scheduler withholds for `server`'s allocate_buckets (fault plan delay/until timers) arrives now: one
        reactor turn after the selector gave up on that query (15 s timeout) and while it is already asking again."""
        sched = self.g.sched
        for c in list(sched.delayed):
            if c.server == server and c.method == "allocate_buckets":
                sched.delayed.remove(c)
                sched.delayed.insert(0, c)
                sched.deliver_delayed(after_timers=True)
                self.late_delivered.append(server)
                return

    def selector_state(self):
        """Final bookkeeping of the real selector, canonicalised (server indices, sorted lists)."""
        sel = self.selector
        if sel is None:
            return None
        ps = sel.peer_selector
        ix = self.ix
        st = sel._query_stats
        return {
            "preexisting": dict((sh, sorted(ix(p) for p in v)) for sh, v in sel.preexisting_shares.items()),
            "homeless": sorted(sel.homeless_shares),
            "use": dict((ix(t.get_serverid()), sorted(t.buckets.keys())) for t in sel.use_trackers),
            "with_shares": sorted(ix(p) for p in sel.serverids_with_shares),
            "peers": sorted(ix(p) for p in ps.peers),
            "ro_peers": sorted(ix(p) for p in ps.readonly_peers),
            "bad_peers": sorted(ix(p) for p in ps.bad_peers),
            "existing": dict((ix(p), sorted(v)) for p, v in ps.existing_shares.items()),
            "write_trackers": sorted(ix(t.get_serverid()) for t in self.tracker_lists[1]),
            "readonly_trackers": sorted(ix(t.get_serverid()) for t in self.tracker_lists[0]),
            "stats": [st.total, st.good, st.bad, st.full, st.error, st.contacted],
        }


# ---------------------------------------------------------------------------------------------
# scenarios on the real grid
# ---------------------------------------------------------------------------------------------
CONVERGENCE = b"c06-convergence-secret"
_refs = {}


def file_data(size):
    return bytes((i * 7 + (i >> 8) * 13 + 3) % 251 for i in range(size))


def reference(k, N, segsize, size):
    """Shares of a fault-free upload of the same file with the same parameters on a pristine grid
    (convergent encryption: same storage index, byte-identical shares).  Cached per process."""
    key = (k, N, segsize, size)
    if key not in _refs:
        from core import grid as G
        with G.Grid(num_servers=N, k=k, n=N, happy=1, max_segment_size=segsize, seed=0) as g:
            ur = g.run(g.upload_results(file_data(size), convergence=CONVERGENCE))
            cap = ur.get_uri()
            si = g._si(cap)
            shares, containers = {}, {}
            for sh in g.find_shares(cap):
                containers[sh.shnum] = g.read_share(sh)
                shares[sh.shnum] = g.server(sh.server).get_buckets(si)[sh.shnum].read(0, 1 << 24)
            assert sorted(shares) == list(range(N)), sorted(shares)
        _refs[key] = {"cap": cap, "si": si, "shares": shares, "containers": containers}
    return _refs[key]


def share_path(g, server, si, shnum, incoming=False):
    from allmydata.storage.server import storage_index_to_dir
    ss = g.server(server)
    return os.path.join(ss.incomingdir if incoming else ss.sharedir, storage_index_to_dir(si), "%d" % shnum)


def place_share(g, server, si, shnum, container):
    p = share_path(g, server, si, shnum)
    os.makedirs(os.path.dirname(p), exist_ok=True)
    with open(p, "wb") as f:
        f.write(container)


def visible_shares(g, si):
    """{(server, shnum): share data} as a reader sees them through get_buckets (direct server API)."""
    out = {}
    for i in sorted(g.server_ids):
        for shnum, br in g.server(i).get_buckets(si).items():
            out[(i, shnum)] = br.read(0, 1 << 24)
    return out


def incoming_shares(g, si):
    from allmydata.storage.server import storage_index_to_dir
    out = []
    for i in sorted(g.server_ids):
        d = os.path.join(g.server(i).incomingdir, storage_index_to_dir(si))
        if os.path.isdir(d):
            out.extend((i, int(f)) for f in os.listdir(d) if f.isdigit())
    return sorted(out)


def apply_states(g, states):
    for s, st in states.items():
        s = int(s)
        if st == "full":
            g.set_full(s)
        elif st in ("ro", "ro-announced"):
            g.set_readonly(s)
            if st == "ro-announced":
                for w in g._wrappers(s):
                    w.version = w.original.remote_get_version()
        elif st == "broken":
            g.break_server(s)


def kuhn(edges):
    """Size of a maximum matching of a bipartite relation given as a set of (server, share) pairs."""
    adj = {}
    for p, s in edges:
        adj.setdefault(p, []).append(s)
    match = {}

    def try_(p, seen):
        for s in adj[p]:
            if s in seen:
                continue
            seen.add(s)
            if s not in match or try_(match[s], seen):
                match[s] = p
                return True
        return False
    n = 0
    for p in sorted(adj):
        if try_(p, set()):
            n += 1
    return n


def later(fn):
    """Start `fn` one reactor turn after Grid.run has begun: Grid.run treats timers that exist when it starts as
    housekeeping and never fires them early, and the selector creates its 15 s query timers synchronously."""
    from foolscap.eventual import fireEventually

    def start():
        d = fireEventually()
        d.addCallback(lambda _: fn())
        return d
    return start


def run_scenario(sc):
    """Execute one scenario on a fresh grid.  Returns a dict of observations (pure data)."""
    from core import grid as G
    from twisted.internet import defer
    ref = reference(sc["k"], sc["N"], sc["segsize"], sc["size"])
    si = ref["si"]
    data = file_data(sc["size"])
    obs = {}
    with G.Grid(num_servers=sc["servers"], k=sc["k"], n=sc["N"], happy=sc["happy"], max_segment_size=sc["segsize"],
                seed=sc["seed"], fifo=sc.get("fifo", "server"), timeout=120) as g:
        first = sc.get("first")
        if first is not None:
            # a real earlier upload of the same file that could only use the servers in `first`
            others = [s for s in range(sc["servers"]) if s not in first]
            for s in others:
                g.break_server(s)
            g.set_encoding(happy=1)
            out0 = g.run(later(lambda: g.upload_results(data, convergence=CONVERGENCE)), outcome=True)
            g.run(defer.Deferred(), outcome=True)
            for s in others:
                g.unbreak_server(s)
            g.set_encoding(happy=sc["happy"])
            obs["first_status"] = out0.status if out0.status != "error" else out0.error
        for s, sh in sc.get("pre", []):
            place_share(g, s, si, sh, ref["containers"][sh])
        for s, sh in sc.get("pre_delete", []):
            p = share_path(g, s, si, sh)
            if os.path.exists(p):
                os.unlink(p)
        pre = visible_shares(g, si)
        obs["pre"] = sorted(pre)
        obs["pre_complete"] = all(v == ref["shares"][sh] for (s, sh), v in pre.items())
        obs["order"] = g.storage_broker_order(si)
        apply_states(g, sc.get("states", {}))
        g.set_faults(sc.get("faults", []))
        n0 = len(g.sched.trace)
        with Recorder(g, batch=sc.get("batch"), late=sc.get("late", ())) as rec:
            out = g.run(later(lambda: g.upload_results(data, convergence=CONVERGENCE)), outcome=True)
            drained = g.run(defer.Deferred(), outcome=True)
        obs["status"] = out.status if out.status != "error" else out.error
        obs["message"] = (out.failure.getErrorMessage()[:300] if out.failure is not None else None)
        obs["wire"] = [list(t) for t in g.sched.trace[n0:]]
        obs["lost"] = [list(c) for c in (drained.hung_info or {}).get("lost", [])]
        g.set_faults([])
        for s, st in sc.get("states", {}).items():
            if st == "broken":
                g.unbreak_server(int(s))
        vis = visible_shares(g, si)
        obs["visible"] = sorted(vis)
        obs["partial"] = sorted(k_ for k_, v in vis.items() if v != ref["shares"][k_[1]])
        obs["incoming"] = incoming_shares(g, si)
        obs["late_delivered"] = list(rec.late_delivered)
        if getattr(rec, "encoder", None) is not None and rec.enc["landlords"] is not None:
            rec.enc["final_servermap"] = dict((sh, sorted(rec.ix(p) for p in ps)) for sh, ps in rec.encoder.servermap.items())
            rec.enc["final_landlords"] = sorted(rec.encoder.landlords.keys())
        obs["rec"] = {"initial": rec.initial, "existing": rec.existing, "rounds": rec.rounds, "aborts": rec.aborts, "enc": rec.enc,
                      "sel_verdict": rec.sel_verdict, "sel_result": getattr(rec, "sel_result", None), "final": getattr(rec, "final", None)}
        if out.status == "ok":
            ur = out.value
            obs["sharemap"] = sorted((g.server_index(srv.get_serverid()), sh) for sh, srvs in ur.get_sharemap().items() for srv in srvs)
            obs["servermap"] = sorted((g.server_index(srv.get_serverid()), sh) for srv, shs in ur.get_servermap().items() for sh in shs)
            obs["counts"] = [ur.get_preexisting_shares(), ur.get_pushed_shares()]
            obs["cap_ok"] = (ur.get_uri() == ref["cap"])
            if sc.get("download"):
                # keep exactly the shares the results name (plus the found pre-existing ones) and read the file back
                keep = set(obs["sharemap"]) | set(found_edges(sc, obs))
                for sh in g.find_shares(si):
                    if (sh.server, sh.shnum) not in keep:
                        g.delete_share(sh)
                rd = g.run(later(lambda: g.download(ref["cap"])), outcome=True)
                obs["download"] = {"status": rd.status if rd.status != "error" else rd.error, "same": rd.status == "ok" and rd.value == data,
                                   "distinct": len(set(sh for _, sh in keep))}
        obs["logged_errors"] = len(g.logged_errors)
    return obs


def faulted(sc, server, method):
    """Does the scenario keep the client from getting `server`'s answer to its first `method` call?"""
    if sc.get("states", {}).get(str(server), sc.get("states", {}).get(server)) == "broken":
        return True
    for f in sc.get("faults", []):
        if f.get("server") == server and f.get("method") == method and f.get("action") in ("error", "error_after", "drop", "drop_response") \
                and f.get("nth", 0) == 0:
            return True
    return False


def found_edges(sc, obs):
    """Pre-existing complete shares the uploader can have found: on one of the first 2N servers of the permuted
    list whose get_buckets answer reached the client (scenario data and disk state only)."""
    cand = obs["order"][:2 * sc["N"]]
    return sorted((s, sh) for (s, sh) in map(tuple, obs["pre"]) if s in cand and not faulted(sc, s, "get_buckets"))


# ---------------------------------------------------------------------------------------------
# model terms
# ---------------------------------------------------------------------------------------------
def t_ns(xs):
    return T.lst([T.N(x) for x in xs])


def t_dmap(d):
    return T.lst(["(%s, %s)" % (T.N(int(k)), t_ns(v)) for k, v in sorted((int(k), v) for k, v in d.items())])


def t_pairs(ps):
    return T.lst(["(%s, %s)" % (T.N(a), T.N(b)) for a, b in ps])


WRITE_STAGES = ["put_crypttext_hashes", "put_block_hashes", "put_share_hashes", "put_uri_extension"]


def stage_labels(nseg):
    return ["start"] + ["segnum=%d" % i for i in range(nseg)] + WRITE_STAGES


def model_inputs(sc, obs):
    """(config term, script term) from the recorded responses of the real upload."""
    rec = obs["rec"]
    cfg = "{| c_happy := %s; c_total := %s; c_ro := %s; c_rw := %s |}" % (
        T.Z(sc["happy"]), T.N(sc["N"]), t_ns(rec["initial"]["ro"]), t_ns(rec["initial"]["rw"]))
    ex = T.lst(["(%s, %s)" % (T.N(s), "ExErr" if shs is None else "(ExOk %s)" % t_ns(shs)) for s, _kind, shs in rec["existing"]])
    rounds = []
    for rnd in rec["rounds"]:
        plan = T.lst(["(%s, %s)" % (T.N(int(sh)), T.opt(None if p is None else T.N(p))) for sh, p in sorted(rnd["plan"].items())])
        resps = T.lst(["(%s, %s)" % (T.N(s), "AlErr" if r[0] == "err" else "(AlOk %s %s)" % (t_ns(r[1]), t_ns(r[2]))) for s, r in rnd["resps"]])
        rounds.append("{| r_plan := %s; r_resps := %s |}" % (plan, resps))
    enc = rec["enc"]
    writes, close = [], []
    if enc["landlords"] is not None:
        nseg = enc["nseg"]
        allsh = list(range(sc["N"]))
        fails = enc["fails"]
        for label in stage_labels(nseg):
            bad = [sh for sh, where, _present, _raised in fails if where == label]
            writes.append(T.lst(["(%s, WErr)" % T.N(sh) for sh in bad] + ["(%s, WOk)" % T.N(sh) for sh in allsh if sh not in bad]))
        # close round: what happened on the wire tells a failed flush from a failed close
        wire_close = {}
        for _seq, _c, srv, meth, shnum, action in obs["wire"]:
            if meth == "close":
                wire_close[(srv, shnum)] = action
        bad = [sh for sh, where, _present, _raised in fails if where == "close"]
        for sh in bad:
            srv = enc["landlords"].get(sh, enc["landlords"].get(str(sh)))
            act = wire_close.get((srv, sh))
            if act is None:
                close.append("(%s, CFlushErr)" % T.N(sh))
            else:
                close.append("(%s, CErr %s)" % (T.N(sh), T.boolean(act != "error")))
        close += ["(%s, COk)" % T.N(sh) for sh in allsh if sh not in bad]
    script = "{| x_existing := %s; x_rounds := %s; x_writes := %s; x_close := %s |}" % (ex, T.lst(rounds), T.lst(writes), T.lst(close))
    return cfg, script


def impl_verdict(obs):
    rec = obs["rec"]
    st = obs["status"]
    if st == "ok":
        return "VSuccess"
    if st == "UploadUnhappinessError":
        return "VUnhappySel" if rec["sel_verdict"] == "unhappy" else "VUnhappyEnc"
    if st == "AssertionError" and rec["enc"]["assert"]:
        return "VAssert"
    return None


def model_term(sc, obs):
    """Closed bool term: the model replayed on the recorded responses gives the implementation's verdict, bookkeeping,
    queries, aborts, closes, final servermap and reported map."""
    rec = obs["rec"]
    cfg, script = model_inputs(sc, obs)
    v = impl_verdict(obs)
    f = rec["final"]
    o = ("{| o_preexisting := %s; o_homeless := %s; o_use := %s; o_with_shares := %s; o_peers := %s; o_ro_peers := %s; "
         "o_bad_peers := %s; o_existing := %s; o_wtrackers := %s; o_rtrackers := %s; o_stats := %s |}" % (
             t_dmap(f["preexisting"]), t_ns(f["homeless"]), t_dmap(f["use"]), t_ns(f["with_shares"]), t_ns(f["peers"]),
             t_ns(f["ro_peers"]), t_ns(f["bad_peers"]), t_dmap(f["existing"]), t_ns(f["write_trackers"]),
             t_ns(f["readonly_trackers"]), t_ns(f["stats"])))
    queries = T.lst([T.lst(["(%s, %s)" % (T.N(s), t_ns(shs)) for s, shs in rnd["queries"]]) for rnd in rec["rounds"]])
    aborted = sorted(set((srv, sh) for _q, _c, srv, meth, sh, _a in obs["wire"] if meth == "abort"))
    closed = sorted(set((srv, sh) for _q, _c, srv, meth, sh, _a in obs["wire"] if meth == "close"))
    parts = ["verdict_eqb (r_verdict r) %s" % v, "sel_matches (r_sel r) %s" % o, "all_queries_eqb (r_queries r) %s" % queries,
             "pairs_eqb (aborted_buckets (r_log r)) %s" % t_pairs(aborted), "pairs_eqb (closed_buckets (r_log r)) %s" % t_pairs(closed)]
    if v == "VSuccess":
        parts.append("pairs_eqb (r_placed r) %s" % t_pairs([(sh, srv) for srv, sh in obs["sharemap"]]))
    if v in ("VSuccess", "VUnhappyEnc"):
        parts.append("dm_eqb (r_servermap r) %s" % t_dmap(rec["enc"]["final_servermap"]))
        parts.append("dm_eqb (r_found r) %s" % t_dmap(rec["sel_result"]["already"]))
    parts.append("honest_runb c x")      # hypotheses of honest_upload_never_asserts hold on the real trace
    return "(let c := %s in let x := %s in let r := upload_run c x in %s)" % (cfg, script, " && ".join(parts))


# ---------------------------------------------------------------------------------------------
# generator
# ---------------------------------------------------------------------------------------------
def gen_multihold(r, sc):
    """One or two servers already hold several share numbers (an earlier upload that reached only them); the other servers
    are writable and one or two of them fail a write or the close of the share they receive, a share number the multi-share
    server holds too; happy is exactly what is reachable before the failure (rarely one less).  After the failure the
    surviving layout is short of happy although every share number is still recorded on some server."""
    S, N = max(sc["servers"], 2), max(sc["N"], 2)
    sc["servers"], sc["N"] = S, N
    holders = r.sample(range(S), min(S - 1, r.choice([1, 1, 2])))
    others = [s for s in range(S) if s not in holders]
    pre = set()
    for h in holders:
        for sh in r.sample(range(N), r.randint(max(2, N - 1), N)):
            pre.add((h, sh))
    states, faults = {}, []
    for h in holders:
        st = r.choice(["ro-announced", "ro-announced", "full", "ro", None])
        if st:
            states[str(h)] = st
    for s in others:
        if r.random() < 0.15:
            states[str(s)] = r.choice(["full", "ro"])
    writable = [s for s in others if str(s) not in states]
    victims = r.sample(writable, min(len(writable), r.choice([1, 1, 2])))
    for v in victims:
        if r.random() < 0.6:
            faults.append({"server": v, "method": "write", "nth": r.choice([0, 0, 1, 2]), "count": r.choice([1, None]),
                           "action": r.choice(["error", "error", "error_after"])})
        else:
            faults.append({"server": v, "method": "close", "nth": 0, "count": 1, "action": r.choice(["error", "error", "error_after"])})
    for s in writable:
        if s not in victims and r.random() < 0.1:
            faults.append({"server": s, "method": r.choice(["allocate_buckets", "write", "close"]), "nth": 0, "count": None, "action": "delay"})
    reach = kuhn(set(pre) | set((s, sh) for s in writable for sh in range(N)))
    sc["pre"] = sorted(list(e) for e in pre)
    sc["states"] = states
    sc["faults"] = faults
    sc["happy"] = max(1, min(N, r.choice([reach, reach, reach, reach, reach - 1])))
    sc["download"] = r.random() < 0.5
    return sc


def slow_fault(server):
    return {"server": server, "method": "allocate_buckets", "nth": 0, "count": 1, "action": "delay", "until": "timers"}


def gen_latealloc(r, sc):
    """A grid that is only just big enough, with one (rarely two) SLOW servers: the first allocate_buckets answer of a slow server
    is withheld past the selector's 15 s timeout and arrives right after it, while the selector is asking again.  The late buckets
    are never written, so they must not count: happy is the number of prompt healthy servers plus one (must fail), sometimes
    exactly that number (must succeed on the prompt servers alone)."""
    S = max(2, min(sc["servers"], 8))
    N = r.randint(S, 10) if r.random() < 0.8 else max(2, r.randint(2, S))
    sc["servers"], sc["N"], sc["k"] = S, N, min(sc["k"], N)
    sc["segsize"] = max(sc["k"], sc["segsize"])
    late = r.sample(range(S), 1 if (S < 4 or r.random() < 0.8) else 2)
    states, pre = {}, set()
    for s in range(S):
        if s not in late and r.random() < 0.12:
            states[str(s)] = r.choice(["full", "ro", "ro-announced"])
    if r.random() < 0.3:
        for _ in range(r.randint(1, 2)):
            pre.add((r.randrange(S), r.randrange(N)))
    prompt = [s for s in range(S) if s not in late and str(s) not in states]
    reach = kuhn(set(pre) | set((s, sh) for s in prompt for sh in range(N)))
    sc["late"] = sorted(late)
    sc["pre"] = sorted(list(e) for e in pre)
    sc["states"] = states
    sc["faults"] = [slow_fault(s) for s in sorted(late)]
    sc["happy"] = max(1, min(N, r.choice([reach + 1, reach + 1, reach + 1, reach])))
    sc["download"] = r.random() < 0.4
    return sc


def gen_scenario(r, thorough=False):
    S = r.choice([1, 2, 3, 3, 4, 4, 5, 5, 6, 6, 7, 8, 8, 10, 12])
    N = r.choice([1, 2, 3, 3, 4, 4, 5, 5, 6, 6, 8, 10])
    k = r.choice([1, 1, 2, 2, 3, r.randint(1, N)])
    k = min(k, N)
    size = r.choice([56, 57, 100, 300, 300, 1000])
    nseg = r.choice([1, 1, 2, 3, 4])
    segsize = max(k, -(-size // nseg))
    batch = r.choice([None, None, 40, 100, 400])
    sc = {"seed": r.getrandbits(30), "servers": S, "k": k, "N": N, "size": size, "segsize": segsize, "batch": batch}
    style = r.choice(["clean", "mixed", "mixed", "mixed", "hostile", "preheavy", "dupes", "multihold", "multihold", "latealloc"])
    if style == "multihold":
        return gen_multihold(r, sc)
    if style == "latealloc":
        return gen_latealloc(r, sc)
    states, faults = {}, []
    p_bad = {"clean": 0.0, "mixed": 0.3, "hostile": 0.6, "preheavy": 0.25, "dupes": 0.5}[style]
    for s in range(S):
        if r.random() >= p_bad:
            if r.random() < 0.12:
                faults.append({"server": s, "method": r.choice(["get_buckets", "allocate_buckets", "write", "close"]), "nth": 0, "count": None, "action": "delay"})
            continue
        kind = r.choice(["full", "full", "ro", "ro-announced", "ro-announced", "broken", "alloc-error", "alloc-error", "alloc-lost",
                         "write-error", "write-error", "write-error", "close-error", "close-error", "close-error-after", "get-error", "get-lost"])
        if kind in ("full", "ro", "ro-announced", "broken"):
            states[str(s)] = kind
        elif kind == "alloc-error":
            faults.append({"server": s, "method": "allocate_buckets", "nth": r.choice([0, 0, 0, 1]), "count": r.choice([1, None]), "action": "error"})
        elif kind == "alloc-lost":
            faults.append({"server": s, "method": "allocate_buckets", "nth": 0, "count": 1, "action": r.choice(["drop_response", "error_after", "drop"])})
        elif kind == "write-error":
            faults.append({"server": s, "method": "write", "nth": r.choice([0, 0, 1, 2, 3, 5]), "count": r.choice([1, 1, None]),
                           "action": r.choice(["error", "error", "error_after"])})
        elif kind == "close-error":
            faults.append({"server": s, "method": "close", "nth": r.choice([0, 0, 1]), "count": 1, "action": "error"})
        elif kind == "close-error-after":
            faults.append({"server": s, "method": "close", "nth": 0, "count": 1, "action": "error_after"})
        elif kind == "get-error":
            faults.append({"server": s, "method": "get_buckets", "nth": 0, "count": 1, "action": r.choice(["error", "error_after"])})
        elif kind == "get-lost":
            faults.append({"server": s, "method": "get_buckets", "nth": 0, "count": 1, "action": r.choice(["drop", "drop_response"])})
    pre = set()
    if style == "preheavy":
        for _ in range(r.randint(1, N + 3)):
            pre.add((r.randrange(S), r.randrange(N)))
    elif style == "dupes":
        for sh in r.sample(range(N), min(N, r.choice([1, 1, 2]))):
            for s in r.sample(range(S), min(S, r.randint(2, 4))):
                pre.add((s, sh))
    elif style != "clean" and r.random() < 0.5:
        for _ in range(r.randint(1, 3)):
            pre.add((r.randrange(S), r.randrange(N)))
    sc["pre"] = sorted(list(e) for e in pre)
    if style in ("mixed", "preheavy") and r.random() < 0.2 and S >= 2:
        sc["first"] = sorted(r.sample(range(S), r.randint(1, S - 1)))
    sc["states"] = states
    sc["faults"] = faults
    # happiness threshold around what the healthy servers can give
    noisy = set(int(s) for s in states) | set(f["server"] for f in faults if f["action"] != "delay")
    healthy = S - len(noisy)
    guess = min(N, healthy + len(set(s for s, _ in pre if s in noisy and states.get(str(s)) != "broken")))
    sc["happy"] = max(1, min(N + (1 if r.random() < 0.04 else 0),
                             r.choice([guess - 1, guess, guess, guess, guess + 1, guess + 1, r.randint(1, N), 1, N])))
    if r.random() < 0.08:
        sc["fifo"] = "none"
    sc["download"] = r.random() < 0.5
    return sc


def excused_incoming(sc):
    """Servers on which an allocated bucket may legitimately stay in incoming/: abort cannot be delivered (broken) or the
    client never learnt of the allocation in time (answer to allocate_buckets lost, turned into an error after execution, or
    arriving after the selector's 15 s timeout)."""
    ex = set(int(s) for s, st in sc.get("states", {}).items() if st == "broken")
    for f in sc.get("faults", []):
        if f.get("method") == "allocate_buckets" and f.get("action") in ("drop_response", "error_after"):
            ex.add(f["server"])
    ex |= set(sc.get("late", ()))      # answer arrived after the selector's timeout: the uploader never uses nor aborts those buckets
    return ex


def judge(ctx, sc, obs):
    """The property evaluated on what the servers hold (independent of the model).  Returns the number of oracle failures."""
    bad = 0
    st = obs["status"]
    case = {"scenario": sc}
    visible = set(map(tuple, obs["visible"]))
    partial = set(map(tuple, obs["partial"]))
    if st == "ok":
        named = set(map(tuple, obs["sharemap"]))
        missing = sorted(e for e in named if e not in visible or e in partial)
        if missing:
            bad += 1
            ctx.oracle_fail("reported-share-missing-or-incomplete",
                            "upload succeeded and names (server, share) %r, which are absent or incomplete on those servers" % (missing,),
                            case=case, expected="every named share complete on its server", observed={"visible": sorted(visible), "partial": sorted(partial)})
        edges = set(e for e in named if e in visible and e not in partial)
        edges |= set(e for e in map(tuple, found_edges(sc, obs)) if e in visible and e not in partial)
        m = kuhn(edges)
        if m < sc["happy"]:
            bad += 1
            ctx.oracle_fail("success-below-happiness-threshold",
                            "upload reported success with happy=%d but the shares it placed or can have found admit a maximum matching of only %d" % (sc["happy"], m),
                            case=case, expected=">= %d" % sc["happy"], observed={"matching": m, "edges": sorted(edges), "sharemap": sorted(named)})
        if set(map(tuple, obs["servermap"])) != named or obs["counts"][1] != len(set(sh for _, sh in named)):
            bad += 1
            ctx.oracle_fail("results-maps-inconsistent", "UploadResults sharemap, servermap and pushed count disagree", case=case,
                            observed={"sharemap": obs["sharemap"], "servermap": obs["servermap"], "counts": obs["counts"]})
        dl = obs.get("download")
        if dl and dl["distinct"] >= sc["k"] and not dl["same"]:
            bad += 1
            ctx.oracle_fail("reported-shares-not-readable", "with only the shares the upload placed or found left on the grid the file cannot be read back (%s)" % dl["status"],
                            case=case, expected="file contents", observed=dl)
    elif st == "UploadUnhappinessError":
        if partial:
            bad += 1
            ctx.oracle_fail("partial-share-visible-after-unhappiness", "upload failed with UploadUnhappinessError and readers see incomplete shares %r" % (sorted(partial),),
                            case=case, expected="no incomplete share visible", observed=sorted(partial))
        ex = excused_incoming(sc)
        left = sorted(e for e in map(tuple, obs["incoming"]) if e[0] not in ex)
        if left:
            bad += 1
            ctx.oracle_fail("incoming-share-left-after-unhappiness", "upload failed with UploadUnhappinessError and did not abort the buckets %r (still in incoming/)" % (left,),
                            case=case, expected="every allocated bucket aborted", observed=left)
    return bad


# ---------------------------------------------------------------------------------------------
# designed scenarios (boundaries of the happiness test, abort paths, replanning)
# ---------------------------------------------------------------------------------------------
def designed():
    base = {"seed": 11, "k": 1, "size": 300, "segsize": 150, "batch": 60, "pre": [], "states": {}, "faults": [], "download": True}

    def sc(**kw):
        d = dict(base)
        d.update(kw)
        return d
    out = [
        # happiness exactly at the threshold / one below it
        sc(servers=3, N=3, happy=3),
        sc(servers=3, N=3, happy=3, states={"2": "full"}),
        sc(servers=4, N=4, happy=3, states={"1": "full"}),
        sc(servers=4, N=4, happy=4, states={"1": "ro"}),
        # many servers, few distinct shares: number of servers exceeds the matching
        sc(servers=3, N=2, happy=2, pre=[[0, 0], [1, 0], [2, 0]], states={"0": "full", "1": "full", "2": "full"}),
        sc(servers=4, N=3, happy=3, pre=[[0, 1], [1, 1], [2, 1], [3, 1]], states={"0": "ro-announced", "1": "ro-announced", "2": "full"}),
        sc(servers=5, N=4, happy=3, pre=[[0, 2], [1, 2], [2, 2]], states={"0": "ro", "1": "full", "2": "ro-announced", "3": "full"}),
        # selector failure with buckets already allocated (abort path of _failed)
        sc(servers=3, N=3, happy=3, faults=[{"server": 1, "method": "allocate_buckets", "nth": 0, "count": None, "action": "error"}]),
        sc(servers=5, N=5, happy=5, states={"4": "full"}, k=2),
        # encoder: a write / the close fails at the threshold, and one above it
        sc(servers=3, N=3, happy=3, faults=[{"server": 2, "method": "write", "nth": 1, "count": 1, "action": "error"}]),
        sc(servers=3, N=3, happy=2, faults=[{"server": 2, "method": "write", "nth": 1, "count": 1, "action": "error"}]),
        sc(servers=3, N=3, happy=3, faults=[{"server": 0, "method": "close", "nth": 0, "count": 1, "action": "error"}]),
        sc(servers=3, N=3, happy=3, faults=[{"server": 0, "method": "close", "nth": 0, "count": 1, "action": "error_after"}]),
        sc(servers=4, N=4, happy=3, faults=[{"server": 0, "method": "close", "nth": 0, "count": 1, "action": "error"},
                                            {"server": 1, "method": "write", "nth": 0, "count": 1, "action": "error_after"}]),
        sc(servers=4, N=4, happy=2, batch=None, faults=[{"server": 3, "method": "write", "nth": 0, "count": None, "action": "error"},
                                                        {"server": 2, "method": "close", "nth": 0, "count": 1, "action": "error"}]),
        # a server already holds several share numbers; the server receiving one of them again fails: the share number is still
        # recorded (on the multi-share server), but that server is needed for another share in the matching
        sc(servers=2, N=2, happy=2, pre=[[0, 0], [0, 1]], states={"0": "ro-announced"}, faults=[{"server": 1, "method": "write", "nth": 1, "count": 1, "action": "error"}]),
        sc(servers=2, N=2, happy=2, pre=[[0, 0], [0, 1]], faults=[{"server": 1, "method": "write", "nth": 1, "count": 1, "action": "error"}]),
        sc(servers=2, N=2, happy=2, pre=[[0, 0], [0, 1]], states={"0": "full"}, faults=[{"server": 1, "method": "close", "nth": 0, "count": 1, "action": "error"}]),
        sc(servers=3, N=3, happy=3, pre=[[0, 0], [0, 1], [0, 2]], faults=[{"server": 2, "method": "write", "nth": 1, "count": 1, "action": "error"}]),
        sc(servers=3, N=3, happy=3, pre=[[0, 0], [0, 1], [0, 2]], states={"0": "ro-announced"}, faults=[{"server": 1, "method": "close", "nth": 0, "count": 1, "action": "error"}]),
        sc(servers=3, N=3, happy=2, pre=[[0, 0], [0, 1], [0, 2]], states={"1": "full"}, faults=[{"server": 2, "method": "write", "nth": 1, "count": 1, "action": "error"}]),
        sc(servers=4, N=4, happy=3, pre=[[0, 0], [0, 1], [0, 2], [0, 3], [1, 0], [1, 1]], states={"0": "ro-announced", "1": "ro"},
           faults=[{"server": 2, "method": "write", "nth": 1, "count": 1, "action": "error"}, {"server": 3, "method": "close", "nth": 0, "count": 1, "action": "error"}]),
        # a slow server: its allocate_buckets answer arrives after the selector's timeout; the buckets are never written and must
        # not count.  Grid just big enough with it (must fail) / without it (must succeed on the prompt servers)
        sc(servers=7, k=3, N=10, happy=7, size=1000, segsize=999, batch=None, late=[3], faults=[slow_fault(3)]),
        sc(servers=8, k=3, N=10, happy=7, size=1000, segsize=999, batch=None, late=[5], faults=[slow_fault(5)]),
        sc(servers=2, N=2, happy=2, late=[1], faults=[slow_fault(1)]),
        sc(servers=3, N=4, happy=3, late=[0], faults=[slow_fault(0)]),
        sc(servers=4, N=4, happy=3, late=[2], states={"1": "full"}, pre=[[1, 0]], faults=[slow_fault(2)]),
        # pre-existing shares count towards happiness; a failing server that holds one still counts as found
        sc(servers=3, N=3, happy=3, pre=[[0, 0], [1, 1]], states={"0": "ro-announced", "1": "ro-announced"}),
        sc(servers=3, N=3, happy=3, pre=[[0, 0], [1, 0]], states={"0": "ro-announced", "1": "ro-announced"}),
    ]
    return out


def corpus_scenarios():
    import glob
    import json
    from core import env
    out = []
    for p in sorted(glob.glob(os.path.join(env.CORPUS, "C06", "*.json"))):
        with open(p) as f:
            d = json.load(f)
        out.append(d.get("scenario", d))
    return out


# ---------------------------------------------------------------------------------------------
# driver
# ---------------------------------------------------------------------------------------------
def nontrivial(sc):
    return bool(sc.get("states")) or bool(sc.get("pre")) or sc.get("first") is not None or bool(sc.get("late")) or \
        any(f.get("action") != "delay" for f in sc.get("faults", []))


def one_case(ctx, sc, terms, info, origin):
    import json
    obs = run_scenario(sc)
    v = impl_verdict(obs)
    rounds = len(obs["rec"]["rounds"])
    ctx.case(json.dumps(sc, sort_keys=True) if nontrivial(sc) else None,
             kind="%s:%s%s" % (origin, v or obs["status"], ":rounds>1" if rounds > 1 else ""))
    case = {"scenario": sc}
    judge(ctx, sc, obs)
    if obs["status"] == "AssertionError" and obs["rec"]["enc"]["assert"]:
        ctx.oracle_fail("upload-assertion-duplicate-share-writers",
                        "the selector reported success, then set_shareholders raised AssertionError (two servers hold a writer for one share): "
                        "the upload fails without UploadUnhappinessError and its buckets %r are never aborted" % (obs["incoming"],),
                        case=case, expected="success or UploadUnhappinessError", observed=obs["message"])
    if v is None:
        ctx.mismatch("upload-outcome-outside-model", "the upload ended with %s, which the model does not produce (%s)" % (obs["status"], obs["message"]),
                     case=case, expected="ok / UploadUnhappinessError", observed={"status": obs["status"], "lost": obs["lost"]},
                     correspondence="upload-trace-vs-model")
        return obs
    if obs["status"] == "ok" and obs["partial"]:
        ctx.mismatch("partial-share-visible-after-success", "readers see incomplete shares %r after a successful upload (the model's visible_share_complete excludes it)" % (obs["partial"],),
                     case=case, observed=obs["partial"], correspondence="upload-trace-vs-model")
    if obs["status"] == "ok" and not obs["cap_ok"]:
        ctx.mismatch("cap-differs-from-fault-free-upload", "the cap returned under faults differs from the cap of the fault-free upload of the same file",
                     case=case, correspondence="upload-trace-vs-model")
    terms.append(model_term(sc, obs))
    info.append((sc, obs["status"], v))
    return obs


def run(ctx):
    ctx.correspondence("upload-trace-vs-model")
    terms, info = [], []
    fixed = [("corpus", s) for s in corpus_scenarios()] + [("designed", s) for s in designed()]
    for origin, sc in fixed:
        one_case(ctx, sc, terms, info, origin)
    n = ctx.n(80, 1400)
    for i in range(n):
        r = ctx.rng("grid", i)
        sc = gen_scenario(r)
        obs = one_case(ctx, sc, terms, info, "grid")
        if i < 3:
            ctx.sample({"scenario": sc, "status": obs["status"], "sharemap": obs.get("sharemap"), "visible": obs["visible"],
                        "rounds": len(obs["rec"]["rounds"])})
    bad = ctx.coq_check(IMPORTS, terms, tag="c06")
    for ix in bad:
        sc, status, v = info[ix]
        ctx.mismatch("upload-model-differs", "Model/UploadSel.v replayed on the recorded answers disagrees with the real upload (%s) on verdict, bookkeeping, "
                     "queries, aborts, closes or maps" % v, case={"scenario": sc}, observed=status, correspondence="upload-trace-vs-model")
    ctx.trace(len(terms) - len(bad))
    ctx.note("%d scenarios replayed on the model; reference shares cached for %d parameter sets" % (len(terms), len(_refs)))


def replay(ctx, record):
    sc = (record.get("case") or {}).get("scenario")
    if sc is None:
        return {"error": "record has no scenario"}
    obs = run_scenario(sc)
    out = {"status": obs["status"], "message": obs["message"], "sharemap": obs.get("sharemap"), "visible": obs["visible"], "partial": obs["partial"],
           "incoming": obs["incoming"], "found": found_edges(sc, obs), "order": obs["order"], "download": obs.get("download"),
           "rounds": obs["rec"]["rounds"], "encoder": obs["rec"]["enc"], "wire": obs["wire"]}

    class _C(object):
        def __init__(self):
            self.fails = []

        def oracle_fail(self, kind, what, **kw):
            self.fails.append({"kind": kind, "what": what})
    c = _C()
    judge(c, sc, obs)
    out["oracle_failures"] = c.fails
    if impl_verdict(obs) is not None:
        cfg, script = model_inputs(sc, obs)
        out["model_agrees"] = not ctx.coq_check(IMPORTS, [model_term(sc, obs)], tag="c06replay")
        out["model"] = ctx.coq_eval(IMPORTS, "(let r := upload_run %s %s in (r_verdict r, r_placed r, r_servermap r, aborted_buckets (r_log r), r_queries r))" % (cfg, script))
    return out


def search(ctx, mismatches):
    """Nothing beyond run(): with ctx.search the random stream uses the thorough budget under another seed."""
    return None
