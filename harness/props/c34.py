"""C34  Introducer announcements are authentic and fresh."""
import base64
import hashlib
import json
import os
import re

from core import env
from core import term as T

ID = "C34"
GEN = []
RULE = ("cases: streams of 2..7 batches of announcements from 4 real Ed25519 keys fed to a real IntroducerClient "
        "(got_announcements) and IntroducerService (publish): valid, replayed, reordered, duplicate, wrong claimed key, flipped "
        "message / signature bytes, malformed encodings (unsigned, no v0- prefix, bad base32, wrong length, respelled key, not a "
        "triple), signed-but-malformed content (not UTF-8 / JSON / object, no service-name, bad nickname / FURL), missing, float and "
        "non-numeric seqnum; new subscribers register in mid-stream and are checked against what is held; in about three streams of four the connection to the introducer is lost and re-established between batches "
        "(notifyOnDisconnect callback, then _got_versioned_introducer) and old validly signed announcements are replayed right after; non-trivial = a stream in which at least one announcement replaces a stored one and at least one bad "
        "announcement precedes a good one in the same batch; distinct = distinct (verdict sequence of the stream)")
META = {
    "title": "Introducer announcements are authentic and fresh",
    "level_text": ("Theorems in Coq over a model of unsign_from_foolscap, the client's batch loop and _process_announcement (and the "
                   "server's _publish), for EVERY signature scheme / key-string parser / JSON decoder: whatever stream arrives, "
                   "everything stored or delivered appeared in the stream with a signature verifying under the key it is filed "
                   "under (under signature soundness: was signed by that key); per (service, key) an integer seqnum is only ever "
                   "replaced by a strictly greater one; a rejected announcement leaves the state untouched and the rest of its batch "
                   "is processed as if it were absent; connection losses between batches change nothing that was accepted.  The model on symbolic signatures is run against real IntroducerClient and "
                   "IntroducerService objects with real keys; the property's rules are evaluated directly on what subscribers receive."),
    "level_note": ("Ed25519, base32 and JSON are abstract in the proof and exercised by the differential run only; foolscap "
                   "transport, the announcement cache file and subscriber callbacks are outside the model.  Model follows the fixed "
                   "code (known_findings.jsonl: batch abort, key-string respelling)."),
    "technique": "Coq proof over an executable model (abstract signature scheme) + differential run vs implementation with real keys",
    "design_ref": "8/C34, 9/C34",
    "trusted_base": ["driver's classification of wire fields and mapping of real keys/signatures/messages to symbols (harness/props/c34.py)",
                     "stdlib json used to fill the model's decode table"],
    "assumptions": ["signature soundness of Ed25519 (hypothesis of attributed_to_signer)"],
}

IMPORTS = ["Lib.Sig", "Model.Announce"]
NKEYS = 4
GOOD_FURL = "pb://62ubehyunnyhzs7r6vdonnm2hpi52w6y@127.0.0.1:36106/gydnp"
SUBSCRIBED = ["storage", "stub"]
B32 = b"abcdefghijklmnopqrstuvwxyz234567"

_keys = {}


def key(i):
    from allmydata.crypto import ed25519
    from allmydata.util import base32
    if i not in _keys:
        seed = hashlib.sha256(b"verif-c34-%d" % i).digest()
        sk, vk = ed25519.signing_keypair_from_string(b"priv-v0-" + base32.b2a(seed))
        ks = ed25519.string_from_verifying_key(vk)[len(b"pub-"):]
        _keys[i] = (sk, vk, ks)
    return _keys[i]


def b32(raw):
    return base64.b32encode(raw).rstrip(b"=").lower()


def alias_of(ks):
    """Another spelling of the same key: flip an unused trailing bit of the last base32 character."""
    v = B32.index(ks[-1:])
    return ks[:-1] + B32[v ^ 8:(v ^ 8) + 1]


def lenient_b32decode(s):
    """Independent base32 reading (stdlib): bytes or None."""
    if not s or any(c not in B32 for c in s):
        return None
    if len(s) % 8 in (1, 3, 6):
        return None
    try:
        return base64.b32decode(s.upper() + b"=" * ((8 - len(s) % 8) % 8))
    except Exception:
        return None


class Signed(object):
    """Everything genuinely signed in a stream: (key index, message bytes) -> signature bytes."""

    def __init__(self):
        self.sigs = {}

    def sign(self, k, msg):
        from allmydata.crypto import ed25519
        if (k, msg) not in self.sigs:
            self.sigs[(k, msg)] = ed25519.sign_data(key(k)[0], msg)
        return self.sigs[(k, msg)]

    def who(self, sig_raw):
        for (k, m), s in self.sigs.items():
            if s == sig_raw:
                return k, m
        return None


def make_ann(r, k, seq, service="storage", variant=0):
    d = {"service-name": service, "nonce": "n%d" % r.randrange(10 ** 6), "my-version": "v%d" % variant,
         "anonymous-storage-FURL": GOOD_FURL, "nickname": "node-%d" % k}
    if seq is not None:
        d["seqnum"] = seq
    return d


def gen_stream(r):
    """-> (signed registry, batches) ; a batch is a list of items dict(kind, wire) where wire is what is handed to the client."""
    from allmydata.introducer.common import sign_to_foolscap
    S = Signed()
    history = {k: [] for k in range(1, NKEYS + 1)}     # genuine ann_t per key, oldest first
    nextseq = {k: r.randrange(1, 5) for k in history}

    def genuine(k, d):
        msg, sig, ks = sign_to_foolscap(d, key(k)[0])
        S.sigs[(k, msg)] = lenient_b32decode(sig[3:])
        t = (msg, sig, ks)
        history[k].append(t)
        return t

    def signed_raw(k, msg):
        return (msg, b"v0-" + b32(S.sign(k, msg)), key(k)[2])

    batches = []
    reconnects = set()          # indices of batches before which the introducer connection is lost and re-established
    for _ in range(r.randrange(2, 8)):
        batch = []
        forced = []
        if batches and r.random() < 0.4:
            # an introducer restart: it comes back knowing nothing and relays whatever is published to it,
            # old but validly signed announcements included
            reconnects.add(len(batches))
            forced = [r.choice(["replay-oldest", "replay-oldest", "replay"]),
                      r.choice(["no-seqnum", "string-seqnum", "float-seqnum", "replay-oldest", "lower-seq", "fresh"])]
        if not forced and r.random() < 0.3:
            # an element that cannot even be unsigned, immediately followed by good announcements
            forced = [r.choice(["nonbytes-sig", "nonbytes-key", "nonbytes-both", "deep-json", "not-a-triple", "signed-not-object", "bad-b32-key"]),
                      "fresh", r.choice(["fresh", "fresh", "replay"])]
        for _ in range(max(len(forced), r.choice([1, 2, 3, 3, 4, 6]))):
            k = r.randrange(1, NKEYS + 1)
            kind = forced.pop(0) if forced else r.choice(["fresh"] * 6 + ["replay", "replay", "duplicate", "same-seq-other-content", "lower-seq", "wrong-service",
                                             "no-seqnum", "float-seqnum", "string-seqnum", "null-seqnum",
                                             "wrong-key", "flipped-msg", "flipped-sig", "truncated-sig",
                                             "unsigned", "sig-no-v0", "key-no-v0", "bad-b32-sig", "bad-b32-key", "short-key", "random-key",
                                             "respelled-key", "respelled-key-replay", "not-a-triple",
                                             "nonbytes-sig", "nonbytes-key", "nonbytes-both", "deep-json",
                                             "signed-not-utf8", "signed-not-json", "signed-not-object", "signed-no-service",
                                             "signed-bad-nickname", "signed-bad-furl"])
            if kind in ("replay", "duplicate", "respelled-key-replay", "wrong-key", "flipped-msg", "flipped-sig", "truncated-sig",
                        "sig-no-v0", "key-no-v0", "bad-b32-sig", "bad-b32-key", "short-key", "random-key", "respelled-key",
                        "unsigned") and not history[k]:
                kind = "fresh"
            if kind == "replay-oldest":
                cands = [kk for kk in history if len(history[kk]) >= 2]
                if cands:
                    k = r.choice(cands)
                    w = history[k][0]
                else:
                    kind = "fresh"
            if kind == "replay-oldest":
                pass
            elif kind == "fresh":
                nextseq[k] += r.choice([1, 1, 1, 2, 10])
                w = genuine(k, make_ann(r, k, nextseq[k], service=r.choice(["storage"] * 4 + ["stub"])))
            elif kind == "replay":
                w = r.choice(history[k])
            elif kind == "duplicate":
                w = history[k][-1]
            elif kind == "same-seq-other-content":
                w = genuine(k, make_ann(r, k, nextseq[k], variant=r.randrange(1, 100)))
            elif kind == "lower-seq":
                w = genuine(k, make_ann(r, k, max(0, nextseq[k] - r.randrange(1, 4)), variant=r.randrange(1, 100)))
            elif kind == "wrong-service":
                w = genuine(k, make_ann(r, k, nextseq[k] + 1, service=r.choice(["other", "7", "Storage"])))
            elif kind == "no-seqnum":
                w = genuine(k, make_ann(r, k, None, variant=r.randrange(1, 100)))
            elif kind == "float-seqnum":
                w = genuine(k, make_ann(r, k, nextseq[k] + r.choice([-1, 0, 1]) + 0.5, variant=r.randrange(1, 100)))
            elif kind == "string-seqnum":
                w = genuine(k, make_ann(r, k, str(nextseq[k] + 5), variant=r.randrange(1, 100)))
            elif kind == "null-seqnum":
                d = make_ann(r, k, None, variant=r.randrange(1, 100))
                d["seqnum"] = r.choice([None, [9], {"a": 1}])
                w = genuine(k, d)
            elif kind == "wrong-key":
                other = 1 + (k % NKEYS)
                m, s, _ = r.choice(history[k])
                w = (m, s, key(other)[2])
            elif kind == "flipped-msg":
                m, s, ks = history[k][-1]
                m2 = re.sub(br'"seqnum": (\d+)', lambda mo: b'"seqnum": %d' % (int(mo.group(1)) + 100), m)
                if m2 == m:
                    b = bytearray(m)
                    b[r.randrange(len(b))] ^= 1
                    m2 = bytes(b)
                w = (m2, s, ks)
            elif kind == "flipped-sig":
                m, s, ks = history[k][-1]
                raw = bytearray(lenient_b32decode(s[3:]))
                raw[r.randrange(len(raw))] ^= 1 << r.randrange(8)
                w = (m, b"v0-" + b32(bytes(raw)), ks)
            elif kind == "truncated-sig":
                m, s, ks = history[k][-1]
                raw = lenient_b32decode(s[3:])
                w = (m, b"v0-" + b32(raw[:r.choice([63, 32, 1])]), ks)
            elif kind == "unsigned":
                m, s, ks = history[k][-1]
                w = r.choice([(m, b"", b""), (m, s, b""), (m, b"", ks), (m, None, None)])
            elif kind == "sig-no-v0":
                m, s, ks = history[k][-1]
                w = (m, r.choice([b"v1-", b"V0-", b"x"]) + s[3:], ks)
            elif kind == "key-no-v0":
                m, s, ks = history[k][-1]
                w = (m, s, r.choice([b"v1-", b"pub-v0-", b"x"]) + ks[3:])
            elif kind == "bad-b32-sig":
                m, s, ks = history[k][-1]
                w = (m, r.choice([s[:-1] + b"1", s[:5] + b"8" + s[6:], s.upper().replace(b"V0-", b"v0-"), s + b"a"]), ks)
            elif kind == "bad-b32-key":
                m, s, ks = history[k][-1]
                w = (m, s, r.choice([ks[:-1] + b"1", ks[:5] + b"0" + ks[6:], ks + b"a", b"v0-" + ks[3:].upper()]))
            elif kind == "short-key":
                m, s, ks = history[k][-1]
                raw = lenient_b32decode(ks[3:])
                w = (m, s, b"v0-" + b32(raw[:r.choice([31, 16])] if r.random() < 0.7 else raw + b"\x00"))
            elif kind == "random-key":
                m, s, ks = history[k][-1]
                w = (m, s, b"v0-" + b32(bytes(r.getrandbits(8) for _ in range(32))))
            elif kind == "respelled-key":
                nextseq[k] += 1
                m, s, ks = genuine(k, make_ann(r, k, nextseq[k]))
                w = (m, s, alias_of(ks))
            elif kind == "respelled-key-replay":
                m, s, ks = r.choice(history[k])
                w = (m, s, alias_of(ks))
            elif kind in ("nonbytes-sig", "nonbytes-key", "nonbytes-both"):
                # a number, list, dict, True or text where the bytes of the signature / key belong
                m, s_, ks = (history[k] or [(b"{}", b"v0-aa", key(k)[2])])[-1]
                junk = lambda: r.choice([5, 7.5, [1], ["v0-x"], {"a": 1}, True, "v0-text", s_.decode("ascii"), -1])
                w = (m, junk() if kind != "nonbytes-key" else r.choice([s_, s_, b"", None]),
                     junk() if kind != "nonbytes-sig" else r.choice([ks, ks, b"x" + ks, b"", 0]))
            elif kind == "deep-json":
                # validly signed, but json.loads cannot parse it within the recursion limit
                w = signed_raw(k, b"[" * 30000 + r.choice([b"", b"1"]) + b"]" * 30000)
            elif kind == "not-a-triple":
                m, s, ks = (history[k] or [(b"{}", b"v0-aa", key(k)[2])])[-1]
                w = r.choice([(m, s), (m, s, ks, b"x"), m, (), 5])
            elif kind == "signed-not-utf8":
                w = signed_raw(k, b"\xff\xfe{}" + bytes([r.randrange(256)]))
            elif kind == "signed-not-json":
                w = signed_raw(k, r.choice([b"{", b"", b"service-name", b"{'service-name': 'storage'}"]))
            elif kind == "signed-not-object":
                w = signed_raw(k, r.choice([b"[1, 2]", b"5", b"null", b'"storage"', b"[]"]))
            elif kind == "signed-no-service":
                w = signed_raw(k, json.dumps({"seqnum": nextseq[k] + 1, "nickname": "x"}).encode())
            elif kind == "signed-bad-nickname":
                d = make_ann(r, k, nextseq[k] + 1)
                d["nickname"] = r.choice([5, None, ["n"]])
                w = genuine(k, d)
                history[k].pop()
            elif kind == "signed-bad-furl":
                d = make_ann(r, k, nextseq[k] + 1)
                d["anonymous-storage-FURL"] = r.choice(["http://example", "", 7, None, "pb://@x"])
                w = genuine(k, d)
                history[k].pop()
            batch.append(dict(kind=kind, wire=w))
        batches.append(batch)
    return S, batches, reconnects


# ---- independent reading of a wire (driver side of the abstraction) ------------------
_analysed = {}


def analyse_msg(msg):
    """-> None (not UTF-8/JSON) | "malformed" | dict(service, desc_ok, seq, canon, ann)   (memoised; dicts are copies)"""
    if msg not in _analysed:
        if len(_analysed) > 20000:
            _analysed.clear()
        _analysed[msg] = _analyse_msg(msg)
    a = _analysed[msg]
    return dict(a) if isinstance(a, dict) else a


def _analyse_msg(msg):
    try:
        js = json.loads(msg.decode("utf-8"))
    except (ValueError, RecursionError):
        return None
    if not isinstance(js, dict) or "service-name" not in js:
        return "malformed"
    nick = js.get("nickname", "")
    ok = isinstance(nick, str)
    if ok and "anonymous-storage-FURL" in js:
        furl = js.get("anonymous-storage-FURL") or js.get("FURL")
        ok = isinstance(furl, str) and re.match(r"pb://(\w+)@", furl) is not None
    if "seqnum" not in js:
        seq = ("absent",)
    else:
        v = js["seqnum"]
        if isinstance(v, bool):
            seq = ("int", int(v))
        elif isinstance(v, int):
            seq = ("int", v)
        elif isinstance(v, float) and v != int(v):
            seq = ("half", int(v // 1))
        elif isinstance(v, float):
            seq = ("int", int(v))
        else:
            seq = ("other",)
    return dict(service=str(js["service-name"]), desc_ok=ok, seq=seq, canon=json.dumps(js, sort_keys=True), ann=js)


def classify_key(ks):
    """claimed key string -> ("empty",) | ("nov0",) | ("ok", key id, spelling)   (id 0: does not decode to 32 bytes; 9: unknown key)"""
    if not ks:
        return ("empty",)
    if not isinstance(ks, bytes):
        return ("notbytes",)
    if not ks.startswith(b"v0-"):
        return ("nov0",)
    raw = lenient_b32decode(ks[3:])
    if raw is None or len(raw) != 32:
        return ("ok", 0, 0)
    for i in range(1, NKEYS + 1):
        if ks == key(i)[2]:
            return ("ok", i, 0)
        if raw == lenient_b32decode(key(i)[2][3:]):
            return ("ok", i, 1)
    return ("ok", 9, 0)


class Symbols(object):
    def __init__(self, S):
        self.S = S
        self.msg_ids = {}
        self.tbl = []
        self.body_ids = {}
        self.svc_ids = {}
        self.meta = {}

    def svc(self, name):
        return self.svc_ids.setdefault(name, 1 + len(self.svc_ids))

    def msg(self, m):
        if m not in self.msg_ids:
            mid = self.msg_ids[m] = 100 + len(self.msg_ids)
            a = analyse_msg(m) if isinstance(m, bytes) else None
            self.meta[mid] = a
            if a is None:
                ent = "None"
            elif a == "malformed":
                ent = "(Some AJMalformed)"
            else:
                body = self.body_ids.setdefault(a["canon"], 1 + len(self.body_ids))
                a["body"] = body
                seq = a["seq"]
                st = "SAbsent" if seq[0] == "absent" else "SOther" if seq[0] == "other" else "(%s %s)" % ("SInt" if seq[0] == "int" else "SHalf", T.Z(seq[1]))
                ent = "(Some (AJ (Build_ann %s %s %s %s)))" % (T.N(self.svc(a["service"])), T.boolean(a["desc_ok"]), st, T.N(body))
            self.tbl.append("(%s, %s)" % (T.N(mid), ent))
        return self.msg_ids[m]

    def wire(self, w, n):
        if not isinstance(w, tuple) or len(w) != 3:
            return "WNotTriple"
        m, s, ks = w
        mid = self.msg(m if isinstance(m, bytes) else b"")
        if not s:
            sf = "SfEmpty"
        elif not isinstance(s, bytes):
            sf = "SfNotBytes"
        elif not s.startswith(b"v0-"):
            sf = "SfNoV0"
        else:
            raw = lenient_b32decode(s[3:])
            if raw is None:
                sf = "SfBadBase32"
            else:
                who = self.S.who(raw)
                sf = "(SfOk (SigJunk %s))" % T.N(n) if who is None else "(SfOk (SigOf %s %s))" % (T.N(who[0]), T.N(self.msg(who[1])))
        c = classify_key(ks)
        kf = "KfEmpty" if c[0] == "empty" else "KfNoV0" if c[0] == "nov0" else "KfNotBytes" if c[0] == "notbytes" else "(KfOk (%s, %s))" % (T.N(c[1]), T.N(c[2]))
        return "(WTriple %s %s %s)" % (T.N(mid), sf, kf)


def alias_accepted():
    """Does the base32 layer accept a respelled key?  (environment parameter of the model)"""
    from allmydata.crypto import ed25519
    try:
        ed25519.verifying_key_from_string(b"pub-" + alias_of(key(1)[2]))
        return True
    except Exception:
        return False


# ---- the property's rules, written from the statement ---------------------------------
def rule_run(S, batches, subscribed, server=False):
    """Reference run: which announcements must / must not be delivered.  Returns list of (canonical key string, canon json)."""
    store = {}
    out = []
    for batch in batches:
        for item in batch:
            w = item["wire"]
            if not isinstance(w, tuple) or len(w) != 3 or not all(isinstance(x, bytes) for x in w):
                continue
            m, s, ks = w
            c = classify_key(ks)
            if c[0] != "ok" or not (1 <= c[1] <= NKEYS) or not s.startswith(b"v0-"):
                continue
            if c[2] == 1 and not item.get("alias_ok"):
                continue
            raw = lenient_b32decode(s[3:])
            if raw is None or S.sigs.get((c[1], m)) != raw:
                continue                       # not signed by the claimed key over exactly these bytes
            a = analyse_msg(m)
            if a is None or a == "malformed":
                continue
            if not server and (not a["desc_ok"] or a["service"] not in subscribed):
                continue
            idx = (a["service"], c[1])
            old = store.get(idx)
            if old is not None:
                if old["canon"] == a["canon"]:
                    continue
                if old["seq"][0] != "absent":
                    if a["seq"][0] != "int" or old["seq"][0] == "other" or a["seq"][1] <= old["seq"][1]:
                        continue
            store[idx] = a
            out.append((key(c[1])[2], a["canon"]))
    return out, store


def describe(batches):
    def show(w):
        if isinstance(w, tuple):
            return [(x.decode("latin-1") if len(x) <= 600 else x[:60].decode("latin-1") + "...(%d bytes)..." % len(x) + x[-60:].decode("latin-1"))
                    if isinstance(x, bytes) else repr(x) for x in w]
        return repr(w)[:600]
    return [[{"kind": it["kind"], "wire": show(it["wire"])} for it in b] for b in batches]


class FakeIntroducer(object):
    """Stands for the RemoteReference to the introducer that foolscap hands to the client on connection."""

    def __init__(self):
        from allmydata.introducer.client import V2
        self.version = {V2: {}, b"application-version": b"verif"}
        self.on_disconnect = []

    def notifyOnDisconnect(self, cb, *a, **kw):
        self.on_disconnect.append((cb, a, kw))

    def callRemote(self, *a, **kw):
        from twisted.internet import defer
        return defer.succeed(None)

    def getDataLastReceivedAt(self):
        return None

    def lose(self):
        cbs, self.on_disconnect = self.on_disconnect, []
        for cb, a, kw in cbs:
            cb(*a, **kw)


def drain_eventual():
    """Run foolscap's eventual-send queue to exhaustion (what the reactor does on its next turns)."""
    from foolscap import eventual
    q = eventual._theSimpleQueue
    for _ in range(1000):
        if not q._events:
            break
        if q._timer is not None and q._timer.active():
            q._timer.cancel()
        q._turn()


def run_client(batches, cache, reconnects=(), connected=False, late=None):
    """Feed the stream to a real IntroducerClient. -> dict(delivered, stored, counts, errors, late)
    With `connected`, the client is given an introducer connection the way foolscap does
    (_got_versioned_introducer), batches arrive through remote_announce_v2, and before the batches listed
    in `reconnects` the connection is lost (the notifyOnDisconnect callback fires) and re-established.
    `late` maps a batch index to services for which a NEW subscriber registers after that batch; what it is
    told (the backlog) is recorded together with what the early subscribers hold at that moment."""
    from twisted.python.filepath import FilePath
    from allmydata.introducer.client import IntroducerClient
    ic = IntroducerClient(None, "introducer.furl", u"verif", "ver", "oldest", lambda: (1, "n"), FilePath(cache))
    log = []
    at = []
    cur = [0]
    replaying = [False]          # a late subscription replays the backlog to every observer of the service: not a delivery

    def early(svc):
        def cb(key_s, ann):
            if not replaying[0]:
                log.append((svc, key_s, json.dumps(ann, sort_keys=True)))
                at.append(cur[0])
        return cb
    for svc in SUBSCRIBED:
        ic.subscribe_to(svc, early(svc))

    def held(svc):
        h = {}
        for s_, ks, c in log:
            if s_ == svc:
                h[ks] = c
        return sorted(h.items())

    def late_subscribe(svc):
        seen = []
        active = [True]
        replaying[0] = True
        try:
            ic.subscribe_to(svc, lambda key_s, ann: active[0] and seen.append((key_s, json.dumps(ann, sort_keys=True))))
            drain_eventual()
        finally:
            replaying[0] = False
            active[0] = False
        return seen
    errors = []
    late_obs = []
    intro = None
    if connected or reconnects:
        intro = FakeIntroducer()
        ic._got_versioned_introducer(intro)
    for bi, batch in enumerate(batches):
        cur[0] = bi
        try:
            if bi in reconnects:
                intro.lose()
                intro = FakeIntroducer()
                ic._got_versioned_introducer(intro)
            if intro is not None:
                ic.remote_announce_v2([it["wire"] for it in batch])
            else:
                ic.got_announcements([it["wire"] for it in batch])
        except BaseException as e:
            errors.append((bi, type(e).__name__, str(e)[:120]))
        drain_eventual()
        for svc in (late or {}).get(bi, ()):
            late_obs.append(dict(after_batch=bi, service=svc, held=held(svc), seen=late_subscribe(svc)))
    # read the whole store back through the public API: one more late subscriber per service
    delivered = list(log)
    at = list(at)
    stored = []
    for svc in SUBSCRIBED:
        seen = late_subscribe(svc)
        late_obs.append(dict(after_batch=len(batches) - 1, service=svc, held=held(svc), seen=seen, final=True))
        stored.extend((svc, ks, c) for ks, c in seen)
    return dict(delivered=delivered, delivered_at=at, stored=stored, counts=dict(ic._debug_counts), errors=errors, late=late_obs)


def run_server(batches):
    from allmydata.introducer.server import IntroducerService
    srv = IntroducerService()
    raised = 0
    for batch in batches:
        for it in batch:
            try:
                srv._publish(it["wire"], None, None)
            except Exception:
                raised += 1
    out = []
    # (get_announcements() builds status descriptors and itself raises on a stored announcement whose
    #  anonymous-storage-FURL is not a string; the acceptance state is the dictionary behind it)
    for index, (ann_t, canary, ann, when) in srv._announcements.items():
        out.append((index[0], index[1], json.dumps(ann, sort_keys=True)))
    return out, raised


def one_stream(ctx, i, alias_ok, cache, terms, info):
    r = ctx.rng("stream", i)
    S, batches, reconnects = gen_stream(r)
    for b in batches:
        for it in b:
            it["alias_ok"] = alias_ok
    rl = ctx.rng("late", i)
    late = dict((bi, [rl.choice(SUBSCRIBED + ["storage"])]) for bi in range(len(batches) - 1) if rl.random() < 0.3)
    obs = run_client(batches, cache, reconnects, connected=(i % 2 == 1), late=late)
    cinfo = {"stream": "stream", "index": i, "batches": describe(batches), "connection_lost_before_batches": sorted(reconnects),
             "late_subscriptions_after_batches": dict((str(k), v) for k, v in sorted(late.items()))}
    canon_of = dict((key(k)[2], k) for k in range(1, NKEYS + 1))

    # ---- direct oracle ----
    if obs["errors"]:
        bi, cls, msg = obs["errors"][0]
        kinds = [it["kind"] for it in batches[bi]]
        ctx.oracle_fail("bad-announcement-stops-batch",
                        "got_announcements raised %s (%s) on a batch with kinds %s: the announcements after the bad one were not processed" % (cls, msg, kinds),
                        case=cinfo, expected="no exception; the rest of the batch is processed", observed=[cls, msg])
    want, _ = rule_run(S, batches, SUBSCRIBED)
    got = [(ks, c) for (_, ks, c) in obs["delivered"]]
    last = {}
    last_at = {}
    for (svc, ks, c), bi in zip(obs["delivered"], obs["delivered_at"]):
        a = json.loads(c)
        k = canon_of.get(ks)
        msgs = [m for (kk, m) in S.sigs if kk == k and analyse_msg(m) not in (None, "malformed") and analyse_msg(m)["canon"] == c] if k else []
        if k is None and classify_key(ks)[0] == "ok" and 1 <= classify_key(ks)[1] <= NKEYS:
            ctx.oracle_fail("announcement-attributed-to-respelled-key",
                            "an announcement was delivered under key string %s, a non-canonical spelling of key %d: it gets an index of its own, "
                            "so a replayed older announcement is accepted beside the newer one" % (ks.decode(), classify_key(ks)[1]),
                            case=cinfo, expected=key(classify_key(ks)[1])[2].decode(), observed=ks.decode())
            continue
        if not msgs:
            ctx.oracle_fail("announcement-accepted-without-valid-signature",
                            "delivered to subscribers under key %s: %s -- but that key never signed this content" % (ks.decode(), c[:200]),
                            case=cinfo, expected="not delivered", observed=c)
            continue
        idx = (svc, ks)
        s_new = a.get("seqnum")
        if idx in last and isinstance(last[idx], int) and not isinstance(last[idx], bool):
            if not isinstance(s_new, int) or isinstance(s_new, bool) or s_new <= last[idx]:
                lost = [x for x in sorted(reconnects) if last_at[idx] < x <= bi]
                if lost:
                    ctx.oracle_fail("announcement-rolled-back-after-reconnect",
                                    "what subscribers hold for (%s, %s) went back from seqnum %r (handed over in batch %d) to seqnum %r (batch %d) after the connection "
                                    "to the introducer was lost and re-established before batch %s: the accepted sequence numbers did not survive the reconnection"
                                    % (svc, ks.decode(), last[idx], last_at[idx], s_new, bi, lost),
                                    case=cinfo, expected="seqnum > %r" % (last[idx],), observed=s_new)
                else:
                    ctx.oracle_fail("announcement-replaced-by-not-newer-seqnum",
                                    "for (%s, %s) an announcement with seqnum %r replaced the stored one with seqnum %r" % (svc, ks.decode(), s_new, last[idx]),
                                    case=cinfo, expected="seqnum > %r" % (last[idx],), observed=s_new)
        last[idx] = s_new
        last_at[idx] = bi
    for lo in obs["late"]:
        if sorted(lo["seen"]) != lo["held"]:
            wrong = [(ks, c) for ks, c in lo["seen"] if (ks, c) not in lo["held"]]
            ctx.count("late-subscription-mismatch")
            ctx.oracle_fail("late-subscriber-gets-wrong-announcement",
                            "a subscriber registering for %r after batch %d (with %d announcements held for that service) was told %d (key, announcement) pairs; "
                            "%s" % (lo["service"], lo["after_batch"], len(lo["held"]), len(lo["seen"]),
                                    ("under key %s it was handed an announcement that is not the one held for that key: seqnum %r instead of %r"
                                     % (wrong[0][0].decode(), json.loads(wrong[0][1]).get("seqnum"),
                                        json.loads(dict(lo["held"]).get(wrong[0][0], "{}")).get("seqnum"))) if wrong else "some held announcements were not passed on"),
                            case=cinfo, expected=[(k.decode(), json.loads(c).get("nickname"), json.loads(c).get("seqnum")) for k, c in lo["held"]],
                            observed=[(k.decode(), json.loads(c).get("nickname"), json.loads(c).get("seqnum")) for k, c in lo["seen"]])
            break
        if len(lo["held"]) >= 2 and not lo.get("final"):
            ctx.count("late-subscription-with-2+-held")
    if not obs["errors"] and got != want:
        missing = [x for x in want if x not in got]
        extra = [x for x in got if x not in want]
        if missing:
            ctx.oracle_fail("valid-announcement-dropped", "a correctly signed, newer announcement was not delivered: %s" % (missing[0][1][:200],),
                            case=cinfo, expected=[c for _, c in want], observed=[c for _, c in got])
        elif extra:
            ctx.oracle_fail("announcement-delivered-against-rules", "delivered although the rules reject it: %s" % (extra[0][1][:200],),
                            case=cinfo, expected=[c for _, c in want], observed=[c for _, c in got])
        else:
            ctx.oracle_fail("announcements-delivered-in-wrong-order", "deliveries are not in arrival order", case=cinfo,
                            expected=[c for _, c in want], observed=[c for _, c in got])

    # ---- model ----
    sym = Symbols(S)
    n = 0
    bts = []
    for b in batches:
        ws = []
        for it in b:
            n += 1
            ws.append(sym.wire(it["wire"], n))
        bts.append(T.lst(ws))
    subs = T.lst([T.N(sym.svc(s)) for s in SUBSCRIBED])
    evs = []
    for bi, bt in enumerate(bts):
        if bi in reconnects:
            evs.append("EReconnect")
        evs.append("(EBatch %s)" % bt)

    def ksym(ks):
        c = classify_key(ks)
        return (c[1], c[2]) if c[0] == "ok" else (0, 0)

    def body(c):
        return sym.body_ids.get(c, 0)
    dl = T.lst(["(%s, %s, %s)" % (T.N(ksym(ks)[0]), T.N(ksym(ks)[1]), T.N(body(c))) for (_, ks, c) in obs["delivered"]])
    stq = T.lst(["(%s, %s, %s, %s)" % (T.N(sym.svc(svc)), T.N(ksym(ks)[0]), T.N(ksym(ks)[1]), T.N(body(c))) for (svc, ks, c) in obs["stored"]])
    cnt = obs["counts"]
    npassed = "N.of_nat (List.length (List.filter (fun v => match v with RNotTriple | RUnknownKey | RMalformedKey | RMalformedSig | RBadSignature | RNotJSON => false | _ => true end) (List.concat (snd r))))"
    if obs["errors"]:
        terms.append("false")
    else:
        terms.append("(let r := sym_run_events %s %s true %s %s in triples_eqb (delivered_ids (fst r)) %s && quads_seteq (stored_ids (fst r)) %s "
                     "&& (count_verdict PNew (snd r) =? %d) && (count_verdict PUpdate (snd r) =? %d) && (count_verdict PDuplicate (snd r) =? %d) "
                     "&& (count_verdict PWrongService (snd r) =? %d) && (%s =? %d))"
                     % (T.boolean(alias_ok), T.lst(sym.tbl), subs, T.lst(evs), dl, stq, cnt["new_announcement"], cnt["update"],
                        cnt["duplicate_announcement"], cnt["wrong_service"], npassed, cnt["inbound_announcement"]))
    info.append(("client", i, cinfo, {"delivered": obs["delivered"], "counts": cnt, "errors": obs["errors"]}))
    mid = [lo for lo in obs["late"] if not lo.get("final")]
    if mid and not obs["errors"] and i % 3 == 0:
        lo = mid[-1]
        prefix = []
        for bi, bt in enumerate(bts[:lo["after_batch"] + 1]):
            if bi in reconnects:
                prefix.append("EReconnect")
            prefix.append("(EBatch %s)" % bt)
        seen = T.lst(["(%s, %s, %s)" % (T.N(ksym(ks)[0]), T.N(ksym(ks)[1]), T.N(body(c))) for ks, c in lo["seen"]])
        terms.append("triples_seteq (backlog_ids (fst (sym_run_events %s %s true %s %s)) %s) %s"
                     % (T.boolean(alias_ok), T.lst(sym.tbl), subs, T.lst(prefix), T.N(sym.svc(lo["service"])), seen))
        info.append(("client", i, cinfo, {"late_subscription": {"after_batch": lo["after_batch"], "service": lo["service"],
                                                                 "seen": [(k.decode(), json.loads(c).get("seqnum")) for k, c in lo["seen"]]}}))

    # ---- server: same stream, one publish at a time ----
    sstored, sraised = run_server(batches)
    stq2 = T.lst(["(%s, %s, %s, %s)" % (T.N(sym.svc(svc)), T.N(ksym(ks)[0]), T.N(ksym(ks)[1]), T.N(body(c))) for (svc, ks, c) in sstored])
    terms.append("(let r := sym_run %s %s false [] %s in quads_seteq (stored_ids (fst r)) %s && (N.of_nat (List.length (List.filter (fun v => negb (stores v) && "
                 "negb (verdict_eqb v PDuplicate) && negb (verdict_eqb v PTooOld) && negb (verdict_eqb v PNoValidSeq)) (List.concat (snd r)))) =? %d))"
                 % (T.boolean(alias_ok), T.lst(sym.tbl), T.lst(bts), stq2, sraised))
    info.append(("server", i, cinfo, {"stored": sstored, "raised": sraised}))
    _, swant = rule_run(S, batches, None, server=True)
    sgot = dict(((svc, canon_of.get(ks)), c) for svc, ks, c in sstored)
    for idx2, a in sorted(swant.items()):
        if idx2 in sgot and sgot[idx2] != a["canon"]:
            got_seq = json.loads(sgot[idx2]).get("seqnum")
            ctx.oracle_fail("introducer-server-keeps-wrong-announcement",
                            "IntroducerService holds seqnum %r for (%s, key %d) where the rules (replace only by a strictly greater integer seqnum) "
                            "leave seqnum %r" % (got_seq, idx2[0], idx2[1], a["ann"].get("seqnum")),
                            case=cinfo, expected=a["canon"], observed=sgot[idx2])
            break
        if idx2 not in sgot:
            ctx.oracle_fail("introducer-server-lost-announcement", "IntroducerService holds nothing for (%s, key %d)" % idx2, case=cinfo,
                            expected=a["canon"], observed=None)
            break
    for svc, ks, c in sstored:
        k = canon_of.get(ks)
        ck = classify_key(ks)
        if k is None and ck[0] == "ok" and 1 <= ck[1] <= NKEYS:
            ctx.oracle_fail("announcement-attributed-to-respelled-key",
                            "IntroducerService filed an announcement under %s, a non-canonical spelling of key %d (an index of its own)" % (ks.decode(), ck[1]),
                            case=cinfo, expected=key(ck[1])[2].decode(), observed=ks.decode())
        elif k is None or not any(kk == k and analyse_msg(m) not in (None, "malformed") and analyse_msg(m)["canon"] == c for (kk, m) in S.sigs):
            ctx.oracle_fail("introducer-server-stores-unverified-announcement",
                            "IntroducerService holds an announcement under %s that this key never signed" % ks.decode(),
                            case=cinfo, expected="not stored", observed=c)

    # ---- bookkeeping ----
    kinds = [it["kind"] for b in batches for it in b]
    ctx.count("streams-with-connection-loss", 1 if reconnects else 0)
    ctx.count("connection-losses", len(reconnects))
    bad_before_good = any(any(it["kind"] not in ("fresh",) for it in b[:j]) and b[j]["kind"] == "fresh" for b in batches for j in range(len(b)))
    nontrivial = cnt["update"] > 0 and bad_before_good
    ctx.case((tuple(kinds), tuple(c for _, _, c in obs["delivered"])) if nontrivial else None, kind="stream")
    for kd in kinds:
        ctx.count("ann:" + kd)
    if i < 2:
        ctx.sample({"batches": describe(batches), "delivered": [(s, k.decode(), json.loads(c).get("seqnum")) for s, k, c in obs["delivered"]],
                    "counts": cnt})
    return S, batches, obs


def unsign_cases(ctx, alias_ok, terms, info):
    """unsign_from_foolscap alone: exception class / attributed key vs model."""
    from allmydata.crypto.error import BadSignature
    from allmydata.introducer.common import unsign_from_foolscap, UnknownKeyError
    seen = set()
    for i in range(ctx.n(20, 250)):
        r = ctx.rng("unsign", i)
        S, batches, reconnects = gen_stream(r)
        sym = Symbols(S)
        n = 0
        pairs = []
        detail = []
        for b in batches:
            for it in b:
                n += 1
                w = it["wire"]
                if repr(w) in seen:
                    continue
                seen.add(repr(w))
                try:
                    ann, ks = unsign_from_foolscap(w)
                    c = classify_key(ks)
                    cls = (3, c[1], c[2]) if c[0] == "ok" else (3, 0, 0)
                    if ann != json.loads(w[0].decode("utf-8")):
                        ctx.oracle_fail("unsign-returns-other-content", "unsign_from_foolscap returned a dictionary that is not the signed message",
                                        case={"kind": it["kind"]}, expected=w[0].decode("latin-1"), observed=repr(ann)[:300])
                except UnknownKeyError:
                    cls = (0, 0, 0)
                except BadSignature:
                    cls = (1, 0, 0)
                except Exception:
                    cls = (2, 0, 0)
                ctx.case(("unsign", it["kind"], cls), kind="unsign")
                pairs.append("(%s, (%s, %s, %s))" % (sym.wire(w, n), T.N(cls[0]), T.N(cls[1]), T.N(cls[2])))
                detail.append({"kind": it["kind"], "wire": describe([[it]])[0][0]["wire"], "class": cls})
        terms.append("(let tbl := %s in forallb (fun p => triple_eqb (sym_unsign %s tbl (fst p)) (snd p)) %s)"
                     % (T.lst(sym.tbl), T.boolean(alias_ok), T.lst(pairs)))
        info.append(("unsign", i, {"stream": "unsign", "index": i, "wires": detail}, None))


def run(ctx):
    ctx.correspondence("introducer-client-vs-model")
    ctx.correspondence("introducer-server-vs-model")
    ctx.correspondence("unsign_from_foolscap-vs-model")
    alias_ok = alias_accepted()
    ctx.note("base32 layer accepts respelled key strings: %s" % alias_ok)
    cache = os.path.join(env.subdir("c34"), "announcements.yaml")
    terms, info = [], []
    for i in range(ctx.n(100, 1500)):
        one_stream(ctx, i, alias_ok, cache, terms, info)
    unsign_cases(ctx, alias_ok, terms, info)
    bad = ctx.coq_check(IMPORTS, terms, tag="c34", shard=max(20, (len(terms) + 7) // 8))
    names = {"client": "introducer-client-vs-model", "server": "introducer-server-vs-model", "unsign": "unsign_from_foolscap-vs-model"}
    for ix in bad:
        which, i, cinfo, obs = info[ix]
        ctx.mismatch("introducer-%s-model-vs-impl" % which, "Coq model and the implementation (%s) differ" % which,
                     case=cinfo, observed=obs, correspondence=names[which])
    ctx.trace(len(terms) - len(bad))


def replay(ctx, rec):
    c = rec.get("case") or {}
    if c.get("stream") == "stream":
        terms, info = [], []
        cache = os.path.join(env.subdir("c34"), "announcements.yaml")
        S, batches, obs = one_stream(ctx, c["index"], alias_accepted(), cache, terms, info)
        return {"batches": describe(batches), "delivered": [(s, k.decode(), json.loads(cc).get("seqnum")) for s, k, cc in obs["delivered"]],
                "errors": obs["errors"], "model_vs_impl_disagreements": ctx.coq_check(IMPORTS, terms, tag="c34r")}
    return {"note": "not a stream case"}
